#!/usr/bin/env python3
"""Apply a patch (or a sed-like edit) to a scratch copy of /repo and run checks against it.

usage: mutant.py <patch-file | -e 'file@@old@@new'> [--expect viol|ok] PROP [PROP...]
Scratch copies live under /tmp/snowmut-<pid> and are removed afterwards."""
import os
import shutil
import subprocess
import sys
import tempfile

VERIF = os.path.dirname(os.path.dirname(os.path.abspath(__file__)))


def make_scratch():
    d = tempfile.mkdtemp(prefix="snowmut-")
    subprocess.check_call(["rsync", "-a", "--exclude", "target", "--exclude", ".git", "/repo/", d + "/"])
    return d


def apply_edit(d, spec):
    f, old, new = spec.split("@@", 2)
    p = os.path.join(d, f)
    s = open(p).read()
    if s.count(old) < 1:
        raise SystemExit("edit: pattern not found in %s: %r" % (f, old))
    s = s.replace(old, new, 1)
    open(p, "w").write(s)


def run_checks(d, props, tier="quick"):
    res = {}
    for p in props:
        r = subprocess.run([os.path.join(VERIF, "check"), p, "--tier", tier, "--repo", d], stdout=subprocess.PIPE, stderr=subprocess.STDOUT, text=True)
        res[p] = (r.returncode, r.stdout)
    return res


def main():
    args = sys.argv[1:]
    edits = []
    patch = None
    props = []
    verbose = False
    i = 0
    while i < len(args):
        a = args[i]
        if a == "-e":
            edits.append(args[i + 1])
            i += 2
        elif a == "-v":
            verbose = True
            i += 1
        elif a.endswith(".patch") or a.endswith(".diff"):
            patch = a
            i += 1
        else:
            props.append(a)
            i += 1
    d = make_scratch()
    try:
        if patch:
            subprocess.check_call(["patch", "-p1", "-s", "-d", d, "-i", os.path.abspath(patch)])
        for e in edits:
            apply_edit(d, e)
        res = run_checks(d, props)
        for p, (rc, out) in res.items():
            print("== %s rc=%d" % (p, rc))
            lines = out.strip().splitlines()
            for l in (lines if verbose else lines[-8:]):
                print("   " + l)
    finally:
        shutil.rmtree(d, ignore_errors=True)
        sys.path.insert(0, os.path.dirname(os.path.dirname(os.path.abspath(__file__))))
        from snowlint import build
        build.drop_scratch_facts(d)


if __name__ == "__main__":
    main()
