#!/usr/bin/env python3
"""Run every stored seeded change (seeded/*/patch.diff) against every quick check on scratch copies of /repo and
write seeded/MATRIX.md + update each meta.json. usage: seed_matrix.py [--jobs N] [Sxx ...]"""
import concurrent.futures as cf
import json
import os
import subprocess
import sys

VERIF = os.path.dirname(os.path.dirname(os.path.abspath(__file__)))


def one(sid):
    r = subprocess.run(["python3", os.path.join(VERIF, "selftest/seed_eval.py"), os.path.join(VERIF, "seeded", sid, "patch.diff")], stdout=subprocess.PIPE, stderr=subprocess.STDOUT, text=True)
    fired, inc = [], []
    for l in r.stdout.splitlines():
        if l.startswith("SUMMARY fired:"):
            fired = l.split(":", 1)[1].split()
        if l.startswith("SUMMARY inconclusive:"):
            inc = l.split(":", 1)[1].split()
    if r.returncode == 3:
        fired = ["PATCH-FAILED"]
    return sid, fired, inc


def main():
    args = sys.argv[1:]
    jobs = 4
    if "--jobs" in args:
        i = args.index("--jobs")
        jobs = int(args[i + 1])
        del args[i:i + 2]
    sids = args or sorted(d for d in os.listdir(os.path.join(VERIF, "seeded")) if os.path.exists(os.path.join(VERIF, "seeded", d, "patch.diff")))
    rows = []
    with cf.ThreadPoolExecutor(jobs) as ex:
        for sid, fired, inc in ex.map(one, sids):
            mp = os.path.join(VERIF, "seeded", sid, "meta.json")
            m = json.load(open(mp))
            m["detected_by_quick_checks"] = fired
            m["repo_commit_evaluated"] = subprocess.check_output(["git", "-C", "/repo", "log", "--format=%h", "-1"], text=True).strip()
            json.dump(m, open(mp, "w"), indent=1)
            prop = m.get("effective_property", m["breaks_property"])
            rows.append((sid, prop, fired, inc, m["needs_to_manifest"]))
            print(sid, prop, "own" if prop in fired else "MISSED-BY-OWN", fired, inc, flush=True)
    if not args:
        with open(os.path.join(VERIF, "seeded", "MATRIX.md"), "w") as f:
            f.write("| seed | breaks | caught by own check | all quick checks that fire | needs to manifest |\n|---|---|---|---|---|\n")
            for sid, prop, fired, inc, needs in rows:
                f.write("| %s | %s | %s | %s | %s |\n" % (sid, prop, "yes" if prop in fired else "NO", " ".join(fired), needs))
    bad = [r for r in rows if r[1] not in r[2]]
    sys.exit(1 if bad else 0)


if __name__ == "__main__":
    main()
