#!/usr/bin/env python3
"""Apply each behaviour-preserving patch (selftest/benign/*.diff) to a scratch copy of /repo, require that the existing
suite still passes, and run every quick check on the copy: every check must exit 0. Writes selftest/BENIGN.md.
usage: run_benign.py [--no-tests] [--jobs N] [name ...]        exit 1 if any check raises an alarm (exit 1 or 2)."""
import concurrent.futures as cf
import glob
import os
import shutil
import subprocess
import sys
import tempfile

VERIF = os.path.dirname(os.path.dirname(os.path.abspath(__file__)))
sys.path.insert(0, VERIF)
from snowlint import build  # noqa

ALL = ["C%02d" % i for i in range(1, 21)]


def one(patch, run_tests, target):
    d = tempfile.mkdtemp(prefix="snowben-")
    name = os.path.basename(patch)[:-5]
    res = {"name": name, "applies": True, "tests": "-", "alarms": {}, "lines": {}}
    try:
        subprocess.check_call(["rsync", "-a", "--exclude", "target", "--exclude", ".git", "/repo/", d + "/"])
        r = subprocess.run(["patch", "-p1", "-s", "-d", d, "-i", patch], stdout=subprocess.PIPE, stderr=subprocess.STDOUT, text=True)
        if r.returncode != 0:
            res["applies"] = False
            return res
        env = dict(os.environ, CARGO_NET_OFFLINE="true", CARGO_TARGET_DIR=target)
        if run_tests:
            r = subprocess.run(["cargo", "test", "--offline", "--no-fail-fast", "--lib", "--test", "general"], cwd=d, env=env, stdout=subprocess.PIPE, stderr=subprocess.STDOUT, text=True)
            p = f = 0
            for l in r.stdout.splitlines():
                if l.startswith("test result"):
                    w = l.split()
                    p += int(w[3])
                    f += int(w[5])
            res["tests"] = "%d/%d" % (p, f)
        for prop in ALL:
            r = subprocess.run([os.path.join(VERIF, "check"), prop, "--tier", "quick", "--repo", d], stdout=subprocess.PIPE, stderr=subprocess.STDOUT, text=True)
            if r.returncode != 0:
                res["alarms"][prop] = "VIOLATION" if r.returncode == 1 else "INCONCLUSIVE"
                res["lines"][prop] = [l for l in r.stdout.splitlines() if ("[" in l and "cfg=" in l) or l.startswith("INCONCLUSIVE")][:4]
        return res
    finally:
        shutil.rmtree(d, ignore_errors=True)
        build.drop_scratch_facts(d)


def main():
    args = sys.argv[1:]
    run_tests = "--no-tests" not in args
    jobs = 3
    if "--jobs" in args:
        i = args.index("--jobs")
        jobs = int(args[i + 1])
        del args[i:i + 2]
    unknown = [a for a in args if a.startswith("-") and a != "--no-tests"]
    if unknown:
        sys.exit(__doc__)
    names = [a for a in args if not a.startswith("--")]
    patches = sorted(glob.glob(os.path.join(VERIF, "selftest", "benign", "*.diff")))
    if names:
        patches = [p for p in patches if os.path.basename(p)[:-5] in names]
    targets = [tempfile.mkdtemp(prefix="snowben-target-") for _ in range(jobs)]
    rows = []
    try:
        with cf.ThreadPoolExecutor(jobs) as ex:
            futs = [(p, ex.submit(one, p, run_tests, targets[k % jobs])) for k, p in enumerate(patches)]
            for p, fu in futs:
                r = fu.result()
                st = "PATCH-FAILED" if not r["applies"] else ("silent" if not r["alarms"] else "ALARM")
                print("%s %-12s tests=%s %s" % (r["name"], st, r["tests"], " ".join("%s:%s" % kv for kv in sorted(r["alarms"].items()))), flush=True)
                for prop, ls in r["lines"].items():
                    for l in ls:
                        print("      %s: %s" % (prop, l.strip()[:260]))
                rows.append((r, st))
    finally:
        for t in targets:
            shutil.rmtree(t, ignore_errors=True)
    if not names:
        with open(os.path.join(VERIF, "selftest", "BENIGN.md"), "w") as f:
            f.write("| patch | existing tests (pass/fail) | result | checks raising an alarm |\n|---|---|---|---|\n")
            for r, st in rows:
                f.write("| %s | %s | %s | %s |\n" % (r["name"], r["tests"], st, " ".join("%s:%s" % kv for kv in sorted(r["alarms"].items()))))
    sys.exit(1 if any(st != "silent" for _, st in rows) else 0)


if __name__ == "__main__":
    main()
