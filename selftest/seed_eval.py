#!/usr/bin/env python3
"""Evaluate a seeded change: apply patch to a scratch copy of /repo, run all (or given) checks, report which fire.
usage: seed_eval.py <patch.diff> [--tier quick|thorough] [Cnn ...]"""
import json
import os
import shutil
import subprocess
import sys
import tempfile

VERIF = os.path.dirname(os.path.dirname(os.path.abspath(__file__)))
ALL = ["C%02d" % i for i in range(1, 21)]


def main():
    args = sys.argv[1:]
    tier = "quick"
    if "--tier" in args:
        i = args.index("--tier")
        tier = args[i + 1]
        del args[i:i + 2]
    patch = os.path.abspath(args[0])
    props = args[1:] or ALL
    d = tempfile.mkdtemp(prefix="snowseed-")
    try:
        subprocess.check_call(["rsync", "-a", "--exclude", "target", "--exclude", ".git", "/repo/", d + "/"])
        r = subprocess.run(["patch", "-p1", "-s", "-d", d, "-i", patch], stdout=subprocess.PIPE, stderr=subprocess.STDOUT, text=True)
        if r.returncode != 0:
            print("PATCH FAILED:\n" + r.stdout)
            sys.exit(3)
        fired = {}
        for p in props:
            r = subprocess.run([os.path.join(VERIF, "check"), p, "--tier", tier, "--repo", d], stdout=subprocess.PIPE, stderr=subprocess.STDOUT, text=True)
            lines = [l for l in r.stdout.splitlines() if l.strip()]
            status = "ok" if r.returncode == 0 else "VIOLATION" if r.returncode == 1 else "INCONCLUSIVE"
            fired[p] = (status, [l for l in lines if "[" in l and "]" in l and not l.startswith("KNOWN")][:4])
        for p in props:
            st, ls = fired[p]
            if st != "ok":
                print("%s %s" % (p, st))
                for l in ls:
                    print("     " + l[:260])
        print("SUMMARY fired: %s" % " ".join(p for p in props if fired[p][0] == "VIOLATION"))
        inc = [p for p in props if fired[p][0] == "INCONCLUSIVE"]
        if inc:
            print("SUMMARY inconclusive: %s" % " ".join(inc))
    finally:
        shutil.rmtree(d, ignore_errors=True)
        sys.path.insert(0, VERIF)
        from snowlint import build
        build.drop_scratch_facts(d)


if __name__ == "__main__":
    main()
