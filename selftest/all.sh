#!/bin/sh
# run every check (tier $1, default quick) and print one line each
cd "$(dirname "$0")/.."
T=${1:-quick}
for c in C01 C02 C03 C04 C05 C06 C07 C08 C09 C10 C11 C12 C13 C14 C15 C16 C17 C18 C19 C20; do
  ./check $c --tier $T 2>&1 | grep -E "^(OK|VIOLATION|INCONCLUSIVE)" | cut -c1-160 | tail -2
done
