#!/usr/bin/env python3
"""keep_seed.py <seed-id> <property> <out-dir> <demo-file> "<needs>" "<confirm line>" : store a confirmed seeded change"""
import json, os, shutil, subprocess, sys
sid, prop, out, demo, needs, confirm = sys.argv[1:7]
d = os.path.join("/verif/seeded", sid)
os.makedirs(d, exist_ok=True)
shutil.copy(os.path.join(out, "patch.diff"), os.path.join(d, "patch.diff"))
shutil.copy(os.path.join(out, demo), os.path.join(d, demo))
if os.path.exists(os.path.join(out, "notes.md")):
    shutil.copy(os.path.join(out, "notes.md"), os.path.join(d, "notes.md"))
r = subprocess.run(["python3", "/verif/selftest/seed_eval.py", os.path.join(d, "patch.diff")], stdout=subprocess.PIPE, text=True)
fired = [l for l in r.stdout.splitlines() if l.startswith("SUMMARY fired:")]
fired = fired[0].split(":", 1)[1].split() if fired else []
meta = {
    "id": sid, "breaks_property": prop,
    "origin": "independent sub-agent given only the property text and a scratch worktree of /repo",
    "needs_to_manifest": needs,
    "confirmed": confirm,
    "what_was_run": ["cargo test --offline --no-fail-fast --lib --test general (with the change)", "cargo test --offline --test %s (with and without the change)" % demo.replace(".rs", ""), "selftest/seed_eval.py (all 20 quick checks on a scratch copy with the patch applied)"],
    "detected_by_quick_checks": fired,
    "repo_commit_base": subprocess.check_output(["git", "-C", "/repo", "log", "--format=%h", "-1"], text=True).strip(),
}
json.dump(meta, open(os.path.join(d, "meta.json"), "w"), indent=1)
print(sid, prop, "detected by", fired)
