"""Committed mutant corpus: single-site edits of /repo that break one of the 20 properties.

Each entry: id, expect (properties of which at least the first must report a VIOLATION), file, old, new, [nth]
(`old` must occur exactly once in the file unless `nth` picks the occurrence), note. The runner
(`run_mutants.py`) applies each to a scratch copy, requires that it still compiles (`cargo check`), records
whether the 59 existing tests still pass, and runs the expected checks on the copy.

These are my own edits (DESIGN §6); the independently produced ones are in /verif/seeded/."""

H = "src/handshakestate.rs"
C = "src/cipherstate.rs"
S = "src/symmetricstate.rs"
T = "src/transportstate.rs"
ST = "src/stateless_transportstate.rs"
TY = "src/types.rs"
D = "src/resolvers/default.rs"
R = "src/resolvers/ring.rs"
RM = "src/resolvers/mod.rs"
B = "src/builder.rs"
P = "src/params/patterns.rs"
PM = "src/params/mod.rs"

MUTANTS = [
    # ---- C01 wire conformance
    dict(id="M001", expect=["C01"], file=P, old="message_vec![&[E], &[E, Dh(Ee), Dh(Se), S], &[Dh(Es)]],", new="message_vec![&[E], &[E, Dh(Ee), Dh(Es), S], &[Dh(Se)]],",
         note="a pattern row with es/se swapped (both peers agree, so self-interop tests pass)"),
    dict(id="M002", expect=["C01", "C02"], file=S, old="child1.set(&cipher_keys.0, 0);\n        child2.set(&cipher_keys.1, 0);", new="child1.set(&cipher_keys.1, 0);\n        child2.set(&cipher_keys.0, 0);",
         note="split children swapped (symmetric between snow peers)"),
    dict(id="M003", expect=["C01"], file=S, old="self.mix_hash(&hkdf_output.1[..hash_len]);", new="self.mix_hash(&hkdf_output.2[..hash_len]);",
         note="mix_key_and_hash mixes output 3 instead of 2"),
    dict(id="M004", expect=["C01", "C18"], file=TY, old="in2[hash_len] = 2;", new="in2[hash_len] = 1;", note="HKDF counter byte"),
    dict(id="M005", expect=["C01", "C18"], file=D, old="copy_slices!(nonce.to_be_bytes(), &mut nonce_bytes[4..]);", new="copy_slices!(nonce.to_le_bytes(), &mut nonce_bytes[4..]);", nth="all",
         note="AES-GCM nonce little-endian in encrypt and decrypt (self-consistent)"),
    dict(id="M006", expect=["C01"], file=S, old="if handshake_name.len() <= self.hasher.hash_len() {", new="if handshake_name.len() < self.hasher.hash_len() {", note="protocol name of exactly HASHLEN bytes is hashed"),
    dict(id="M007", expect=["C01", "C08"], file=H, old="                    if self.params.handshake.is_psk() {\n                        self.symmetricstate.mix_key(pubkey);\n                    }\n", new="", note="psk: e not mixed into ck on write (read side still does: tests with psk fail?)"),
    dict(id="M008", expect=["C01"], file=P, old="    if n == 0 {\n        tokens.insert(0, Token::Psk(n));", new="    if n <= 1 {\n        tokens.insert(0, Token::Psk(n));", note="psk1 placed at the start of message 1 instead of its end"),
    # ---- C02 / C03 transcript
    dict(id="M010", expect=["C03", "C02", "C01"], file=H, old="                    ptr = &ptr[pub_len..];\n                    self.symmetricstate.mix_hash(&self.re[..pub_len]);", new="                    ptr = &ptr[pub_len..];",
         note="read E arm without mix_hash"),
    dict(id="M011", expect=["C03", "C01"], file=S, old="        self.mix_hash(data);\n        Ok(payload_len)", new="        self.mix_hash(&out[..payload_len]);\n        Ok(payload_len)", note="decrypt_and_mix_hash mixes the plaintext"),
    dict(id="M012", expect=["C03", "C01"], file=S, old="self.cipherstate.encrypt_ad(&self.inner.h[..hash_len], plaintext, out)?", new="self.cipherstate.encrypt_ad(&[], plaintext, out)?", note="AD dropped on encrypt (paired with M013 tests still pass)"),
    dict(id="M013", expect=["C03"], file=H, old="self.symmetricstate.decrypt_and_mix_hash(data, &mut self.rs[..pub_len])?;", new="let _ = self.symmetricstate.decrypt_and_mix_hash(data, &mut self.rs[..pub_len]);", note="S decrypt failure ignored"),
    dict(id="M014", expect=["C02", "C04"], file=ST, old="let cipher = if self.initiator { &self.cipherstates.0 } else { &self.cipherstates.1 };\n        cipher.encrypt(nonce, payload, message)", new="let cipher = if self.initiator { &self.cipherstates.0 } else { &self.cipherstates.0 };\n        cipher.encrypt(nonce, payload, message)",
         note="stateless responder writes with the initiator's key"),
    # ---- C04 / C05 / C09
    dict(id="M020", expect=["C04", "C16"], file=C, old="        self.cipher.decrypt(nonce, authtext, ciphertext, out)\n", new="        self.cipher.decrypt(0, authtext, ciphertext, out)\n", note="stateless decrypt ignores the nonce"),
    dict(id="M021", expect=["C05", "C09", "C06"], file=C, old="        validate_nonce(self.n)?;\n        let len = self.cipher.decrypt(self.n, authtext, ciphertext, out)?;\n\n        // We have validated this will not wrap around.\n        self.n += 1;\n",
         new="        validate_nonce(self.n)?;\n        self.n += 1;\n        let len = self.cipher.decrypt(self.n - 1, authtext, ciphertext, out)?;\n", note="receive nonce advanced before the tag check"),
    dict(id="M022", expect=["C09", "C06"], file=C, old="        validate_nonce(self.n)?;\n        let len = self.cipher.encrypt(self.n, authtext, plaintext, out);", new="        let len = self.cipher.encrypt(self.n, authtext, plaintext, out);", note="no exhaustion guard on encrypt"),
    dict(id="M023", expect=["C09", "C06"], file=C, old="if current == u64::MAX {", new="if current > u64::MAX - 0 && current == 0 {", note="exhaustion guard never fires"),
    dict(id="M024", expect=["C09"], file=C, old="        // We have validated this will not wrap around.\n        self.n += 1;\n\n        Ok(len)\n    }\n\n    pub fn decrypt_ad", new="        // We have validated this will not wrap around.\n        self.n += 2;\n\n        Ok(len)\n    }\n\n    pub fn decrypt_ad", note="send nonce counts by two"),
    dict(id="M025", expect=["C05"], file=T, old="            self.cipherstates.1.set_nonce(nonce);\n        } else {\n            self.cipherstates.0.set_nonce(nonce);", new="            self.cipherstates.0.set_nonce(nonce);\n        } else {\n            self.cipherstates.1.set_nonce(nonce);", note="set_receiving_nonce sets the sending nonce"),
    # ---- C06 / C07
    dict(id="M030", expect=["C07", "C06"], file=H, old="            Err(err) => {\n                self.symmetricstate.restore(checkpoint);\n                Err(err)\n            },", new="            Err(err) => Err(err),", nth=0, note="write path no longer restores"),
    dict(id="M031", expect=["C07", "C06"], file=S, old="SymmetricStateCheckpoint { inner: self.inner, nonce: self.cipherstate.nonce() }", new="SymmetricStateCheckpoint { inner: self.inner, nonce: 0 }", note="checkpoint forgets the nonce"),
    dict(id="M032", expect=["C07"], file=H, old="    fn _write_message(&mut self, payload: &[u8], message: &mut [u8]) -> Result<usize, Error> {\n        if !self.my_turn {", new="    fn _write_message(&mut self, payload: &[u8], message: &mut [u8]) -> Result<usize, Error> {\n        self.fixed_ephemeral = self.fixed_ephemeral && payload.len() < 70000;\n        if !self.my_turn {", note="a field written before the guards on a path that can fail"),
    dict(id="M033", expect=["C06"], file=S, old="        self.inner.ck = hkdf_output.0;\n        self.cipherstate.set(&cipher_key, 0);\n        self.inner.k = cipher_key;\n        self.inner.has_key = true;", new="        self.inner.ck = hkdf_output.0;\n        let n = self.cipherstate.nonce();\n        self.cipherstate.set(&cipher_key, 0);\n        self.cipherstate.set_nonce(n.min(0));\n        self.inner.k = cipher_key;\n        self.inner.has_key = true;", note="extra nonce writer (value-equal, but a new writer of n: must be audited)"),
    dict(id="M034", expect=["C06", "C07"], file=H, old="        if byte_index + payload.len() + TAGLEN > message.len()\n            || byte_index + payload_len > MAXMSGLEN\n        {\n            return Err(Error::Input);\n        }\n        byte_index +=\n            self.symmetricstate.encrypt_and_mix_hash(payload, &mut message[byte_index..])?;",
         new="        if byte_index + payload.len() + TAGLEN > message.len() {\n            return Err(Error::Input);\n        }\n        byte_index +=\n            self.symmetricstate.encrypt_and_mix_hash(payload, &mut message[byte_index..])?;\n        if byte_index > MAXMSGLEN {\n            return Err(Error::Input);\n        }", note="error after the payload was encrypted (retry encrypts different data under the same nonce unless rolled back... rolled back => same (k,n) different plaintext)"),
    # ---- C08
    dict(id="M040", expect=["C08", "C01"], file=H, old="        symmetricstate.mix_hash(prologue);\n", new="", note="prologue not mixed (both sides agree)"),
    dict(id="M041", expect=["C08"], file=H, old="        self.psks[location] = Some(new_psk);", new="        if self.psks[location].is_none() {\n            self.psks[location] = Some(new_psk);\n        }", note="set_psk keeps an earlier psk"),
    # ---- C10 / C14
    dict(id="M050", expect=["C10", "C14"], file=H, old="                    if byte_index + self.e.pub_len() > message.len() {\n                        return Err(Error::Input);\n                    }\n", new="", note="E write guard removed -> slice panic"),
    dict(id="M051", expect=["C10"], file=H, old="if ptr.len() < pub_len + TAGLEN {", new="if ptr.len() < pub_len {", note="S read guard forgets the tag"),
    dict(id="M052", expect=["C10", "C14"], file=T, old="} else if payload.len() + TAGLEN > MAXMSGLEN || payload.len() + TAGLEN > message.len() {", new="} else if payload.len() + TAGLEN > MAXMSGLEN || payload.len() > message.len() {", note="transport write buffer check forgets the tag -> panic"),
    dict(id="M053", expect=["C14"], file=T, old="} else if payload.len() + TAGLEN > MAXMSGLEN || payload.len() + TAGLEN > message.len() {", new="} else if payload.len() + TAGLEN >= MAXMSGLEN || payload.len() + TAGLEN > message.len() {", note="65535-byte message rejected"),
    dict(id="M054", expect=["C14"], file=T, old="        } else if message.len() > MAXMSGLEN {\n            Err(Error::Input)", new="        } else if message.len() > MAXMSGLEN + 1 {\n            Err(Error::Input)", note="65536-byte read accepted"),
    dict(id="M055", expect=["C14", "C10"], file=H, old="        let payload_len = ptr.len() - if self.symmetricstate.has_key() { TAGLEN } else { 0 };\n        Ok(payload_len)", new="        Ok(ptr.len())", note="read returns the ciphertext length"),
    dict(id="M056", expect=["C10"], file=C, old="        if (ciphertext.len() < TAGLEN) || out.len() < (ciphertext.len() - TAGLEN) {\n            return Err(Error::Decrypt);\n        }\n\n        if !self.has_key {\n            return Err(StateProblem::MissingKeyMaterial.into());\n        }\n\n        validate_nonce(self.n)?;", new="        if !self.has_key {\n            return Err(StateProblem::MissingKeyMaterial.into());\n        }\n\n        validate_nonce(self.n)?;", note="decrypt length precheck removed -> wrapper underflow"),
    # ---- C11
    dict(id="M060", expect=["C11"], file=H, old="return Err(StateProblem::NotTurnToWrite.into());", new="return Err(StateProblem::NotTurnToRead.into());", note="wrong state error variant"),
    dict(id="M061", expect=["C11"], file=ST, old="        if !handshake.is_handshake_finished() {\n            return Err(StateProblem::HandshakeNotFinished.into());\n        }\n", new="", note="stateless conversion not gated"),
    dict(id="M062", expect=["C11"], file=ST, old="        if self.initiator && self.pattern.is_oneway() {\n            Err(StateProblem::OneWay.into())", new="        if !self.initiator && self.pattern.is_oneway() {\n            Err(StateProblem::OneWay.into())", note="one-way polarity flipped in the stateless reader"),
    dict(id="M064", expect=["C11"], file=P, old="matches!(self, N | X | K)", new="matches!(self, N | X | K | NN)", note="NN treated as one-way"),
    # ---- C12
    dict(id="M070", expect=["C12"], file=P, old="K | KN | KK | KX | K1N | K1K | KK1 | K1K1 | K1X | KX1 | K1X1", new="K | KN | KK | KX | K1N | K1K | KK1 | K1K1 | KX1 | K1X1", note="K1X responder no longer requires the remote static"),
    dict(id="M071", expect=["C12"], file=P, old="!matches!(self, N | NN | NK | NX | NK1 | NX1)", new="!matches!(self, N | NN | NK | NX | NK1 | NX1 | XK1)", note="XK1 initiator judged not to need a static key"),
    dict(id="M072", expect=["C12"], file=B, old="return Err(Prerequisite::RemotePublicKey.into());", new="return Err(Prerequisite::LocalPrivateKey.into());", note="wrong prerequisite variant"),
    # ---- C13
    dict(id="M080", expect=["C13"], file=PM, old='"BLAKE2s" => Ok(Blake2s),', new='"BLAKE2s" => Ok(Blake2b),', note="name maps to the wrong hash"),
    dict(id="M081", expect=["C13"], file=P, old="for i in (1..=4).rev() {", new="for i in (1..=3).rev() {", note="4-letter patterns unparsable"),
    dict(id="M082", expect=["C13"], file=P, old="                if modifiers.contains(&modifier) {\n                    return Err(Error::Pattern(PatternProblem::DuplicateModifier));\n                }\n                modifiers.push(modifier);", new="                modifiers.push(modifier);", note="duplicates accepted"),
    # ---- C15
    dict(id="M090", expect=["C15", "C06", "C09"], file=TY, old="let ciphertext_len = self.encrypt(u64::MAX, &[], &[0; CIPHERKEYLEN], &mut ciphertext);", new="let ciphertext_len = self.encrypt(u64::MAX - 1, &[], &[0; CIPHERKEYLEN], &mut ciphertext);", note="rekey nonce"),
    dict(id="M091", expect=["C15"], file=TY, old="key.copy_from_slice(&ciphertext[..CIPHERKEYLEN]);", new="key.copy_from_slice(&ciphertext[TAGLEN..]);", note="rekey takes bytes 16..48"),
    dict(id="M092", expect=["C15"], file=ST, old="    pub fn rekey_incoming(&mut self) {\n        if self.initiator {\n            self.cipherstates.rekey_responder();\n        } else {\n            self.cipherstates.rekey_initiator();\n        }", new="    pub fn rekey_incoming(&mut self) {\n        if self.initiator {\n            self.cipherstates.rekey_initiator();\n        } else {\n            self.cipherstates.rekey_responder();\n        }", note="stateless rekey_incoming rekeys the outgoing direction"),
    dict(id="M093", expect=["C15"], file=C, old="    pub fn rekey(&mut self) {\n        self.cipher.rekey();\n    }\n\n    pub fn rekey_manually(&mut self, key: &[u8; CIPHERKEYLEN]) {\n        self.cipher.set(key);\n    }\n\n    pub fn nonce", new="    pub fn rekey(&mut self) {\n        self.cipher.rekey();\n        self.n = 0;\n    }\n\n    pub fn rekey_manually(&mut self, key: &[u8; CIPHERKEYLEN]) {\n        self.cipher.set(key);\n    }\n\n    pub fn nonce", note="rekey resets the nonce"),
    # ---- C16
    dict(id="M100", expect=["C16"], file=C, old="pub(crate) struct StatelessCipherState {\n    cipher:  Box<dyn Cipher>,\n    has_key: bool,\n}", new="pub(crate) struct StatelessCipherState {\n    cipher:  Box<dyn Cipher>,\n    has_key: bool,\n    count:   core::sync::atomic::AtomicU64,\n}", extra=[(C, "Self { cipher: other.cipher, has_key: other.has_key }", "Self { cipher: other.cipher, has_key: other.has_key, count: core::sync::atomic::AtomicU64::new(0) }")], note="interior mutability in the stateless cipher state"),
    dict(id="M101", expect=["C16", "C04"], file=C, old="        Ok(self.cipher.encrypt(nonce, authtext, plaintext, out))", new="        Ok(self.cipher.encrypt(nonce.wrapping_add(1), authtext, plaintext, out))", note="stateless encrypt shifts the nonce (read not shifted: tests fail?)"),
    # ---- C17
    dict(id="M110", expect=["C17"], file=H, old="self.rs.get().map(|rs| &rs[..self.s.pub_len()])", new="self.rs.get().map(|rs| &rs[..self.s.dh_len()])", note="handshake getter slices with dh_len"),
    dict(id="M111", expect=["C17"], file=T, old="self.rs.get().map(|rs| &rs[..self.pub_len])", new="Some(&self.rs[..self.pub_len])", note="getter ignores the toggle: reports a key when none was received"),
    # ---- C18
    dict(id="M120", expect=["C18", "C01"], file=TY, old="let mut opad = [0x5c_u8; MAXBLOCKLEN];", new="let mut opad = [0x5a_u8; MAXBLOCKLEN];", note="HMAC opad constant"),
    dict(id="M121", expect=["C18"], file=D, old="        128\n", new="        64\n", nth=0, note="a 128-byte block length becomes 64 (SHA-512 or BLAKE2b)"),
    dict(id="M122", expect=["C18", "C01"], file=TY, old="for count in 0..key.len() {", new="for count in 1..key.len() {", note="HMAC skips the first key byte"),
    dict(id="M123", expect=["C18", "C01"], file=TY, old="opad[count] ^= key[count];", new="opad[count] ^= key[key.len() - 1 - count];", note="HMAC opad xored with the reversed key (ipad correct)"),
    # ---- second batch: deeper / symmetric deviations
    dict(id="M201", expect=["C01"], file=S, old="        self.inner.ck = hkdf_output.0;\n        self.cipherstate.set(&cipher_key, 0);\n        self.inner.k = cipher_key;\n        self.inner.has_key = true;", new="        self.inner.ck = hkdf_output.1;\n        self.cipherstate.set(&cipher_key, 0);\n        self.inner.k = cipher_key;\n        self.inner.has_key = true;", note="mix_key: ck taken from HKDF output 2"),
    dict(id="M202", expect=["C01"], file=S, old="        copy_slices!(self.inner.h, &mut self.inner.ck);\n", new="", note="InitializeSymmetric forgets ck = h"),
    dict(id="M203", expect=["C01", "C02"], file=S, old="self.hasher.hkdf(&self.inner.ck[..hash_len], &[0_u8; 0], 2, out1, out2, &mut []);", new="self.hasher.hkdf(&self.inner.h[..hash_len], &[0_u8; 0], 2, out1, out2, &mut []);", note="Split keyed by h instead of ck"),
    dict(id="M204", expect=["C03", "C01"], file=S, old="        self.mix_hash(&out[..output_len]);\n        Ok(output_len)", new="        self.mix_hash(plaintext);\n        Ok(output_len)", note="EncryptAndHash mixes the plaintext (paired with M011 both sides agree)"),
    dict(id="M205", expect=["C01", "C08"], file=H, old="(DhToken::Se, true) | (DhToken::Es, false) => (&self.s, &self.re),\n            (DhToken::Es, true) | (DhToken::Se, false) => (&self.e, &self.rs),", new="(DhToken::Se, true) | (DhToken::Es, true) => (&self.s, &self.re),\n            (DhToken::Es, false) | (DhToken::Se, false) => (&self.e, &self.rs),", note="es/se role table wrong"),
    dict(id="M206", expect=["C01", "C08"], file=H, old="                    Some(psk) => {\n                        self.symmetricstate.mix_key_and_hash(&psk);\n                    },", new="                    Some(psk) => {\n                        self.symmetricstate.mix_key(&psk);\n                    },", nth="all", note="psk token uses MixKey instead of MixKeyAndHash (both sides)"),
    dict(id="M207", expect=["C04", "C01"], file=C, old="self.encrypt_ad(&[0_u8; 0], plaintext, out)", new="self.encrypt_ad(&[0_u8; 1], plaintext, out)", note="transport AD not empty on write"),
    dict(id="M208", expect=["C14", "C10"], file=H, old="let payload_len = ptr.len() - if self.symmetricstate.has_key() { TAGLEN } else { 0 };", new="let payload_len = ptr.len().saturating_sub(TAGLEN);", note="payload length subtracts the tag even without a key"),
    dict(id="M209", expect=["C16", "C02"], file=ST, old="let cipher = if self.initiator { &self.cipherstates.1 } else { &self.cipherstates.0 };\n            cipher.decrypt(nonce, payload, message)", new="let cipher = if self.initiator { &self.cipherstates.0 } else { &self.cipherstates.1 };\n            cipher.decrypt(nonce, payload, message)", note="stateless read uses the sending key"),
    dict(id="M210", expect=["C17"], file=H, old="self.rs.get().map(|rs| &rs[..self.s.pub_len()])", new="self.re.get().map(|rs| &rs[..self.s.pub_len()])", note="get_remote_static reports the remote ephemeral"),
    dict(id="M211", expect=["C20", "C18"], file=D, old="CipherChoice::AESGCM => Some(Box::<CipherAesGcm>::default()),", new="CipherChoice::AESGCM => Some(Box::<CipherChaChaPoly>::default()),", note="default resolver hands out ChaChaPoly for AESGCM"),
    dict(id="M213", expect=["C05", "C04"], file=T, old="                if self.initiator { &mut self.cipherstates.1 } else { &mut self.cipherstates.0 };\n            cipher.decrypt(message, payload)", new="                if self.initiator { &mut self.cipherstates.0 } else { &mut self.cipherstates.1 };\n            cipher.decrypt(message, payload)", note="stateful read uses the sending cipher state"),
    dict(id="M214", expect=["C08"], file=H, old="        symmetricstate.initialize(&params.name);", new="        symmetricstate.initialize(&params.name.to_uppercase());", note="protocol name case-folded before hashing"),
    dict(id="M215", expect=["C07"], file=H, old="                Token::S => {\n                    let data = if self.symmetricstate.has_key() {\n                        if ptr.len() < pub_len + TAGLEN {", new="                Token::S => {\n                    if self.rs.is_on() && !self.symmetricstate.has_key() && ptr.len() >= pub_len && self.rs[..pub_len] != ptr[..pub_len] {\n                        return Err(Error::Decrypt);\n                    }\n                    let data = if self.symmetricstate.has_key() {\n                        if ptr.len() < pub_len + TAGLEN {", note="'pinning': a cleartext static key that differs from the one already held is refused — but a failed read leaves rs switched on, so the retried genuine message is refused too"),
    dict(id="M216", expect=["C12"], file=B, old="if v.len() > rs_buf.len() {", new="if v.len() > rs_buf.len() || v.len() > s.priv_len() {", note="remote public key bounded by the private key length: a 65-byte P-256 key no longer builds"),
    dict(id="M217", expect=["C12", "C10"], file=B, old="if fixed_k.len() > e_dh.priv_len() {", new="if fixed_k.len() > e_dh.pub_len() {", note="fixed ephemeral private key bounded by the public key length"),
    # ---- C19
    dict(id="M130", expect=["C19"], file=S, old="            self.cipherstate.decrypt_ad(&self.inner.h[..hash_len], data, out)?\n", new="            match self.cipherstate.decrypt_ad(&self.inner.h[..hash_len], data, out) {\n                Ok(n) => n,\n                Err(e) => {\n                    let n = out.len().min(data.len());\n                    out[..n].copy_from_slice(&data[..n]);\n                    return Err(e);\n                },\n            }\n", note="on failure the ciphertext is copied out (not plaintext, but a new writer of `out` on the error path)"),
    # ---- C20
    dict(id="M140", expect=["C20"], file=RM, old="self.preferred.resolve_hash(choice).or_else(|| self.fallback.resolve_hash(choice))", new="self.preferred.resolve_hash(choice).or_else(|| self.preferred.resolve_hash(choice))", note="fallback never consulted for hashes"),
    dict(id="M141", expect=["C20", "C18", "C01"], file=R, old="copy_slices!(&nonce.to_le_bytes(), &mut nonce_bytes[4..]);", new="copy_slices!(&nonce.to_le_bytes(), &mut nonce_bytes[..8]);", nth="all", cfg="B", note="ring ChaChaPoly nonce at offset 0 (both directions, self-consistent)"),
    dict(id="M142", expect=["C20"], file=RM, old="self.preferred.resolve_cipher(choice).or_else(|| self.fallback.resolve_cipher(choice))", new="self.fallback.resolve_cipher(choice).or_else(|| self.preferred.resolve_cipher(choice))", note="fallback preferred for ciphers"),
]
