//! Triage demonstrations for the findings of DESIGN.md §5 (run manually in a scratch worktree:
//! copy to tests/defects.rs; `cargo test --offline --features use-p256 --test defects`).
//! These are NOT part of the verification machinery (which is static); they show that each reported
//! construct is a genuine defect of the real code, with the concrete failing input.
use snow::{params::NoiseParams, Builder};
use std::panic::{catch_unwind, AssertUnwindSafe};

fn xx() -> (snow::HandshakeState, snow::HandshakeState) {
    let params: NoiseParams = "Noise_XX_25519_ChaChaPoly_SHA256".parse().unwrap();
    let ki = Builder::new(params.clone()).generate_keypair().unwrap();
    let kr = Builder::new(params.clone()).generate_keypair().unwrap();
    let i = Builder::new(params.clone()).local_private_key(&ki.private).unwrap().build_initiator().unwrap();
    let r = Builder::new(params).local_private_key(&kr.private).unwrap().build_responder().unwrap();
    (i, r)
}

/// F1 (C07/C06): a failed write of XX message 3 poisons the retry.
#[test]
fn f1_failed_write_then_retry() {
    let (mut i, mut r) = xx();
    let mut m = [0u8; 1024];
    let mut p = [0u8; 1024];
    let n = i.write_message(&[], &mut m).unwrap();
    r.read_message(&m[..n], &mut p).unwrap();
    let n = r.write_message(&[], &mut m).unwrap();
    i.read_message(&m[..n], &mut p).unwrap();
    // message 3: `s, se` + payload; a 58-byte buffer fits s+tag (48) but not the payload+tag
    let mut small = [0u8; 58];
    assert!(i.write_message(b"hello", &mut small).is_err());
    let n = i.write_message(b"hello", &mut m).expect("retry with a large buffer must succeed");
    let got = r.read_message(&m[..n], &mut p).expect("peer must accept the retried message");
    assert_eq!(&p[..got], b"hello");
}

/// F1 read side: a rejected (corrupted) message 3 must not prevent the genuine one from being read.
#[test]
fn f1_failed_read_then_genuine() {
    let (mut i, mut r) = xx();
    let mut m = [0u8; 1024];
    let mut p = [0u8; 1024];
    let n = i.write_message(&[], &mut m).unwrap();
    r.read_message(&m[..n], &mut p).unwrap();
    let n = r.write_message(&[], &mut m).unwrap();
    i.read_message(&m[..n], &mut p).unwrap();
    let n = i.write_message(b"hello", &mut m).unwrap();
    let mut bad = m;
    bad[n - 1] ^= 1;
    assert!(r.read_message(&bad[..n], &mut p).is_err());
    let got = r.read_message(&m[..n], &mut p).expect("genuine message must still be accepted");
    assert_eq!(&p[..got], b"hello");
}

/// F2 (C10/C14): output buffer that fits `s` but not its tag must be Err(Input), not a panic.
#[test]
fn f2_s_token_tag_window() {
    let (mut i, mut r) = xx();
    let mut m = [0u8; 1024];
    let mut p = [0u8; 1024];
    let n = i.write_message(&[], &mut m).unwrap();
    r.read_message(&m[..n], &mut p).unwrap();
    let mut buf = [0u8; 72]; // e (32) + s (32) = 64 <= 72 < 64 + 16
    let res = catch_unwind(AssertUnwindSafe(|| r.write_message(&[], &mut buf)));
    assert!(res.is_ok(), "write_message panicked");
    assert!(res.unwrap().is_err());
}

/// F3 (C10): over-long keys handed to the builder must be an error, not a panic.
#[test]
fn f3_builder_key_lengths() {
    let params: NoiseParams = "Noise_XX_25519_ChaChaPoly_SHA256".parse().unwrap();
    let long = [1u8; 33];
    let res = catch_unwind(|| Builder::new("Noise_XX_25519_ChaChaPoly_SHA256".parse().unwrap()).local_private_key(&[1u8; 33]).unwrap().build_initiator().is_ok());
    assert!(res.is_ok(), "local_private_key(33 bytes) panicked");
    let _ = long;
    let res = catch_unwind(|| {
        Builder::new("Noise_NK_25519_ChaChaPoly_SHA256".parse().unwrap()).remote_public_key(&[1u8; 100]).unwrap().build_initiator().is_ok()
    });
    assert!(res.is_ok(), "remote_public_key(100 bytes) panicked");
    let res = catch_unwind(|| {
        Builder::new("Noise_NN_25519_ChaChaPoly_SHA256".parse().unwrap()).fixed_ephemeral_key_for_testing_only(&[1u8; 40]).build_initiator().is_ok()
    });
    assert!(res.is_ok(), "fixed ephemeral (40 bytes) panicked");
    let _ = params;
}

/// F5 (C17): remote static key must be the full public key after conversion (P-256: 65 bytes).
#[cfg(feature = "use-p256")]
#[test]
fn f5_remote_static_after_conversion() {
    let params: NoiseParams = "Noise_XX_P256_ChaChaPoly_SHA256".parse().unwrap();
    let ki = Builder::new(params.clone()).generate_keypair().unwrap();
    let kr = Builder::new(params.clone()).generate_keypair().unwrap();
    let mut i = Builder::new(params.clone()).local_private_key(&ki.private).unwrap().build_initiator().unwrap();
    let mut r = Builder::new(params).local_private_key(&kr.private).unwrap().build_responder().unwrap();
    let mut m = [0u8; 1024];
    let mut p = [0u8; 1024];
    let n = i.write_message(&[], &mut m).unwrap();
    r.read_message(&m[..n], &mut p).unwrap();
    let n = r.write_message(&[], &mut m).unwrap();
    i.read_message(&m[..n], &mut p).unwrap();
    let n = i.write_message(&[], &mut m).unwrap();
    r.read_message(&m[..n], &mut p).unwrap();
    let before = i.get_remote_static().unwrap().to_vec();
    assert_eq!(before, kr.public);
    let t = i.into_transport_mode().unwrap();
    assert_eq!(t.get_remote_static().unwrap(), &kr.public[..]);
    let before_r = r.get_remote_static().unwrap().to_vec();
    let ts = r.into_stateless_transport_mode().unwrap();
    assert_eq!(ts.get_remote_static().unwrap(), &before_r[..]);
}

/// F4 (C10, use-p256): an all-zero P-256 scalar must not panic.
#[cfg(feature = "use-p256")]
#[test]
fn f4_p256_zero_scalar() {
    let res = catch_unwind(|| {
        Builder::new("Noise_XX_P256_ChaChaPoly_SHA256".parse().unwrap()).local_private_key(&[0u8; 32]).unwrap().build_initiator().is_ok()
    });
    assert!(res.is_ok(), "P256 zero scalar panicked");
}

/// F1 (oversize variant): in X1N message 3 (`s`) the key is not re-derived inside the message; a write that
/// fails the 65535-byte limit has already consumed nonces, so the retried (shorter) message is rejected.
#[test]
fn f1_oversize_write_then_retry() {
    let params: NoiseParams = "Noise_X1N_25519_ChaChaPoly_SHA256".parse().unwrap();
    let ki = Builder::new(params.clone()).generate_keypair().unwrap();
    let mut i = Builder::new(params.clone()).local_private_key(&ki.private).unwrap().build_initiator().unwrap();
    let mut r = Builder::new(params).build_responder().unwrap();
    let mut m = vec![0u8; 70000];
    let mut p = vec![0u8; 70000];
    let n = i.write_message(&[], &mut m).unwrap();
    r.read_message(&m[..n], &mut p).unwrap();
    let n = r.write_message(&[], &mut m).unwrap();
    i.read_message(&m[..n], &mut p).unwrap();
    let big = vec![7u8; 65530];
    assert!(i.write_message(&big, &mut m).is_err());
    let n = i.write_message(b"ok", &mut m).unwrap();
    let got = r.read_message(&m[..n], &mut p).expect("retried message must be accepted");
    assert_eq!(&p[..got], b"ok");
}

/// F7 (C11): an out-of-phase read must report the state error even when the message is over-long.
/// Before the fix the three read entry points tested the 65535-byte limit first and returned Error::Input.
#[test]
fn f7_out_of_phase_oversized_read() {
    use snow::error::{Error, StateProblem};
    let big = vec![0u8; 70_000];
    let mut out = vec![0u8; 70_000];
    // initiator at the start: it is its turn to write, so a read is out of turn
    let (mut i, mut r) = xx();
    assert!(matches!(i.read_message(&big, &mut out), Err(Error::State(StateProblem::NotTurnToRead))));
    // finished handshake
    let mut m = vec![0u8; 1024];
    let mut p = vec![0u8; 1024];
    let n = i.write_message(&[], &mut m).unwrap();
    r.read_message(&m[..n], &mut p).unwrap();
    let n = r.write_message(&[], &mut m).unwrap();
    i.read_message(&m[..n], &mut p).unwrap();
    let n = i.write_message(&[], &mut m).unwrap();
    r.read_message(&m[..n], &mut p).unwrap();
    assert!(matches!(r.read_message(&big, &mut out), Err(Error::State(StateProblem::NotTurnToRead))));
    assert!(matches!(i.read_message(&big, &mut out), Err(Error::State(StateProblem::HandshakeAlreadyFinished))));
    // one-way pattern: the initiator can never read in transport mode
    let params: snow::params::NoiseParams = "Noise_N_25519_ChaChaPoly_BLAKE2s".parse().unwrap();
    let rk = snow::Builder::new(params.clone()).generate_keypair().unwrap();
    let mut ni = snow::Builder::new(params.clone()).remote_public_key(&rk.public).unwrap().build_initiator().unwrap();
    let n = ni.write_message(&[], &mut m).unwrap();
    let _ = n;
    let params2: snow::params::NoiseParams = "Noise_N_25519_ChaChaPoly_BLAKE2s".parse().unwrap();
    let mut ni2 = snow::Builder::new(params2).remote_public_key(&rk.public).unwrap().build_initiator().unwrap();
    ni2.write_message(&[], &mut m).unwrap();
    let mut t = ni.into_transport_mode().unwrap();
    assert!(matches!(t.read_message(&big, &mut out), Err(Error::State(StateProblem::OneWay))));
    let st = ni2.into_stateless_transport_mode().unwrap();
    assert!(matches!(st.read_message(0, &big, &mut out), Err(Error::State(StateProblem::OneWay))));
}
