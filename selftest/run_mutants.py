#!/usr/bin/env python3
"""Apply each committed mutant (selftest/mutants.py) to a scratch copy of /repo, require that it compiles, record
whether the existing tests still pass, run the expected checks on the copy, and write selftest/MUTANTS.md.
usage: run_mutants.py [--no-tests] [--jobs N] [--all-checks] [Mxxx ...]     exit 1 if an expected check misses."""
import concurrent.futures as cf
import os
import shutil
import subprocess
import sys
import tempfile

VERIF = os.path.dirname(os.path.dirname(os.path.abspath(__file__)))
sys.path.insert(0, VERIF)
sys.path.insert(0, os.path.join(VERIF, "selftest"))
from mutants import MUTANTS  # noqa
from snowlint import build  # noqa

ALL = ["C%02d" % i for i in range(1, 21)]
FEAT_B = ["--features", "ring-resolver use-p256 use-xchacha20poly1305"]


def edit(path, old, new, nth=None):
    s = open(path).read()
    c = s.count(old)
    if nth == "all" and c:
        open(path, "w").write(s.replace(old, new))
        return
    if c == 0:
        raise KeyError("mutant anchor not found in %s: %r" % (path, old[:60]))
    if nth is None:
        if c != 1:
            raise KeyError("mutant anchor not unique (%d) in %s: %r" % (c, path, old[:60]))
        s = s.replace(old, new)
    else:
        i = -1
        for _ in range(nth + 1):
            i = s.index(old, i + 1)
        s = s[:i] + new + s[i + len(old):]
    open(path, "w").write(s)


def one(m, run_tests, all_checks, shared_target):
    d = tempfile.mkdtemp(prefix="snowmut-")
    res = {"id": m["id"], "compiles": None, "tests": "-", "fired": [], "inconclusive": []}
    try:
        subprocess.check_call(["rsync", "-a", "--exclude", "target", "--exclude", ".git", "/repo/", d + "/"])
        try:
            edit(os.path.join(d, m["file"]), m["old"], m["new"], m.get("nth"))
            for (f, o, n) in m.get("extra", []):
                edit(os.path.join(d, f), o, n)
        except KeyError as e:
            res["compiles"] = False
            res["err"] = "ANCHOR: %s" % e
            return res
        env = dict(os.environ, CARGO_NET_OFFLINE="true", CARGO_TARGET_DIR=shared_target)
        feats = FEAT_B if m.get("cfg") == "B" else []
        r = subprocess.run(["cargo", "check", "--offline", "--lib"] + feats, cwd=d, env=env, stdout=subprocess.PIPE, stderr=subprocess.STDOUT, text=True)
        res["compiles"] = r.returncode == 0
        if not res["compiles"]:
            res["err"] = r.stdout[-600:]
            return res
        if run_tests:
            r = subprocess.run(["cargo", "test", "--offline", "--no-fail-fast", "--lib", "--test", "general"], cwd=d, env=env, stdout=subprocess.PIPE, stderr=subprocess.STDOUT, text=True)
            p = f = 0
            for l in r.stdout.splitlines():
                if l.startswith("test result"):
                    w = l.split()
                    p += int(w[3])
                    f += int(w[5])
            res["tests"] = "%d/%d" % (p, f)
        for prop in (ALL if all_checks else m["expect"]):
            r = subprocess.run([os.path.join(VERIF, "check"), prop, "--tier", "quick", "--repo", d], stdout=subprocess.PIPE, stderr=subprocess.STDOUT, text=True)
            if r.returncode == 1:
                res["fired"].append(prop)
                res.setdefault("lines", {})[prop] = [l for l in r.stdout.splitlines() if "[" in l and "cfg=" in l][:3]
            elif r.returncode != 0:
                res["inconclusive"].append(prop)
                res.setdefault("lines", {})[prop] = [l for l in r.stdout.splitlines() if l.startswith("INCONCLUSIVE")][:1]
        return res
    finally:
        shutil.rmtree(d, ignore_errors=True)
        build.drop_scratch_facts(d)


def main():
    args = sys.argv[1:]
    run_tests = "--no-tests" not in args
    all_checks = "--all-checks" in args
    jobs = 3
    if "--jobs" in args:
        i = args.index("--jobs")
        jobs = int(args[i + 1])
        del args[i:i + 2]
    ids = [a for a in args if not a.startswith("--")]
    ms = [m for m in MUTANTS if not ids or m["id"] in ids]
    targets = [tempfile.mkdtemp(prefix="snowmut-target-") for _ in range(jobs)]
    rows = []
    try:
        with cf.ThreadPoolExecutor(jobs) as ex:
            futs = []
            for k, m in enumerate(ms):
                futs.append((m, ex.submit(one, m, run_tests, all_checks, targets[k % jobs])))
            for m, fu in futs:
                r = fu.result()
                ok = r["compiles"] and m["expect"][0] in r["fired"]
                status = "NOT-COMPILING" if not r["compiles"] else ("caught" if ok else ("caught-by-other" if r["fired"] else "MISSED"))
                print("%s %-16s tests=%s expect=%s fired=%s inconcl=%s  -- %s" % (m["id"], status, r["tests"], ",".join(m["expect"]), ",".join(r["fired"]), ",".join(r["inconclusive"]), m["note"][:70]), flush=True)
                if not r["compiles"]:
                    print("    " + r.get("err", "").replace("\n", "\n    ")[-400:])
                if status != "caught":
                    for p, ls in r.get("lines", {}).items():
                        for l in ls:
                            print("      %s: %s" % (p, l.strip()[:220]))
                rows.append((m, r, status))
    finally:
        for t in targets:
            shutil.rmtree(t, ignore_errors=True)
    if not ids:
        with open(os.path.join(VERIF, "selftest", "MUTANTS.md"), "w") as f:
            f.write("| mutant | file | what | existing tests (pass/fail) | expected | quick checks that fire | status |\n|---|---|---|---|---|---|---|\n")
            for m, r, status in rows:
                f.write("| %s | %s | %s | %s | %s | %s | %s |\n" % (m["id"], m["file"], m["note"].replace("|", "/"), r["tests"], " ".join(m["expect"]), " ".join(r["fired"]), status))
    sys.exit(1 if any(st in ("MISSED", "NOT-COMPILING") for _, _, st in rows) else 0)


if __name__ == "__main__":
    main()
