#!/bin/bash
# confirm a seeded change produced in a scratch worktree: usage confirm_seed.sh <worktree> <demo-test-name> [features]
# prints: existing=<passed>/<failed> demo_with=<pass|fail> demo_without=<pass|fail>
W=$1; DEMO=$2; FEAT=${3:-}
export CARGO_NET_OFFLINE=true
cd "$W" || exit 2
FF=""; [ -n "$FEAT" ] && FF="--features $FEAT"
git diff -- src > /tmp/confirm_$$.patch
[ -s /tmp/confirm_$$.patch ] || { echo "no source change in $W"; exit 2; }
EX=$(cargo test --offline --no-fail-fast --lib --test general 2>&1 | grep "^test result" | awk '{p+=$4; f+=$6} END {print p"/"f}')
WITH=$(cargo test --offline $FF --test $DEMO 2>&1 | grep -E "^test result" | tail -1 | awk '{print ($6==0 && $4>0)?"pass":"fail"}')
git checkout -q -- src
WITHOUT=$(cargo test --offline $FF --test $DEMO 2>&1 | grep -E "^test result" | tail -1 | awk '{print ($6==0 && $4>0)?"pass":"fail"}')
git apply /tmp/confirm_$$.patch
rm -f /tmp/confirm_$$.patch
echo "existing(passed/failed)=$EX demo_with_change=$WITH demo_without_change=$WITHOUT"
