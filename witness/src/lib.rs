//! Type-level witnesses for snow's typestate properties. Every `compile_fail,E....` example is paired
//! with a compiling twin (`no_run`) that differs only by the offending line, so a witness cannot pass
//! because of an unrelated compile error. Run with `cargo +nightly test --doc` (error codes are only
//! honoured on nightly). Nothing here is executed.

/// C16: the three state types are `Send + Sync` (twin: compiles).
/// ```no_run
/// fn assert_send_sync<T: Send + Sync>() {}
/// assert_send_sync::<snow::HandshakeState>();
/// assert_send_sync::<snow::TransportState>();
/// assert_send_sync::<snow::StatelessTransportState>();
/// ```
pub struct SendSync;

/// C16: stateless read/write work through a shared reference (twin: compiles).
/// ```no_run
/// fn use_shared(s: &snow::StatelessTransportState, m: &mut [u8], p: &mut [u8]) {
///     let n = s.write_message(0, b"x", m).unwrap();
///     let _ = s.read_message(0, &m[..n], p);
/// }
/// ```
pub struct SharedUse;

/// C16/C15: re-keying a stateless session needs exclusive access — it cannot happen behind `&self`.
/// ```compile_fail,E0596
/// fn rekey_shared(s: &snow::StatelessTransportState) {
///     s.rekey_outgoing();
/// }
/// ```
/// twin:
/// ```no_run
/// fn rekey_excl(s: &mut snow::StatelessTransportState) {
///     s.rekey_outgoing();
/// }
/// ```
pub struct RekeyNeedsMut;

/// C05/C09: stateful transport writes need exclusive access (the counter moves).
/// ```compile_fail,E0596
/// fn write_shared(s: &snow::TransportState, m: &mut [u8]) {
///     let _ = s.write_message(b"x", m);
/// }
/// ```
/// twin:
/// ```no_run
/// fn write_excl(s: &mut snow::TransportState, m: &mut [u8]) {
///     let _ = s.write_message(b"x", m);
/// }
/// ```
pub struct StatefulNeedsMut;

/// C11: a handshake state is consumed by the conversion; it cannot be used afterwards.
/// ```compile_fail,E0382
/// fn after(h: snow::HandshakeState, m: &mut [u8]) {
///     let mut h = h;
///     let _t = h.into_transport_mode();
///     let _ = h.write_message(b"", m);
/// }
/// ```
/// twin:
/// ```no_run
/// fn before(h: snow::HandshakeState, m: &mut [u8]) {
///     let mut h = h;
///     let _ = h.write_message(b"", m);
///     let _t = h.into_transport_mode();
/// }
/// ```
pub struct ConsumedByConversion;

/// C11: same for the stateless conversion.
/// ```compile_fail,E0382
/// fn after(h: snow::HandshakeState) {
///     let _t = h.into_stateless_transport_mode();
///     let _ = h.is_handshake_finished();
/// }
/// ```
/// twin:
/// ```no_run
/// fn before(h: snow::HandshakeState) {
///     let _ = h.is_handshake_finished();
///     let _t = h.into_stateless_transport_mode();
/// }
/// ```
pub struct ConsumedByStatelessConversion;

/// C11: transport states cannot be constructed by a user except through the gated conversion
/// (`new` is crate-private).
/// ```compile_fail,E0624
/// fn forge(h: snow::HandshakeState) {
///     let _ = snow::TransportState::new(h);
/// }
/// ```
/// ```compile_fail,E0624
/// fn forge(h: snow::HandshakeState) {
///     let _ = snow::StatelessTransportState::new(h);
/// }
/// ```
/// twin:
/// ```no_run
/// fn convert(h: snow::HandshakeState) {
///     let _ = h.into_transport_mode();
/// }
/// ```
pub struct NoPublicConstructor;

/// C11/C05: the fields of the transport state (keys, role, counters) are private.
/// ```compile_fail,E0616
/// fn peek(t: &snow::TransportState) -> bool {
///     t.initiator
/// }
/// ```
/// twin:
/// ```no_run
/// fn peek(t: &snow::TransportState) -> bool {
///     t.is_initiator()
/// }
/// ```
pub struct PrivateFields;
