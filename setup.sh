#!/bin/sh
# Build the fact exporter and warm the per-configuration dependency caches (offline).
set -e
cd "$(dirname "$0")"
export CARGO_NET_OFFLINE=true
python3 -m snowlint.build A B
if [ -d witness ]; then
  (cd witness && ./prepare.sh) || true
fi
echo setup done
