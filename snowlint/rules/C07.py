"""C07 — failed calls are no-ops."""
from . import errpath
from .common import where, short, self_paths

LEVEL = "other"
EXPLANATION = (
    "Decided: for HandshakeState::write_message/read_message the interprocedural may-write set on every error exit "
    "(all tokens, all failure points, both backends through the virtual-call closure), minus what the checkpoint/"
    "restore pair provably restores (snapshot taken before any write, whole-path re-assignment on the Err edge), "
    "must lie inside an allow-table of paths that are dead after a failure (each with a checked reason); turn and "
    "progress are written only on the Ok edge; set_psk and the stateful transport entry points write nothing on "
    "error exits. State equality implies the behavioural clause (identical later bytes); byte equality itself is "
    "not separately decided."
)


def run(ctx):
    ctx.rule("errpath-write", "E(entry) minus restored paths must be inside the allow-table")
    ctx.rule("errpath-write-allowed", "allow-table hits, each with its reason")
    ctx.rule("checkpoint-restores", "symmetricstate.inner is snapshotted before and restored on the Err edge")
    ctx.rule("progress-on-ok", "pattern_position/my_turn written only on the Ok edge with the right value")
    ctx.rule("hasher-reset", "hash context is reset before every use (justifies the allow-table entry for hasher)")
    ctx.rule("no-write-on-error", "set_psk and stateful transport entry points write nothing rooted at self on error exits")
    ctx.trust("rustc MIR; snowfacts; effect analysis over-approximates writes (sound for 'nothing else is written')")
    ctx.assume("a cipher object's observable state is its last set() key; Dh/Hash/Cipher &self methods do not mutate (Freeze, C16)")
    ctx.rule("toggle-disable", "a key toggle is switched off only where that same toggle was observed off (roll-back of an enable, never loss of a known key)")
    ctx.rule("overwritten-before-use", "inside the arm of the token that stores re/rs, the field is written before it is read (justifies the allow-table entries)")
    for cfg in ctx.cfgs:
        F = ctx.facts[cfg]
        E = ctx.eff(cfg)
        n = errpath.check_errpath(ctx, cfg)
        ctx.floor("errpath-write", n, 6, cfg)
        errpath.check_toggle_disable(ctx, cfg)
        o = errpath.check_overwrite_before_use(ctx, cfg)
        ctx.floor("overwritten-before-use", o, 2, cfg)
        p = errpath.check_progress_writes(ctx, cfg)
        ctx.floor("progress-on-ok", p, 6, cfg)
        h = errpath.check_hasher_reset(ctx, cfg)
        ctx.floor("hasher-reset", h, 8, cfg)
        for name in ("handshakestate::HandshakeState::set_psk", "transportstate::TransportState::write_message", "transportstate::TransportState::read_message"):
            fn = F.one_fn(name)
            s = E.sums[fn.path]
            bad = self_paths(s.w_err, 0)
            ctx.ob("no-write-on-error", short(fn.path), not bad,
                   "no session state written on any error exit" if not bad else "error exit may have written self.%s" % ", self.".join(bad), where(fn), cfg)
