"""C13 — the protocol-name parser accepts exactly the Noise name grammar."""
from .. import hir
from ..expr import strip_bb, show
from ..facts import Inconclusive, AnchorError
from ..flow import fields_only
from . import tables
from .common import where, short, ret_err_sites, err_variant, tested_on_path, mentions_call_at

LEVEL = "other"
EXPLANATION = (
    "Decided: (1) the terminal tables — literal -> variant maps of all FromStr impls (base, DH, cipher, hash, KEM, the "
    "38 patterns, modifiers) are extracted from HIR and compared with /verif/spec/names.py per feature configuration, "
    "including the documented error variant of every catch-all arm; (2) the composition structure of "
    "NoiseParams::from_str: split on '_', exactly five fields each taken by one split.next() in evaluation order with "
    "TooFewParameters on None, a sixth field => TooManyParameters, the name stored is s.to_owned(); (3) the "
    "pattern/modifier split tries prefix lengths in descending order from a bound >= the longest pattern name at char "
    "boundaries, and no modifier can start with a character that continues a pattern name (unambiguity, from the "
    "tables); (4) modifiers are split on '+', a duplicate is rejected before being pushed, psk<N> strips exactly the "
    "prefix. Full language equivalence is decided only up to the std semantics of str::split / starts_with / "
    "u8::from_str, which are not re-verified."
)

FIELD_TYPES = ["BaseChoice", "HandshakeChoice", "DHChoice", "CipherChoice", "HashChoice"]


def run(ctx):
    from spec import names as SN
    from spec import patterns as SP
    ctx.rule("name-table", "FromStr literal -> variant map equals the specification's terminal table")
    ctx.rule("name-table-default", "unknown strings map to the documented PatternProblem variant")
    ctx.rule("five-fields", "NoiseParams::from_str takes exactly five '_' separated fields in order; too few / too many are errors; name verbatim")
    ctx.rule("longest-prefix", "pattern/modifier split: descending prefix lengths from >= max name length, at char boundaries; unambiguous")
    ctx.rule("modifier-list", "'+'-separated modifiers; duplicates rejected before push; psk prefix stripped exactly")
    ctx.trust("rustc HIR (macro-expanded, name-resolved, typed); std semantics of split/starts_with/u8::from_str")
    for cfg in ctx.cfgs:
        F = ctx.facts[cfg]
        feats = features_of(F)
        want = {
            "params::BaseChoice": dict(SN.BASE),
            "params::DHChoice": dict(SN.DH, **(SN.DH_EXT if feats["p256"] else {})),
            "params::CipherChoice": dict(SN.CIPHER, **(SN.CIPHER_EXT if feats["xchacha"] else {})),
            "params::HashChoice": dict(SN.HASH),
            "params::patterns::HandshakePattern": {k: k for k in SP.PATTERNS},
        }
        if feats["hfs"]:
            want["params::KemChoice"] = dict(SN.KEM)
        n = 0
        for ty, spec in want.items():
            table, default, guarded, body = hir.fromstr_table(F, ty)
            w = tables.where_body(body)
            got = {k: (v[1] if v[0] == "Ok" else None) for k, v in table.items()}
            for lit in sorted(set(spec) | set(got)):
                n += 1
                ok = spec.get(lit) == got.get(lit) and lit in spec
                ctx.ob("name-table", "%s:%s" % (ty.split("::")[-1], lit), ok,
                       "%r parses to %s" % (lit, got.get(lit)) if ok else "%r parses to %s; the grammar requires %s" % (lit, got.get(lit), spec.get(lit, "rejection")), w, cfg)
            short_ty = ty.split("::")[-1]
            okd = default is not None and default[0] == "Err" and default[1] == SN.ERR[short_ty] and not guarded
            ctx.ob("name-table-default", short_ty, okd,
                   "any other string is rejected with Pattern(%s)" % SN.ERR[short_ty] if okd else "catch-all arm of %s::from_str is %s (guarded arms: %d), expected Err(%s)" % (short_ty, default, len(guarded), SN.ERR[short_ty]), w, cfg)
        ctx.floor("name-table", n, 38 + 1 + 2 + 2 + 4, cfg)
        modifiers(ctx, cfg, feats)
        if not feats["hfs"]:
            five_fields(ctx, cfg)
        else:
            five_fields_hfs(ctx, cfg)
        longest_prefix(ctx, cfg)
        modifier_list(ctx, cfg)


def features_of(F):
    dh = [v["name"] for v in F.adt("params::DHChoice")["variants"]]
    ci = [v["name"] for v in F.adt("params::CipherChoice")["variants"]]
    tok = [v["name"] for v in F.adt("params::patterns::Token")["variants"]]
    return {"p256": "P256" in dh, "xchacha": "XChaChaPoly" in ci, "hfs": "E1" in tok}


def modifiers(ctx, cfg, feats):
    from spec import names as SN
    F = ctx.facts[cfg]
    table, default, guarded, body = hir.fromstr_table(F, "params::patterns::HandshakeModifier")
    w = tables.where_body(body)
    spec = dict(SN.MODIFIERS, **(SN.MODIFIERS_HFS if feats["hfs"] else {}))
    got = {k: (v[1] if v[0] == "Ok" else None) for k, v in table.items()}
    for lit in sorted(set(spec) | set(got)):
        ok = spec.get(lit) == got.get(lit) and lit in spec
        ctx.ob("name-table", "HandshakeModifier:%s" % lit, ok,
               "%r parses to %s" % (lit, got.get(lit)) if ok else "%r parses to %s; the grammar requires %s" % (lit, got.get(lit), spec.get(lit, "rejection")), w, cfg)
    okd = default is not None and default[0] == "Err" and default[1] == SN.ERR["HandshakeModifier"]
    ctx.ob("name-table-default", "HandshakeModifier", okd, "other modifiers are rejected with Pattern(UnsupportedModifier)" if okd else "catch-all arm is %s" % (default,), w, cfg)
    # psk arm: guard starts_with("psk"), body Ok(Psk(s[3..].parse().map_err(InvalidPsk)?))
    ok = False
    why = "psk arm not found"
    if len(guarded) == 1:
        arm = guarded[0]
        g = hir.strip(arm["guard"])
        lit = None
        if g.get("k") == "mcall" and g["name"] == "starts_with" and g["args"]:
            a = hir.strip(g["args"][0])
            if a.get("k") == "lit" and "str" in a:
                lit = a["str"]
        idx = None
        psk_ctor = False
        invalid = False
        nodes = list(hir.walk(arm["body"]))
        for e in list(nodes):
            if e.get("k") == "closure":
                cb = F.bodies.get(e["def"])
                if cb and "hir" in cb:
                    nodes += list(hir.walk(cb["hir"]["value"]))
        for e in nodes:
            if e.get("k") == "index":
                for sub in hir.walk(e["i"]):
                    if sub.get("k") == "lit" and "int" in sub:
                        idx = sub["int"]
                    if sub.get("k") == "struct":
                        for fl in sub["fields"]:
                            x = hir.strip(fl["e"])
                            if x.get("k") == "lit" and "int" in x:
                                idx = x["int"]
            if e.get("k") == "call":
                d = hir.res_def(e["f"])
                if d and d.replace("::{constructor#0}", "").endswith("HandshakeModifier::Psk"):
                    psk_ctor = True
            d = hir.res_def(e) if e.get("k") == "path" else None
            if d and d.replace("::{constructor#0}", "").endswith("PatternProblem::InvalidPsk"):
                invalid = True
        ok = lit == SN.PSK_PREFIX and idx == len(SN.PSK_PREFIX) and psk_ctor and invalid
        why = "guard literal %r, strip index %r, Psk ctor %s, InvalidPsk %s" % (lit, idx, psk_ctor, invalid)
    if not ok:
        ok2, why2 = psk_arm_mir(ctx, cfg, body, SN.PSK_PREFIX)
        if ok2:
            ok = True
        else:
            why = why + "; " + why2
    ctx.ob("modifier-list", "psk-arm", ok, "psk<N>: prefix 'psk' is tested and exactly 3 bytes are stripped; a bad number is InvalidPsk" if ok else "psk modifier arm malformed: " + why, w, cfg)


def _try_inner(e):
    """x? desugars to match Try::branch(x) {..}; return x"""
    e = hir.strip(e)
    if e.get("k") == "match" and e.get("src", "").startswith("TryDesugar"):
        s = hir.strip(e["scrut"])
        if s.get("k") == "call" and s["args"]:
            return hir.strip(s["args"][0])
    return None


def five_fields(ctx, cfg):
    """decided on the (normalised) MIR of NoiseParams::from_str, so that helper extraction / `?` vs `match` spellings
    do not matter: which `next()` call of the '_' split each `parse::<T>()` consumes, in which order, what reaches
    NoiseParams::new, and which exits report too few / too many fields"""
    from ..expr import strip_bb
    from .common import find_call, ret_ok_sites
    F = ctx.facts[cfg]
    cands = [p for p, b in F.bodies.items() if b.get("name") == "from_str" and (b.get("self_ty") or "").endswith("params::NoiseParams") and "mir" in b]
    if len(cands) != 1:
        raise AnchorError("NoiseParams::from_str not found uniquely")
    fn = F.fn(cands[0])
    w = where(fn)
    G = ctx.guards(cfg, fn)
    R = G.R
    E = ctx.eff(cfg)
    pts = E.pts[fn.path]

    def is_s(e):
        e = strip_bb(e)
        if e == ("arg", 1):
            return True
        ps = expr_paths_of(e)
        return bool(ps) and all(r == ("ext", 1) and not fields_only(pr) for r, pr in ps)

    # split on '_'
    splits = [(bi, t) for bi, t in fn.calls() if (t["callee"].get("def") or "").endswith("str::<impl str>::split")]
    split_ok = False
    split_local = None
    if len(splits) == 1:
        bi, t = splits[0]
        sep = t["args"][1]
        split_ok = is_s(R.op(t["args"][0])) and sep.get("k") == "const" and sep.get("val") == ord("_") and not t["dest"]["proj"]
        split_local = t["dest"]["local"]
    ctx.ob("five-fields", "split", split_ok, "the name is split on '_'" if split_ok else "NoiseParams::from_str does not split its input on '_'", w, cfg)
    if not split_ok:
        return
    # every consumer of the split iterator, in dominance order
    nexts = []
    other_consumers = []
    for bi, t in fn.calls():
        if not t["args"]:
            continue
        aty = E._op_ty(fn, t["args"][0])
        v = pts._val_pts(t["args"][0]) or set()
        if aty is not None and aty["k"] in ("refmut", "ref") and (aty.get("inner") == fn.locals[split_local]["ty"] or F.types[aty["inner"]]["k"] in ("param", "opaque", "alias")) and any(r == ("loc", split_local) and not pr for r, pr in v):
            d = t["callee"].get("def") or ""
            if d.endswith("iter::Iterator::next"):
                nexts.append((bi, t))
            elif not d.endswith("ops::Deref::deref") and not d.endswith("DerefMut::deref_mut"):
                other_consumers.append(d)
    nexts.sort(key=lambda x: len(fn.dominators().get(x[0], ())))
    chain_ok = all(fn.dominates(nexts[i][0], nexts[i + 1][0]) for i in range(len(nexts) - 1))
    # the constructor call
    ctors = [(bi, t) for bi, t in fn.calls() if (t["callee"].get("def") or "").endswith("NoiseParams::new")]
    lits = []
    if not ctors:
        # the same value written as a struct literal
        for bi, b in enumerate(fn.blocks):
            for st in b["stmts"]:
                if st["k"] == "assign" and st["rv"]["k"] == "aggregate" and st["rv"].get("agg") == "adt" and (st["rv"].get("adt") or "").endswith("params::NoiseParams"):
                    lits.append((bi, st))
    ok_new = len(ctors) == 1 or (not ctors and len(lits) == 1)
    ctx.ob("five-fields", "ctor", ok_new, "the parsed value is built by one NoiseParams::new call (or one struct literal)" if ok_new else "NoiseParams::new call not found uniquely (%d)" % len(ctors), w, cfg)
    if not ok_new:
        return
    if ctors:
        cb, ct = ctors[0]
        args = ct["args"]
    else:
        cb, st = lits[0]
        byname = dict(zip(st["rv"]["field_names"], st["rv"]["ops"]))
        order = ["name", "base", "handshake", "dh", "cipher", "hash"]
        if not all(k in byname for k in order):
            ctx.ob("five-fields", "ctor-fields", False, "NoiseParams literal lacks one of %s" % order, w, cfg)
            return
        args = [byname[k] for k in order]
        ct = st
    a0 = strip_bb(R.op(args[0]))
    ok_name = a0[0] == "call" and (a0[1] or "").endswith(("ToOwned::to_owned", "String::from", "From::from", "Into::into", "ToString::to_string", "str>::to_owned", "str>::to_string")) \
        and len(a0[3]) == 1 and is_s(a0[3][0])
    ctx.ob("five-fields", "name-verbatim", ok_name, "name = s.to_owned(): the original string is preserved verbatim" if ok_name else "the stored name is not the unmodified input string", where(fn, ct), cfg)
    errs = ret_err_sites(fn, R)
    used = set()
    for i, a in enumerate(args[1:], start=1):
        want_ty = FIELD_TYPES[i - 1] if i - 1 < len(FIELD_TYPES) else "?"
        e = R.op(a)
        pc = find_call(e, ("str::<impl str>::parse",))
        ok = False
        ty = "?"
        why = "argument %d of NoiseParams::new is not the result of a parse()" % i
        if pc is not None:
            pt = fn.blocks[pc[4]]["term"] if len(pc) > 4 and isinstance(pc[4], int) else None
            ty = ((pt or {}).get("callee", {}).get("args") or "").strip("[]").split("::")[-1]
            if "/" in ty or "#" in ty or not ty:
                # parse::<T> inside a generic helper: the concrete type is that of the value handed to the constructor
                oty = E._op_ty(fn, a)
                ty = (oty or {}).get("s", "?").split("::")[-1]
            nc = find_call(pc[3][0], ("iter::Iterator::next",)) if pc[3] else None
            why = "the string parsed for field %d does not come from split.next()" % i
            if nc is not None and len(nc) > 4:
                idx = [k for k, (nb, nt) in enumerate(nexts) if nb == nc[4]]
                if idx and idx[0] == i - 1 and idx[0] not in used:
                    used.add(idx[0])
                    # running out of fields here is Pattern(TooFewParameters)
                    nb = nexts[idx[0]][0]
                    few = False
                    for (eb, v, st) in errs:
                        if v == ("Pattern", "TooFewParameters") and fn.dominates(nb, eb):
                            if tested_on_path(fn, G, R, eb, nb):
                                few = True
                    ok = few and chain_ok
                    why = "a missing field %d is not reported as Pattern(TooFewParameters)" % i if not few else ("split.next() calls are not in one chain" if not chain_ok else "wrong type")
                elif idx:
                    why = "field %d is taken from the %s split.next() call" % (i, ["1st", "2nd", "3rd", "4th", "5th", "6th", "7th"][min(idx[0], 6)])
        ok_ty = ty == want_ty
        ctx.ob("five-fields", "field-%d" % i, ok and ok_ty,
               "field %d (%s) = split.next() [None => TooFewParameters] .parse()?" % (i, want_ty) if ok and ok_ty else "field %d: %s (type %s, expected %s)" % (i, why, ty, want_ty), where(fn, ct), cfg)
    cnt_ok = len(args) == 6 and len(nexts) == 6 and not other_consumers
    ctx.ob("five-fields", "count", cnt_ok, "exactly five fields are parsed (and a sixth next() only tests for excess)" if cnt_ok
           else "%d fields are parsed, split iterator advanced %d times%s" % (len(args) - 1, len(nexts), (", also consumed by %s" % other_consumers[0]) if other_consumers else ""), w, cfg)
    # NoiseParams::new stores its parameters in the same-named fields
    nb = hir.find_body(F, "params::NoiseParams::new")
    st = [e for e in hir.walk(nb["hir"]["value"]) if e.get("k") == "struct"]
    ok_store = len(st) == 1 and all(hir.res_local(f["e"]) == f["name"] for f in st[0]["fields"])
    ctx.ob("five-fields", "new-stores", ok_store, "NoiseParams::new stores each argument in the field of the same name" if ok_store else "NoiseParams::new permutes or drops its arguments", tables.where_body(nb), cfg)
    # too many parameters: the sixth next() must be None for Ok; Some => Pattern(TooManyParameters)
    ok_many = ok_conv = False
    if len(nexts) >= 6:
        lb = nexts[5][0]

        def some_fact(f, truth):
            if f[0] == "hist" and f[2] == lb:
                return (f[1] == "err") is truth
            # is_some(next6) == truth, or the discriminant of next6 (0 = None, reported as 'ok'; 1 = Some, as 'err')
            if f[0] == "bool" and f[1][0] == "call" and (f[1][1] or "").endswith("Option::<T>::is_some") and mentions_call_at(f[1], lb, fn, R):
                return f[2] is truth
            if f[0] == "bool" and f[1][0] == "call" and (f[1][1] or "").endswith("Option::<T>::is_none") and mentions_call_at(f[1], lb, fn, R):
                return f[2] is (not truth)
            if f[0] in ("ok", "err") and mentions_call_at(f[1], lb, fn, R):
                return (f[0] == "err") is truth
            return False
        ok_many = any(v == ("Pattern", "TooManyParameters") and any(some_fact(f, True) for f in G.at_entry(eb)) for (eb, v, st) in errs)
        oks = ret_ok_sites(fn)
        ok_conv = bool(oks) and all(any(some_fact(f, False) for f in G.at_entry(b)) for (b, st) in oks)
    ctx.ob("five-fields", "too-many", ok_many and ok_conv,
           "a sixth field yields Pattern(TooManyParameters); Ok only when split.next() is None" if ok_many and ok_conv else "the too-many-parameters check is missing or does not gate the Ok return", w, cfg)


def expr_paths_of(e):
    from ..guards import expr_paths
    return expr_paths(e)


def five_fields_hfs(ctx, cfg):
    """hfs build: a different from_str with the optional '+kem' on the DH field; reduced structural rule"""
    F = ctx.facts[cfg]
    cands = [b for p, b in F.bodies.items() if b.get("name") == "from_str" and (b.get("self_ty") or "").endswith("params::NoiseParams") and "hir" in b]
    body = cands[0]
    w = tables.where_body(body)
    v = body["hir"]["value"]
    calls = [e for e in hir.walk(v) if e.get("k") == "call" and (hir.res_def(e["f"]) or "").endswith("NoiseParams::new")]
    ok = len(calls) == 1 and len(calls[0]["args"]) == 7
    ctx.ob("five-fields", "hfs-ctor", ok, "hfs parser builds NoiseParams::new with six parsed fields (incl. optional KEM)" if ok else "hfs parser shape not recognised", w, cfg)
    fn = F.fn(body["path"])
    G = ctx.guards(cfg, fn)
    vs = {v2 for (b, v2, s) in ret_err_sites(fn, G.R)}
    ok2 = ("Pattern", "TooManyParameters") in vs and ("Pattern", "TooFewParameters") in vs
    ctx.ob("five-fields", "hfs-errors", ok2, "hfs parser reports too-many and kem/hfs mismatch errors" if ok2 else "hfs parser lacks the TooManyParameters / kem-mismatch exits", w, cfg)


def longest_prefix(ctx, cfg):
    from spec import names as SN
    from spec import patterns as SP
    F = ctx.facts[cfg]
    body = hir.find_body(F, "params::patterns::HandshakeChoice::parse_pattern_and_modifier")
    w = tables.where_body(body)
    v = body["hir"]["value"]
    # for i in (lo..=hi).rev()
    lo = hi = None
    rev = False
    for e in hir.walk(v):
        if e.get("k") == "mcall" and e["name"] == "rev":
            rev = True
            for sub in hir.walk(e["recv"]):
                if sub.get("k") == "call" and (hir.res_def(sub["f"]) or "").endswith("RangeInclusive::<Idx>::new") and len(sub["args"]) == 2:
                    a, b = hir.strip(sub["args"][0]), hir.strip(sub["args"][1])
                    if "int" in a and "int" in b:
                        lo, hi = a["int"], b["int"]
                if sub.get("k") == "struct" and len(sub["fields"]) == 2:
                    d = {f["name"]: hir.strip(f["e"]) for f in sub["fields"]}
                    if "start" in d and "end" in d and "int" in d["start"] and "int" in d["end"]:
                        lo, hi = d["start"]["int"], d["end"]["int"]
    table, default, guarded, pbody = hir.fromstr_table(F, "params::patterns::HandshakePattern")
    maxlen = max(len(k) for k in table) if table else 0
    minlen = min(len(k) for k in table) if table else 0
    ok = rev and lo is not None and lo <= minlen and hi >= maxlen
    ctx.ob("longest-prefix", "descending-range", ok,
           "prefix lengths %d..=%d are tried in descending order (pattern names are %d..%d chars)" % (lo, hi, minlen, maxlen) if ok
           else "prefix loop is %s %s..=%s but pattern names are %d..%d chars long" % ("descending" if rev else "ascending", lo, hi, minlen, maxlen), w, cfg)
    # char boundary + length guard before slicing: MIR must-facts at the slicing call
    fn = F.fn(body["path"])
    G = ctx.guards(cfg, fn)
    n = 0
    bad = []
    for b, t in fn.calls():
        d = t["callee"].get("def") or ""
        if d.endswith("ops::Index::index") and "str" in (F.types[t["callee"].get("self_ty")]["s"] if t["callee"].get("self_ty") is not None else ""):
            n += 1
            facts = G.before_term(b)
            cb = any(f[0] == "bool" and f[2] is True and f[1][0] == "call" and (f[1][1] or "").endswith("is_char_boundary") for f in facts)
            if not cb:
                bad.append(t)
    # str::split_at_checked tests the boundary itself and yields both halves
    n += 2 * sum(1 for b, t in fn.calls() if (t["callee"].get("def") or "").endswith("str::<impl str>::split_at_checked"))
    ctx.ob("longest-prefix", "char-boundary", n >= 2 and not bad,
           "both string slices are taken only after is_char_boundary(i) held" if n >= 2 and not bad else "a string slice (%d found) is not guarded by is_char_boundary" % n, where(fn, bad[0]) if bad else w, cfg)
    # unambiguity: no modifier starts with a character that occurs in a pattern name
    mtable, mdefault, mguarded, mbody = hir.fromstr_table(F, "params::patterns::HandshakeModifier")
    starts = {k[0] for k in mtable} | {SN.PSK_PREFIX[0]}
    chars = set("".join(table))
    amb = starts & chars
    ctx.ob("longest-prefix", "unambiguous", not amb,
           "no modifier begins with a character used in pattern names, so the longest-prefix split is the only valid split" if not amb else "modifier initial(s) %s also occur in pattern names: the split is ambiguous" % sorted(amb), w, cfg)
    # fallthrough: UnsupportedHandshakeType
    errs = {v2 for (b, v2, s) in ret_err_sites(fn, G.R)}
    okf = ("Pattern", "UnsupportedHandshakeType") in errs
    ctx.ob("longest-prefix", "no-match-error", okf, "no matching prefix => Pattern(UnsupportedHandshakeType)" if okf else "missing UnsupportedHandshakeType exit", w, cfg)


def modifier_list(ctx, cfg):
    F = ctx.facts[cfg]
    cands = [b for p, b in F.bodies.items() if b.get("name") == "from_str" and (b.get("self_ty") or "").endswith("HandshakeModifierList") and "mir" in b]
    if len(cands) != 1:
        raise AnchorError("HandshakeModifierList::from_str not found")
    fn = F.fn(cands[0]["path"])
    G = ctx.guards(cfg, fn)
    R = G.R
    w = where(fn)
    # split on '+'
    sp = [t for b, t in fn.calls() if (t["callee"].get("def") or "").endswith("str::<impl str>::split")]
    ok_sp = len(sp) == 1 and strip_bb(R.op(sp[0]["args"][1])) == ("const", ord("+"))
    ctx.ob("modifier-list", "split-plus", ok_sp, "modifiers are separated by '+'" if ok_sp else "modifier list is not split on '+'", w, cfg)
    # in every loop iteration that pushes, the duplicate check's false edge is taken (before or after the push)
    pushes = [(b, t) for b, t in fn.calls() if (t["callee"].get("def") or "").endswith("Vec::<T, A>::push")]
    heads = [b for b, t in fn.calls() if (t["callee"].get("def") or "").endswith("Iterator::next")]
    from .common import ret_ok_sites
    oks = [b for b, s2 in ret_ok_sites(fn)]
    false_edges = set()
    for (e, fs) in G.edge_facts.items():
        for f in fs:
            if f[0] == "bool" and f[2] is False and f[1][0] == "call" and (f[1][1] or "").endswith("contains"):
                false_edges.add(e)

    def reach_avoiding(src, dsts):
        seen = set()
        st = [src]
        while st:
            x = st.pop()
            if x in seen:
                continue
            seen.add(x)
            for y in fn.succs(x):
                if (x, y) in false_edges:
                    continue
                if y in dsts:
                    return True
                st.append(y)
        return False

    okp = bool(pushes) and bool(heads) and bool(false_edges)
    for (b, t) in pushes:
        for h in heads:
            if (reach_avoiding(h, {b}) or h == b) and reach_avoiding(b, set(heads) | set(oks)):
                okp = False
    ctx.ob("modifier-list", "dup-check-per-push", okp, "every iteration that pushes a modifier passes the contains()==false edge" if okp else "a modifier can be pushed and kept without the duplicate check", where(fn, pushes[0][1]) if pushes else w, cfg)
    errs = [(b, v, s) for (b, v, s) in ret_err_sites(fn, R) if v == ("Pattern", "DuplicateModifier")]
    okd = bool(errs) and all(any(f[0] == "bool" and f[2] is True and f[1][0] == "call" and (f[1][1] or "").endswith("contains") for f in G.at_entry(b)) for (b, v, s) in errs)
    ctx.ob("modifier-list", "dup-error", okd, "a repeated modifier yields Pattern(DuplicateModifier)" if okd else "no DuplicateModifier exit guarded by contains()", w, cfg)



def psk_arm_mir(ctx, cfg, body, prefix):
    """the same facts read off the MIR, for any spelling (match guard + s[3..], strip_prefix, if-let ...): the number parsed
    for Psk(n) is exactly the input minus the literal prefix; the prefix was tested; a bad number is Pattern(InvalidPsk)"""
    from .common import find_call, find_agg
    F = ctx.facts[cfg]
    fn = F.fn(body["path"])
    if fn is None:
        return False, "no MIR"
    G = ctx.guards(cfg, fn)
    R = G.R
    parses = [(b, t) for b, t in fn.calls() if (t["callee"].get("def") or "").endswith("str::<impl str>::parse")]
    if len(parses) != 1:
        return False, "%d parse() calls" % len(parses)
    pb, pt = parses[0]
    a = strip_bb(R.op(pt["args"][0]))
    src_ok = False
    sp = find_call(a, ("str::<impl str>::strip_prefix",))
    if sp is not None and len(sp[3]) == 2 and strip_bb(sp[3][0]) == ("arg", 1) and strip_bb(sp[3][1]) == ("str", prefix):
        src_ok = True
    else:
        from ..lenflow import range_of, is_index_call
        if is_index_call(a) and strip_bb(a[3][0]) == ("arg", 1):
            r = range_of(a[3][1])
            tested = any(f[0] == "bool" and f[2] is True and f[1][0] == "call" and (f[1][1] or "").endswith("starts_with") and len(f[1][3]) == 2
                         and strip_bb(f[1][3][0]) == ("arg", 1) and strip_bb(f[1][3][1]) == ("str", prefix) for f in G.before_term(pb))
            src_ok = bool(r) and r == ("from", ("const", len(prefix))) and tested
    if not src_ok:
        return False, "the parsed text is not the input minus the tested prefix %r: %s" % (prefix, show(a, fn)[:120])
    # Psk(n) carries the parsed number
    ctor = False
    for b in fn.blocks:
        for st in b["stmts"]:
            if st["k"] == "assign" and st["rv"]["k"] == "aggregate" and (st["rv"].get("adt") or "").endswith("HandshakeModifier") and st["rv"].get("variant_name") == "Psk":
                v = R.op(st["rv"]["ops"][0])
                c = find_call(v, ("str::<impl str>::parse",))
                if c is not None and len(c) > 4 and c[4] == pb:
                    ctor = True
    if not ctor:
        return False, "Psk(n) does not carry the parsed number"
    # the parse error becomes Pattern(InvalidPsk)
    made = set()
    for b in fn.blocks:
        for st in b["stmts"]:
            if st["k"] == "assign" and st["rv"]["k"] == "aggregate" and st["rv"].get("agg") == "closure":
                made.add(st["rv"].get("def"))
    inv = False
    for p2 in made:
        g = F.fn(p2)
        if g is None:
            continue
        for b in g.blocks:
            for st in b["stmts"]:
                if st["k"] == "assign" and st["place"]["local"] == 0 and st["rv"]["k"] == "aggregate" and st["rv"].get("variant_name") == "InvalidPsk":
                    inv = True
    if not inv:
        inv = any(v == ("Pattern", "InvalidPsk") for (b, v, st) in ret_err_sites(fn, R))
    return (inv, "" if inv else "a malformed number is not reported as Pattern(InvalidPsk)")
