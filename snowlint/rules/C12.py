"""C12 — the builder accepts exactly the configurations the pattern needs."""
from .. import hir
from ..expr import strip_bb, show
from ..facts import Inconclusive
from . import tables
from .common import where, short, err_variant, ret_err_sites, result_err_compatible

LEVEL = "proof"
EXPLANATION = (
    "Exhaustive table cross-check: the two hand-written prerequisite predicates (needs_local_static_key, "
    "need_known_remote_pubkey) are extracted from HIR as truth tables over all 38 patterns x 2 roles and compared "
    "with what the token table (extracted from HandshakeTokens::try_from) implies; the token table is compared "
    "row by row with the Noise rev 34 table in /verif/spec and with the spec's §7.3 validity predicates; key "
    "availability for every DH token is computed for every row and role (static counterpart of running all 76 "
    "handshakes); Builder::build's prerequisite guards, their order, their error variants, the resolver-failure "
    "variants, and the missing-PSK error arms are decided from MIR guards. Every obligation is finite and discharged."
)


def sends(msgs, initiator):
    return [m for i, m in enumerate(msgs) if (i % 2 == 0) == initiator]


def run(ctx):
    from spec import patterns as SP
    from spec import roles as SR
    ctx.rule("pattern-row", "extracted pattern row equals the Noise rev 34 row")
    ctx.rule("pattern-validity", "extracted row satisfies the four validity rules of spec §7.3")
    ctx.rule("prereq-local-static", "needs_local_static_key(role) <=> role's static key occurs in its own pre-message or in a message it sends")
    ctx.rule("prereq-remote-static", "need_known_remote_pubkey(role) <=> the peer's pre-message contains s")
    ctx.rule("dh-operands-available", "for every row, role and DH token both operands are available given the prerequisites and the tokens processed so far")
    ctx.rule("build-prereq-guard", "Builder::build returns Prereq(..) exactly under `key absent && pattern needs it`, before any other work")
    ctx.rule("build-resolver-variant", "each resolve_* failure maps to its InitStage variant")
    ctx.rule("build-key-length", "ValidateKeyLengths rejections compare each supplied key with its own bound (priv_len for private keys; buffer capacity or pub_len for the remote public key)")
    ctx.rule("missing-psk-error", "a psk token with no key configured returns State(MissingPsk), never a default")
    ctx.rule("modifier-handling", "try_from rejects unimplemented modifiers and misplaced psk indices")
    ctx.trust("rustc name resolution / type checking (HIR), snowfacts exporter, /verif/spec/patterns.py transcription")
    for cfg in ctx.cfgs:
        F = ctx.facts[cfg]
        table, lines, tf_body = tables.extract_patterns(ctx, cfg)
        variants = hir.enum_variants(F, "params::patterns::HandshakePattern")
        ctx.floor("pattern-row", len(table), 38, cfg)
        f = tf_body["span"]["f"]
        names = [v[0] for v in variants]
        for name in names:
            w = "%s:%s" % (f, lines.get(name, tf_body["span"]["l"]))
            if name not in table:
                ctx.ob("pattern-row", name, False, "pattern %s has no row in the token table" % name, w, cfg)
                continue
            row = tables.norm_row(table[name])
            spec = SP.PATTERNS.get(name)
            if spec is None:
                ctx.ob("pattern-row", name, False, "pattern %s is not a Noise rev 34 pattern" % name, w, cfg)
            else:
                srow = tables.norm_row(spec)
                ok = row == srow
                ctx.ob("pattern-row", name, ok, "row %s matches the specification" % name if ok
                       else "row %s differs from the specification: have %s, spec %s" % (name, fmt_row(row), fmt_row(srow)), w, cfg)
            probs = SP.validity_problems(name, *row)
            ctx.ob("pattern-validity", name, not probs, "row %s is a valid pattern (§7.3)" % name if not probs else "row %s: %s" % (name, "; ".join(probs)), w, cfg)
        # prerequisite predicates
        nl, b1 = tables.predicate_table(ctx, cfg, "needs_local_static_key", [(True,), (False,)])
        nr, b2 = tables.predicate_table(ctx, cfg, "need_known_remote_pubkey", [(True,), (False,)])
        cnt = 0
        for name in names:
            if name not in table:
                continue
            pi, pr, msgs = tables.norm_row(table[name])
            for init in (True, False):
                own_pre = pi if init else pr
                peer_pre = pr if init else pi
                want_local = ("S" in own_pre) or any("S" in m for m in sends(msgs, init))
                got_local = nl[(name, (init,))]
                role = "initiator" if init else "responder"
                cnt += 1
                ctx.ob("prereq-local-static", "%s:%s" % (name, role), want_local == got_local,
                       "%s %s: needs_local_static_key = %s" % (name, role, got_local) if want_local == got_local
                       else "%s %s: needs_local_static_key says %s but the token table %s the %s's static key" % (name, role, got_local, "uses" if want_local else "never uses", role),
                       tables.where_body(b1), cfg)
                want_remote = "S" in peer_pre
                got_remote = nr[(name, (init,))]
                cnt += 1
                ctx.ob("prereq-remote-static", "%s:%s" % (name, role), want_remote == got_remote,
                       "%s %s: need_known_remote_pubkey = %s" % (name, role, got_remote) if want_remote == got_remote
                       else "%s %s: need_known_remote_pubkey says %s but the peer's pre-message %s s" % (name, role, got_remote, "contains" if want_remote else "does not contain"),
                       tables.where_body(b2), cfg)
                # DH operand availability for this role given snow's own prerequisite answers
                have = set()
                if got_local:
                    have.add("s")
                if got_remote:
                    have.add("rs")
                bad = []
                for i, m in enumerate(msgs):
                    sender_is_me = (i % 2 == 0) == init
                    for t in m:
                        if t == "E":
                            have.add("e" if sender_is_me else "re")
                        elif t == "S":
                            if sender_is_me and "s" not in have:
                                bad.append("message %d sends s but no local static key is required at build" % i)
                            have.add("s" if sender_is_me else "rs")
                        elif isinstance(t, tuple) and t[0] == "Dh":
                            lk, rk = SR.DH_OPERANDS[(t[1], init)]
                            if lk not in have or rk not in have:
                                bad.append("message %d token %s needs (%s,%s), available %s" % (i, t[1].lower(), lk, rk, sorted(have)))
                cnt += 1
                ctx.ob("dh-operands-available", "%s:%s" % (name, role), not bad,
                       "%s %s: every DH token has its operands" % (name, role) if not bad else "%s %s: %s" % (name, role, "; ".join(bad)),
                       "%s:%s" % (f, lines.get(name, 0)), cfg)
        ctx.floor("prereq-local-static", cnt, 228, cfg)
        check_build(ctx, cfg)
        check_key_lengths(ctx, cfg)
        check_missing_psk(ctx, cfg)
        check_modifiers(ctx, cfg)


def fmt_row(row):
    def t(x):
        return x[1].lower() if isinstance(x, tuple) else x.lower()
    pi, pr, msgs = row
    return "pre(%s|%s) %s" % (",".join(map(t, pi)), ",".join(map(t, pr)), " / ".join(",".join(map(t, m)) for m in msgs))


def check_build(ctx, cfg):
    F = ctx.facts[cfg]
    fn = F.one_fn("builder::Builder::<'builder>::build")
    G = ctx.guards(cfg, fn)
    R = G.R
    errs = ret_err_sites(fn, R)
    seen = {}
    for (bi, variant, s) in errs:
        if variant and variant[0] == "Prereq":
            seen[variant[1]] = (bi, s)
    crate = F.crate
    for vname, pred, field in (("LocalPrivateKey", "needs_local_static_key", "s"), ("RemotePublicKey", "need_known_remote_pubkey", "rs")):
        if vname not in seen:
            ctx.ob("build-prereq-guard", vname, False, "Builder::build has no exit returning Prereq(%s)" % vname, where(fn), cfg)
            continue
        bi, s = seen[vname]
        facts = G.at_entry(bi)
        has_none = False
        has_pred = False
        for fct in facts:
            if fct[0] == "bool" and fct[2] is True and fct[1][0] == "call":
                c = fct[1]
                if c[1] and c[1].endswith("Option::<T>::is_none") and mentions_field(c[3][0], field):
                    has_none = True
                if c[1] == "%s::params::patterns::HandshakePattern::%s" % (crate, pred):
                    # second argument must be the `initiator` parameter
                    if len(c[3]) == 2 and c[3][1] == ("arg", 2):
                        has_pred = True
        # the exit must be reachable only when both hold, and conversely both holding must lead here
        ok = has_none and has_pred
        ctx.ob("build-prereq-guard", vname, ok,
               "Err(Prereq(%s)) is returned under self.%s.is_none() && pattern.%s(initiator)" % (vname, field, pred) if ok
               else "Err(Prereq(%s)) exit is not guarded by self.%s.is_none() && pattern.%s(initiator) (facts: %s)" % (vname, field, pred, summarize_facts(facts, fn)),
               where(fn, s), cfg)
        # converse: the condition pair must not be able to fall through. Check that the false edges
        # are the only way past: every later resolver call is dominated by a negated conjunct.
    # order: prerequisite exits precede any resolver call
    res_calls = [(b, t) for b, t in fn.calls() if (t["callee"].get("def") or "").startswith(crate + "::resolvers::CryptoResolver::resolve_")]
    ctx.floor("build-resolver-variant", len(res_calls), 7, cfg)
    for vname in ("LocalPrivateKey", "RemotePublicKey"):
        if vname in seen:
            bi, s = seen[vname]
            before = all(not path_exists(fn, cb, bi) for cb, _ in res_calls)
            ctx.ob("build-prereq-guard", vname + ":first", before,
                   "Prereq(%s) check precedes all resolver calls" % vname if before else "a resolver call can run before the Prereq(%s) check" % vname,
                   where(fn, s), cfg)
    # and: every resolver call is guarded by the negation of both prerequisite conditions
    for (cb, t) in res_calls:
        facts = G.before_term(cb)
        negs = 0
        for pred, field in (("needs_local_static_key", "s"), ("need_known_remote_pubkey", "rs")):
            okc = False
            for fct in facts:
                # !(is_none && needs) shows up as: is_none false, or needs false on every path => must-facts lose it at the merge.
                pass
        # (merge points lose disjunctive facts; the converse direction is established by the CFG shape check below)
    conv = converse_prereq(fn, G, crate)
    for vname, ok in conv.items():
        ctx.ob("build-prereq-guard", vname + ":converse", ok,
               "when the key is absent and the pattern needs it, build cannot proceed past the check" if ok
               else "a path exists on which %s is required and absent yet build continues" % vname, where(fn), cfg)
    # resolver failures -> InitStage variants
    expect = {"resolve_rng": "GetRngImpl", "resolve_cipher": "GetCipherImpl", "resolve_hash": "GetHashImpl", "resolve_dh": "GetDhImpl", "resolve_kem": "GetKemImpl"}
    for (cb, t) in res_calls:
        name = t["callee"]["name"]
        # the error exit that is taken when this call returned None (whatever the spelling: ok_or(..)?, match, let else)
        from .common import tested_on_path
        okv = None
        for (eb, v, st) in ret_err_sites(fn, R):
            # ('hist', 'ok', bb) is the discriminant-0 edge of the value produced in bb: for an Option that is None
            if v and v[0] == "Init" and fn.dominates(cb, eb) and ("hist", "ok", cb) in (G.at_entry(eb) | G.before_term(eb)):
                # the nearest such exit: no other resolver call between
                if not any(cb2 != cb and fn.dominates(cb, cb2) and fn.dominates(cb2, eb) for cb2, _ in res_calls):
                    okv = v[1] if okv in (None, v[1]) else "?"
        good = okv == expect.get(name)
        ctx.ob("build-resolver-variant", "%s@%d" % (name, sum(1 for (c2, t3) in res_calls if t3["callee"]["name"] == name and c2 <= cb)), good,
               "%s() == None is reported as Init(%s)" % (name, okv) if good else "%s() == None is reported as %s, expected Init(%s)" % (name, okv, expect.get(name)),
               where(fn, t), cfg)


def check_key_lengths(ctx, cfg):
    """Every Init(ValidateKeyLengths) rejection in Builder::build compares a supplied key with the bound that
    belongs to that key: private keys (s, fixed e) with Dh::priv_len, the remote public key with the capacity
    of its buffer or Dh::pub_len. A tighter or mismatched bound rejects keys of the primitive's own size, so a
    configuration that supplies everything the pattern needs would fail to build."""
    from ..expr import show
    F = ctx.facts[cfg]
    fn = F.one_fn("builder::Builder::<'builder>::build")
    G = ctx.guards(cfg, fn)
    seen = {}
    for (bi, v, st) in ret_err_sites(fn, G.R):
        if not (v and v[0] == "Init" and v[1] == "ValidateKeyLengths"):
            continue
        # a rejection under `a || b` is entered from several edges: judge the facts of each incoming path
        fsets = [G.at_entry(bi) | G.before_term(bi)]
        jb = bi
        for _ in range(6):
            preds = [p for p in fn.preds(jb) if p in fn.reachable()]
            if len(preds) != 1 or len(fn.succs(preds[0])) != 1:
                break
            jb = preds[0]
        if len(preds) > 1:
            fsets += [G.before_term(p) | G.edge_facts.get((p, jb), set()) for p in preds]
        for f in set().union(*fsets):
            if f[0] != "cmp":
                continue
            op, a, b, truth = f[1], f[2], f[3], f[4]
            # orient as  len(key) > bound
            if (op, truth) in (("Gt", True), ("Le", False)):
                key, bound = a, b
            elif (op, truth) in (("Lt", True), ("Ge", False)):
                key, bound = b, a
            else:
                continue
            if key[0] != "len":
                continue
            field = next((fl for fl in ("s", "e_fixed", "rs") if mentions_field(key[1], fl) or mentions_field(_through_copies(fn, G.R, key[1]), fl)), None)
            if field is None:
                continue
            if bound[0] == "call" and (bound[1] or "").endswith("::Dh::priv_len"):
                cls = "priv_len"
            elif bound[0] == "call" and (bound[1] or "").endswith("::Dh::pub_len"):
                cls = "pub_len"
            elif bound[0] == "len" and bound[1][0] in ("ref", "place") and all(r[0] == "loc" for r, p in bound[1][1]):
                cls = "buffer"
            elif bound[0] == "const" and bound[1] >= 56:
                cls = "buffer"
            else:
                cls = "other:" + show(bound, fn)
            ok = cls == "priv_len" if field in ("s", "e_fixed") else cls in ("buffer", "pub_len")
            k = (field, cls)
            if k not in seen or not ok:
                seen[k] = (ok, st, show(key, fn), show(bound, fn))
    for (field, cls), (ok, st, ks, bs) in sorted(seen.items()):
        ctx.ob("build-key-length", "%s:%s" % (field, cls), ok,
               "self.%s is rejected with ValidateKeyLengths only when longer than %s" % (field, bs) if ok
               else "self.%s is rejected with ValidateKeyLengths when longer than %s: %s" % (field, bs, "a private key is bounded by Dh::priv_len" if field != "rs" else "a remote public key of the primitive's own length (pub_len, which may exceed priv_len) must be accepted"),
               where(fn, st), cfg)
    ctx.floor("build-key-length", len(seen), 3, cfg)


def _through_copies(fn, R, e):
    """a value rooted at a local that is a whole copy of a builder field (a helper's parameter after inlining): the
    expression of that copy"""
    from ..guards import expr_paths
    for (root, pr) in expr_paths(e):
        if root[0] == "loc" and root[1] > fn.argc:
            ie = R.init_expr(root[1])
            if ie[0] in ("place", "ref"):
                return ie
    return e


def converse_prereq(fn, G, crate):
    """For each prerequisite predicate call P(initiator) in build: on the edge where is_none is true and P is
    true, control must reach an Err(Prereq) exit without any other branch."""
    out = {}
    R = G.R
    for vname, pred in (("LocalPrivateKey", "needs_local_static_key"), ("RemotePublicKey", "need_known_remote_pubkey")):
        ok = False
        for bi, t in fn.calls():
            if t["callee"].get("def") == "%s::params::patterns::HandshakePattern::%s" % (crate, pred):
                # block after the call switches on the result
                nb = t["target"]
                tb = fn.blocks[nb]["term"]
                if tb["k"] != "switch":
                    continue
                # true edge = otherwise (targets [0: false])
                true_b = tb["otherwise"] if [v for v, _ in tb["targets"]] == [0] else None
                if true_b is None:
                    continue
                # follow straight-line blocks to a return; must assign _0 = Err(Prereq(vname))
                cur = true_b
                steps = 0
                found = False
                while steps < 10:
                    blk = fn.blocks[cur]
                    for s in blk["stmts"]:
                        if s["k"] == "assign" and not s["place"]["proj"] and s["rv"]["k"] == "aggregate" and (s["place"]["local"] == 0 or result_err_compatible(fn, s["place"]["local"], fn.locals[0]["ty"])):
                            e = strip_bb(R.rvalue(s["rv"]))
                            if e[0] == "agg" and e[2] == "Err":
                                from .common import err_variant as ev
                                if ev(e[3][0]) == ("Prereq", vname):
                                    found = True
                    tt = blk["term"]
                    if tt["k"] in ("goto", "call", "drop") and tt.get("target") is not None:
                        cur = tt["target"]
                        steps += 1
                        continue
                    break
                if found:
                    ok = True
        out[vname] = ok
    return out


def path_exists(fn, a, b):
    return b in fn.reachable(a)


def mentions_field(e, field):
    from ..guards import expr_paths
    from ..flow import fields_only
    for p in expr_paths(e):
        ch = fields_only(p[1])
        if ch and ch[-1] == field or (ch and ch[0] == field):
            return True
    return False


def summarize_facts(facts, fn):
    out = []
    for f in list(facts)[:6]:
        if f[0] == "bool":
            out.append("%s=%s" % (show(f[1], fn), f[2]))
        else:
            out.append(f[0])
    return ", ".join(out)


def check_missing_psk(ctx, cfg):
    F = ctx.facts[cfg]
    n = 0
    for name in ("handshakestate::HandshakeState::_write_message", "handshakestate::HandshakeState::_read_message"):
        fn = F.one_fn(name)
        G = ctx.guards(cfg, fn)
        R = G.R
        errs = [(bi, v, s) for (bi, v, s) in ret_err_sites(fn, R) if v == ("State", "MissingPsk")]
        ok = False
        for (bi, v, s) in errs:
            facts = G.at_entry(bi)
            # must be on the None arm of a match on self.psks[..]
            for f in facts:
                if f[0] == "variant" and f[2] == 0 and f[1][0] == "place" and any("psks" in [x for x in chain_of(p)] for p in f[1][1]):
                    ok = True
        n += 1
        ctx.ob("missing-psk-error", short(fn.path), ok,
               "psk token with psks[n] == None returns Err(State(MissingPsk))" if ok else "no Err(State(MissingPsk)) exit on the None arm of psks[n]",
               where(fn), cfg)
        # the key mixed on the Some arm derives from psks[n] only
        mk = [(b, t) for b, t in fn.calls() if (t["callee"].get("def") or "").endswith("SymmetricState::mix_key_and_hash")]
        for (b, t) in mk:
            e = strip_bb(R.op(t["args"][1]))
            facts = G.before_term(b)
            some = any(f[0] == "variant" and f[2] == 1 and f[1][0] == "place" and any("psks" in chain_of(p) for p in f[1][1]) for f in facts)
            src_ok = some and derives_from_psks(fn, R, t["args"][1])
            n += 1
            ctx.ob("missing-psk-error", short(fn.path) + ":mix", src_ok,
                   "mix_key_and_hash receives the configured psks[n] (Some arm)" if src_ok else "mix_key_and_hash argument %s is not the configured psks[n] on its Some arm" % show(e, fn),
                   where(fn, t), cfg)
    ctx.floor("missing-psk-error", n, 4, cfg)


def chain_of(p):
    from ..flow import fields_only
    return list(fields_only(p[1]))


def derives_from_psks(fn, R, op):
    """the &[u8] argument is a borrow of a local copied out of (self.psks[..] as Some).0"""
    from ..flow import fields_only
    pts = R.pts
    v = pts._val_pts(op) or set()
    from .common import find_call
    from ..guards import expr_paths
    for root, proj in v:
        if root[0] == "loc" and fn.single_def(root[1]) is not None:
            ex = strip_bb(R.local(root[1]))
            if ex[0] == "place" and ex[1] and all("psks" in fields_only(p2) for r2, p2 in ex[1]):
                return True
            c = find_call(ex, ("Option::<T>::ok_or",))
            if c is not None and c[3] and any("psks" in fields_only(p2) for r2, p2 in (expr_paths(strip_bb(c[3][0])) or ())):
                return True
    for root, proj in v:
        if root[0] == "ext" and "psks" in fields_only(proj):
            return True
        if root[0] == "loc":
            # local array copied from the Some payload
            for (bi, si, s) in fn.defs().get(root[1], []):
                if isinstance(s, dict) and s.get("k") == "assign" and s["rv"]["k"] == "use" and s["rv"]["op"]["k"] in ("copy", "move"):
                    pl = s["rv"]["op"]["place"]
                    for r2, p2 in pts.resolve_place(pl):
                        if "psks" in fields_only(p2):
                            return True
                        if r2[0] == "loc":
                            for (b3, s3, st3) in fn.defs().get(r2[1], []):
                                if isinstance(st3, dict) and st3.get("k") == "assign" and st3["rv"]["k"] == "use" and st3["rv"]["op"]["k"] in ("copy", "move"):
                                    for r4, p4 in pts.resolve_place(st3["rv"]["op"]["place"]):
                                        if "psks" in fields_only(p4):
                                            return True
    return False


def check_modifiers(ctx, cfg):
    """try_from: every modifier other than Psk (and Hfs when built) returns Err(Pattern(UnsupportedModifier));
    apply_psk_modifier: index beyond the message count returns Err(Pattern(InvalidPsk))."""
    F = ctx.facts[cfg]
    table, lines, tf_body = tables.extract_patterns(ctx, cfg)
    def is_mod(ti):
        t = F.types[ti]
        while t["k"] in ("ref", "refmut"):
            t = F.types[t["inner"]]
        return t["k"] == "adt" and t["adt"].endswith("::HandshakeModifier")
    # necessary condition, independent of how the loop is written: some modifier is unimplemented in every build
    # (Fallback), so an exit reporting Pattern(UnsupportedModifier) must exist in try_from (helpers inlined)
    allv0 = [v["name"] for v in F.adt("params::patterns::HandshakeModifier")["variants"]]
    tf_fn = F.fn(tf_body["path"])
    if tf_fn is not None and set(allv0) - {"Psk", "Hfs"}:
        Rtf = ctx.guards(cfg, tf_fn).R
        has = any(v == ("Pattern", "UnsupportedModifier") for (b, v, st) in ret_err_sites(tf_fn, Rtf))
        ctx.ob("modifier-handling", "try_from:rejects-unimplemented", has,
               "HandshakeTokens::try_from has an exit reporting Pattern(UnsupportedModifier)" if has
               else "no path of HandshakeTokens::try_from reports Pattern(UnsupportedModifier): the unimplemented modifier(s) %s are silently accepted" % sorted(set(allv0) - {"Psk", "Hfs"}),
               where(tf_fn), cfg)
    ms = [e for e in hir.walk(tf_body["hir"]["value"]) if e.get("k") == "match" and e.get("scrut_t") is not None
          and is_mod(e["scrut_t"])]
    if not ms:
        # the modifier loop may live in a helper of the same module
        mod = tf_body["span"]["f"]
        for p2, b2 in F.bodies.items():
            if "hir" in b2 and b2.get("span", {}).get("f") == mod and b2 is not tf_body and b2.get("kind") in ("Fn", "AssocFn"):
                ms += [e for e in hir.walk(b2["hir"]["value"]) if e.get("k") == "match" and e.get("scrut_t") is not None and is_mod(e["scrut_t"])
                       and any(x.get("k") == "call" and (hir.res_def(x["f"]) or "").endswith("apply_psk_modifier") for x in hir.walk(e))]
    if len(ms) != 1:
        ctx.inconcl("modifier match in try_from not found uniquely (%d)" % len(ms))
        return
    m = ms[0]
    handled = set()
    default = None
    for arm in m["arms"]:
        for alt in hir.pat_alts(arm["pat"]):
            if alt[0] == "variant":
                handled.add(hir.variant_name(alt[1].replace("::{constructor#0}", "")))
            elif alt[0] in ("wild", "bind"):
                default = hir.result_ctor(F, arm["body"])
    allv = [v["name"] for v in F.adt("params::patterns::HandshakeModifier")["variants"]]
    implemented = {"Psk"} | ({"Hfs"} if "Hfs" in allv else set())
    ok = handled <= implemented and (set(allv) - handled == set() or (default is not None and default[0] == "Err" and default[1] == "UnsupportedModifier"))
    ctx.ob("modifier-handling", "try_from:unsupported", ok,
           "modifiers other than %s are rejected with UnsupportedModifier" % sorted(implemented) if ok
           else "modifier arms %s / default %s do not reject unimplemented modifiers" % (sorted(handled), default),
           "%s:%s" % (tf_body["span"]["f"], m.get("l")), cfg)
    # apply_psk_modifier
    fn = F.one_fn("params::patterns::apply_psk_modifier")
    G = ctx.guards(cfg, fn)
    R = G.R
    # message = patterns.2.get_mut(saturating_sub(usize::from(n), 1)); None => Err(Pattern(InvalidPsk))
    from .common import tested_on_path
    okv = None
    idx_ok = False
    gm = [(b, t) for (b, t) in fn.calls() if (t["callee"].get("def") or "").endswith("get_mut") and len(t["args"]) == 2]
    if len(gm) == 1:
        gb, gt = gm[0]
        i = strip_bb(R.op(gt["args"][1]))
        if i[0] == "call" and (i[1] or "").endswith("saturating_sub") and i[3][1] == ("const", 1):
            inner = i[3][0]
            if inner[0] == "call" and inner[3] and inner[3][0] == ("arg", 2):
                idx_ok = True
            if inner[0] == "cast" and inner[1] == ("arg", 2):
                idx_ok = True
        for (eb, v, st) in ret_err_sites(fn, R):
            if tested_on_path(fn, G, R, eb, gb):
                okv = v if okv in (None, v) else ("?",)
    ok = okv == ("Pattern", "InvalidPsk") and idx_ok
    ctx.ob("modifier-handling", "apply_psk_modifier:bounds", ok,
           "psk index beyond the message count returns Pattern(InvalidPsk)" if ok else "psk index selection/bounds error not as specified (error %s, index form ok=%s)" % (okv, idx_ok),
           where(fn), cfg)
