"""C18 — built-in primitives match their standards (snow-owned structure only)."""
from . import prims, aead, spec_templates
from .common import where, short

LEVEL = "other"
EXPLANATION = (
    "Every numerical statement of this property is about the RustCrypto / dalek / ring crates and is NOT decided. Decided, "
    "snow-owned: the structure and constants of the hand-written HMAC (RFC 2104: pads 0x36/0x5c over one block, inner then "
    "outer hash, HASHLEN truncation) and Noise-HKDF (counter bytes 1,2,3; chaining; early returns); the AEAD nonce layouts "
    "and operand wiring of all local Cipher impls; the binding table — for each local impl, name()'s literal, the external "
    "type it wraps (field type / algorithm static) and its hash_len/block_len/pub_len/priv_len/dh_len constants agree with "
    "§12; the wrappers' dataflow (reset/input/result; set/generate/derive/dh: clamped base-point multiplication for "
    "X25519, uncompressed SEC1 for P-256; generate fills the private key from the rng and derives the public key by the "
    "same function as set)."
)


def run(ctx):
    ctx.rule("dataflow-template", "HMAC / HKDF structure and constants")
    ctx.rule("prim-binding", "name <-> wrapped type <-> lengths table")
    ctx.rule("prim-template", "wrapper dataflow of the hash and DH impls")
    ctx.rule("aead-nonce", "nonce layouts")
    ctx.rule("aead-operands", "AEAD operand wiring")
    ctx.rule("aead-tag", "tag placement")
    ctx.trust("rustc MIR; snowfacts; spec/prims.py, spec/names.py")
    ctx.assume("numerics of sha2/blake2/chacha20poly1305/aes-gcm/curve25519-dalek/p256/ring at the Cargo.lock versions (not decided)")
    for cfg in ctx.cfgs:
        ctx.floor("dataflow-template", spec_templates.run_templates(ctx, cfg, names=("Hash::hmac", "Hash::hkdf")), 2, cfg)
        ctx.floor("prim-binding", prims.check_hashes(ctx, cfg) + prims.check_dhs(ctx, cfg) + prims.check_cipher_binding(ctx, cfg), 4, cfg)
        aead.check_wrappers(ctx, cfg, {"nonce": 1, "operands": 1, "tag": 1})
