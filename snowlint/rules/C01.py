"""C01 — wire-level conformance to Noise rev 34 (structural part)."""
from .. import hir
from ..expr import strip_bb, show
from ..flow import fields_only
from . import tables, tokens, roles, aead, hsnew, prims, spec_templates
from .common import where, short

LEVEL = "other"
EXPLANATION = (
    "Byte equality with the specification for all inputs is a statement about runtime values and about what the external "
    "crypto crates compute: not decidable statically. Decided — the part of conformance snow itself owns, 'which operation "
    "is applied to which operand in which order': (1a) the 38-row pattern table equals the rev 34 table and passes the "
    "§7.3 validity predicates; (1b) psk placement (psk0 front of message 1, pskN end of message N, bounds error); (2) the "
    "per-token effect trace of every arm of the write and read token loops and both epilogues equals WriteMessage/"
    "ReadMessage of §5.3, including the psk-mode MixKey(e) and Split() iff last message; (3) the DH operand table by token "
    "and role; (4) dataflow templates of InitializeSymmetric, MixKey, MixHash, MixKeyAndHash, EncryptAndHash, "
    "DecryptAndHash, Split and of CipherState set/encrypt/decrypt: every specification-level event (call into Hash/"
    "Cipher/CipherState, write to h/ck/has_key/n) with its operands' provenance, no extra events; (5) HMAC (RFC 2104) and "
    "Noise-HKDF default methods: pad constants, block/hash truncations, counter bytes, early returns; (6) AEAD nonce "
    "layout per cipher name, key/AD/buffer operands, tag placement in all local Cipher impls; (7) the transport key "
    "index by role for all 11+ role-dispatching functions; (8) the protocol name is hashed verbatim; (9) the reported "
    "payload-encrypted flag and handshake hash are has_key and h[..HASHLEN]."
)


def run(ctx):
    from spec import processing as SP
    from spec import patterns as SPat
    ctx.rule("pattern-row", "extracted pattern row equals the Noise rev 34 row")
    ctx.rule("pattern-validity", "row satisfies spec §7.3")
    ctx.rule("psk-placement", "psk0 is inserted at the front of message 1, pskN appended to message N")
    ctx.rule("token-trace", "per-token effect trace equals §5.3 WriteMessage/ReadMessage")
    ctx.rule("dh-operands", "DH operand selection by token and role equals §5.3")
    ctx.rule("dataflow-template", "SymmetricState/CipherState/HMAC/HKDF events and operand provenance equal §5.1/§5.2/§4.3")
    ctx.rule("aead-nonce", "AEAD nonce layout per cipher (§12)")
    ctx.rule("aead-operands", "key, nonce, AD and data operands of the backend AEAD call")
    ctx.rule("aead-tag", "tag appended after the ciphertext")
    ctx.rule("role-index", "transport key index by role (§5.3: initiator sends on the first Split() key)")
    ctx.rule("context-binding", "InitializeSymmetric(protocol name) from the verbatim name")
    ctx.rule("reported-values", "was_write_payload_encrypted / get_handshake_hash report has_key / h[..HASHLEN]")
    ctx.trust("rustc HIR/MIR; snowfacts; spec/patterns.py, spec/processing.py, spec/roles.py, spec/names.py transcriptions of Noise rev 34")
    ctx.assume("the external crates compute SHA-2/BLAKE2/ChaCha20-Poly1305/AES-GCM/X25519/P-256 correctly (not decided)")
    for cfg in ctx.cfgs:
        F = ctx.facts[cfg]
        table, lines, tf_body = tables.extract_patterns(ctx, cfg)
        f = tf_body["span"]["f"]
        for name, _ in hir.enum_variants(F, "params::patterns::HandshakePattern"):
            w = "%s:%s" % (f, lines.get(name, 0))
            if name not in table or name not in SPat.PATTERNS:
                ctx.ob("pattern-row", name, False, "pattern %s missing from the table or the specification" % name, w, cfg)
                continue
            row = tables.norm_row(table[name])
            srow = tables.norm_row(SPat.PATTERNS[name])
            ctx.ob("pattern-row", name, row == srow, "row %s matches the specification" % name if row == srow else "row %s differs from the specification" % name, w, cfg)
            probs = SPat.validity_problems(name, *row)
            ctx.ob("pattern-validity", name, not probs, "valid" if not probs else "; ".join(probs), w, cfg)
        ctx.floor("pattern-row", len(table), 38, cfg)
        psk_placement(ctx, cfg)
        n1, _ = tokens.compare(ctx, cfg, "handshakestate::HandshakeState::_write_message", SP.WRITE, SP.SEMANTIC, "token-trace")
        n2, _ = tokens.compare(ctx, cfg, "handshakestate::HandshakeState::_read_message", SP.READ, SP.SEMANTIC, "token-trace")
        ctx.floor("token-trace", n1 + n2, 10, cfg)
        ctx.floor("dh-operands", hsnew.check_dh_table(ctx, cfg), 8, cfg)
        ctx.floor("dataflow-template", spec_templates.run_templates(ctx, cfg), 15, cfg)
        ctx.floor("aead-nonce", aead.check_wrappers(ctx, cfg, {"nonce": 1, "operands": 1, "tag": 1}), 1, cfg)
        ctx.floor("role-index", roles.check_transport_roles(ctx, cfg), 22, cfg)
        hsnew.check_new(ctx, cfg)
        reported(ctx, cfg)


def psk_placement(ctx, cfg):
    """apply_psk_modifier: on n == 0 the only mutation is insert(0, Psk(n)); otherwise push(Psk(n)); target = get_mut(n.saturating_sub(1))"""
    from ..template import actual_events
    F = ctx.facts[cfg]
    fn = F.one_fn("params::patterns::apply_psk_modifier")
    evs = [e for e in actual_events(ctx, cfg, fn, {"Vec::insert", "Vec::push", "Vec::get_mut", "slice::get_mut", "Vec::remove", "Vec::extend_from_slice", "Vec::clear", "Vec::truncate"}) if e[0] == "call"]
    ins = [e for e in evs if e[1] == "Vec::insert"]
    push = [e for e in evs if e[1] == "Vec::push"]
    other = [e for e in evs if e[1] not in ("Vec::insert", "Vec::push", "Vec::get_mut", "slice::get_mut")]
    ok = len(ins) == 1 and len(push) == 1 and not other
    why = "expected exactly one insert and one push, found %s" % [e[1] for e in evs]
    if ok:
        tok_ok = all("Psk" in repr(e[2][-1]) and ("param", 2) in flatten(e[2][-1]) for e in ins + push)
        ins_ok = ins[0][2][1] == 0 and ins[0][3] == {"p2==0": True}
        push_ok = push[0][3] == {"p2==0": False}
        ok = tok_ok and ins_ok and push_ok
        why = "insert(%s) when %s; push when %s; token carries n: %s" % (ins[0][2][1], ins[0][3], push[0][3], tok_ok)
    ctx.ob("psk-placement", "apply_psk_modifier", ok, "psk0 -> insert at index 0; pskN -> push at the end of the selected message" if ok else why, where(fn), cfg)


def flatten(d):
    out = set()
    if isinstance(d, tuple):
        out.add(d)
        for x in d:
            out |= flatten(x)
    return out


def reported(ctx, cfg):
    F = ctx.facts[cfg]
    fn = F.one_fn("handshakestate::HandshakeState::was_write_payload_encrypted")
    R = ctx.guards(cfg, fn).R
    e = strip_bb(R.local(0))
    ok = e[0] == "call" and (e[1] or "").endswith("SymmetricState::has_key")
    g = F.one_fn("symmetricstate::SymmetricState::has_key")
    e2 = strip_bb(ctx.guards(cfg, g).R.local(0))
    ok = ok and e2[0] == "place" and {fields_only(p[1]) for p in e2[1]} == {("inner", "has_key")}
    ctx.ob("reported-values", "was_write_payload_encrypted", ok, "reports symmetricstate.inner.has_key" if ok else "does not report has_key", where(fn), cfg)
    fn = F.one_fn("handshakestate::HandshakeState::get_handshake_hash")
    e = strip_bb(ctx.guards(cfg, fn).R.local(0))
    ok = e[0] == "call" and (e[1] or "").endswith("SymmetricState::handshake_hash")
    from ..trace import Describer
    from ..contracts import Contracts
    g = F.one_fn("symmetricstate::SymmetricState::handshake_hash")
    D = Describer(g, ctx.eff(cfg).pts[g.path], Contracts(F).const_getters)
    d = D.d(strip_bb(D.R.local(0)))
    ok = ok and d == ("slice", ("at", "p1.inner.h"), ("to", ("getter", "hash_len", "p1.hasher")))
    ctx.ob("reported-values", "get_handshake_hash", ok, "reports h[..HASHLEN]" if ok else "handshake hash getter returns %s" % (d,), where(fn), cfg)
