"""C05 — stateful transport: in order, exactly once; rejections change nothing."""
from ..expr import strip_bb, show
from ..flow import fields_only
from . import nonce, roles
from .common import where, short, self_paths, cipher_calls

LEVEL = "other"
EXPLANATION = (
    "Decided clauses (structural necessary conditions in snow's own code): (a) 'rejections change nothing' — the "
    "interprocedural may-write set on every error exit of TransportState::read_message/write_message and of the "
    "CipherState functions beneath them contains nothing rooted at self (complete over all paths, both backends "
    "via the virtual-call closure); (b) +1 stepping — the complete inventory of writes to CipherState.n is "
    "{init 0, set(key, 0), explicit receiving-nonce setter, n+1 dominated by the cipher call's success edge}; "
    "(c) the nonce handed to Cipher::decrypt/encrypt in stateful mode is that counter; (d) a successful call "
    "writes only the counter of the index the role table prescribes. Not decided: that a wrong-order message is "
    "*rejected* (AEAD strength of the external crates)."
)


def run(ctx):
    ctx.rule("no-write-on-error", "error exits of stateful transport entry points write nothing rooted at self")
    ctx.rule("n-writers", "inventory of writes to CipherState.n and their values/guards")
    ctx.rule("n-set-callers", "who may call the functions assigning n from a parameter, and with what")
    ctx.rule("nonce-is-counter", "stateful Cipher calls receive self.n as nonce")
    ctx.rule("ok-writes-only-counter", "a successful transport read/write changes only the selected direction's counter")
    ctx.rule("role-index", "read/write/set_receiving_nonce address the index the role table prescribes")
    ctx.trust("rustc MIR construction; snowfacts exporter; effect analysis (flow.py): may-write sets are over-approximations")
    ctx.assume("Cipher::decrypt/encrypt take &self and every local Cipher impl is Freeze (checked under C16), so cipher calls cannot change the session")
    for cfg in ctx.cfgs:
        F = ctx.facts[cfg]
        E = ctx.eff(cfg)
        cnt = 0
        for name in ("cipherstate::CipherState::encrypt_ad", "cipherstate::CipherState::decrypt_ad",
                     "cipherstate::CipherState::encrypt", "cipherstate::CipherState::decrypt",
                     "transportstate::TransportState::write_message", "transportstate::TransportState::read_message"):
            fn = F.fn(F.crate + "::" + name)
            if fn is None:
                ctx.inconcl("anchor missing: %s" % name)
                continue
            s = E.sums[fn.path]
            bad = self_paths(s.w_err, 0)
            cnt += 1
            det = None
            if bad:
                A = E.detail[fn.path]
                det = "\n".join("%s written at: %s" % (p, "; ".join("bb%d %s" % w for w in A.witness.get((0, tuple(p.split("."))), [])[:3])) for p in bad)
            ctx.ob("no-write-on-error", short(fn.path), not bad,
                   "no session state written on any error exit" if not bad else "error exit may have written self.%s" % ", self.".join(bad),
                   where(fn), cfg, det)
        ctx.floor("no-write-on-error", cnt, 6, cfg)
        nw = nonce.check_n_writers(ctx, cfg)
        ctx.floor("n-writers", nw, 5, cfg)
        nc = nonce.check_n_setter_callers(ctx, cfg)
        ctx.floor("n-set-callers", nc, 5, cfg)
        # nonce operand is the counter
        k = 0
        for (fn, bi, t, kind) in cipher_calls(F):
            if not fn.path.endswith("cipherstate::CipherState::encrypt_ad") and not fn.path.endswith("cipherstate::CipherState::decrypt_ad"):
                continue
            R = ctx.guards(cfg, fn).R
            e = strip_bb(R.op(t["args"][1]))
            ok = e[0] == "place" and {(p[0], fields_only(p[1])) for p in e[1]} == {(("ext", 1), ("n",))}
            k += 1
            ctx.ob("nonce-is-counter", "%s:%s" % (short(fn.path), kind), ok,
                   "Cipher::%s receives self.n" % kind if ok else "Cipher::%s receives %s instead of the counter self.n" % (kind, show(e, fn)), where(fn, t), cfg)
        ctx.floor("nonce-is-counter", k, 2, cfg)
        # Ok path writes only the counter
        for name, buf in (("transportstate::TransportState::write_message", "message"), ("transportstate::TransportState::read_message", "payload")):
            fn = F.fn(F.crate + "::" + name)
            s = E.sums[fn.path]
            sp = self_paths(s.w_ok, 0)
            ok = all(p in ("cipherstates.0.n", "cipherstates.1.n") for p in sp) and len(sp) > 0
            ctx.ob("ok-writes-only-counter", short(fn.path), ok,
                   "successful call writes only %s" % sp if ok else "successful call may write self.%s" % ", self.".join(sp), where(fn), cfg)
        n = roles.check_transport_roles(ctx, cfg, ops_filter={"read_message", "write_message", "set_receiving_nonce"}, kinds=("stateful",))
        ctx.floor("role-index", n, 6, cfg)
