"""C08 — a channel exists only if both sides agree on the context."""
from . import hsnew, tokens, spec_templates, tables
from .common import where, short

LEVEL = "other"
EXPLANATION = (
    "That a disagreement is never tolerated rests on hash/AEAD strength; decided are the necessary conditions — every "
    "context item enters the transcript/chaining key on both roles: h is initialised from the verbatim protocol name "
    "(padded or hashed per §5.2); MixHash(prologue) follows unconditionally; pre-message public keys are hashed "
    "initiator's-list first with the role table's key for each (role, list, token); a psk token mixes the configured "
    "psks[n] through MixKeyAndHash (into ck, h and k); the remote static key is the operand of es/se/ss per the DH operand "
    "table and the DH output feeds MixKey; the SymmetricState operations themselves follow their templates."
)


def run(ctx):
    from spec import processing as SP
    ctx.rule("context-binding", "name, prologue and pre-message keys enter h in the specified order and by role")
    ctx.rule("psk-source", "the psk mixed is the configured one: set_psk / Builder::psk store the caller's key")
    ctx.rule("dh-operands", "pre-shared / transmitted static keys are the DH operands the specification prescribes")
    ctx.rule("token-trace", "psk and DH tokens mix into ck/h/k as specified (both roles)")
    ctx.rule("dataflow-template", "InitializeSymmetric / MixHash / MixKey / MixKeyAndHash dataflow")
    ctx.trust("rustc MIR; snowfacts; spec/roles.py; spec/processing.py")
    ctx.assume("hash collision resistance / AEAD strength (not decided)")
    for cfg in ctx.cfgs:
        hsnew.check_new(ctx, cfg)
        hsnew.check_psk_sources(ctx, cfg)
        ctx.floor("dh-operands", hsnew.check_dh_table(ctx, cfg), 8, cfg)
        n1, _ = tokens.compare(ctx, cfg, "handshakestate::HandshakeState::_write_message", SP.WRITE, SP.SEMANTIC, "token-trace", arms=("Psk", "Dh", "E", "S"))
        n2, _ = tokens.compare(ctx, cfg, "handshakestate::HandshakeState::_read_message", SP.READ, SP.SEMANTIC, "token-trace", arms=("Psk", "Dh", "E", "S"))
        ctx.floor("token-trace", n1 + n2, 8, cfg)
        ctx.floor("dataflow-template", spec_templates.run_templates(ctx, cfg, names=("initialize", "SymmetricState::mix_hash", "SymmetricState::mix_key", "mix_key_and_hash")), 4, cfg)
