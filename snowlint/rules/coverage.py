"""Transcript coverage (cursor discipline of the handshake read/write), error-propagation discipline,
and who-may-call rules for raw cipher primitives."""
from ..expr import strip_bb, show
from ..flow import is_result_ty
from ..lenflow import range_of, is_index_call
from ..contracts import Contracts
from ..trace import Describer
from .common import where, short


def read_cursor(ctx, cfg, rule="cursor-discipline"):
    """_read_message: the input cursor advances by exactly what was just consumed, and starts at the whole message"""
    F = ctx.facts[cfg]
    E = ctx.eff(cfg)
    fn = F.one_fn("handshakestate::HandshakeState::_read_message")
    G = ctx.guards(cfg, fn)
    pts = E.pts[fn.path]
    D = Describer(fn, pts, Contracts(F).const_getters)
    # the cursor: a multi-def slice local initialised from parameter 2
    cursors = []
    for l in range(len(fn.locals)):
        defs = fn.defs().get(l, [])
        if len(defs) > 1 and fn.local_ty(l)["k"] in ("ref",) and F.types[fn.local_ty(l)["inner"]]["k"] == "slice":
            for (bi, si, st) in defs:
                if si != "term" and st.get("k") == "assign" and strip_bb(D.R.rvalue(st["rv"])) == ("arg", 2):
                    cursors.append(l)
    ok = len(cursors) == 1
    ctx.ob(rule, "_read_message:cursor", ok, "one cursor over the incoming message, initialised to the whole message" if ok else "input cursor not found (%d candidates)" % len(cursors), where(fn), cfg)
    if not ok:
        return 0
    cur = cursors[0]
    va = ("local", cur)
    advances = []  # (bb, k descriptor, guards)
    for (bi, si, st) in fn.defs()[cur]:
        e = strip_bb(D.R.call_expr(bi, st)) if si == "term" else strip_bb(D.R.rvalue(st["rv"]))
        if e == ("arg", 2):
            continue
        if is_index_call(e) and e[3][0] == va:
            r = range_of(e[3][1])
            if r and r[0] == "from":
                advances.append((bi, D.num(r[1]), frozenset(f for f in G.at_entry(bi) if f[0] in ("bool", "variant"))))
                continue
        ctx.ob(rule, "_read_message:advance-form", False, "the input cursor is reassigned by something other than `&cursor[k..]`: %s" % show(e, fn), where(fn), cfg)
    # consumptions: Index(cursor, RangeTo{k}) calls
    consumes = []
    for bi, t in fn.calls():
        e = strip_bb(D.R.call_expr(bi, t))
        if is_index_call(e) and e[3][0] == va:
            r = range_of(e[3][1])
            if r and r[0] == "to":
                consumes.append((bi, D.num(r[1]), frozenset(f for f in G.at_entry(bi) if f[0] in ("bool", "variant"))))
            elif r and r[0] != "from":
                ctx.ob(rule, "_read_message:consume-form", False, "the cursor is sliced with an unexpected range form %s" % (r[0],), where(fn, t), cfg)
    n = 0
    used = set()
    for (cb, ck, cg) in consumes:
        n += 1
        match = [(ab, ak, ag) for (ab, ak, ag) in advances if ak == ck and ag == cg and fn.dominates(cb, ab) and (ab, ak) not in used]
        okc = bool(match)
        if okc:
            used.add((match[0][0], match[0][1]))
        ctx.ob(rule, "_read_message:consume@%d" % n, okc,
               "cursor[..k] is consumed and the cursor then advances by the same k" if okc else "after consuming cursor[..%s] the cursor does not advance by the same amount (bytes would be skipped or read twice)" % (ck,),
               where(fn, fn.blocks[cb]["term"]), cfg)
    extra = [(ab, ak) for (ab, ak, ag) in advances if (ab, ak) not in used]
    ctx.ob(rule, "_read_message:no-skip", not extra, "every advance of the cursor follows a consumption of exactly those bytes" if not extra else "the cursor advances by %s without those bytes having been consumed (unhashed bytes)" % (extra[0][1],), where(fn), cfg)
    return n


def write_cursor(ctx, cfg, rule="cursor-discipline"):
    """_write_message: the output index advances only by what was just written at that index"""
    F = ctx.facts[cfg]
    E = ctx.eff(cfg)
    fn = F.one_fn("handshakestate::HandshakeState::_write_message")
    G = ctx.guards(cfg, fn)
    pts = E.pts[fn.path]
    D = Describer(fn, pts, Contracts(F).const_getters)
    # the index: the multi-def usize local returned in Ok(..)
    idx = None
    for bi, b in enumerate(fn.blocks):
        for s in b["stmts"]:
            if s["k"] == "assign" and s["place"]["local"] == 0 and s["rv"]["k"] == "aggregate" and s["rv"].get("variant_name") == "Ok":
                e = D.R.op(s["rv"]["ops"][0])
                if e[0] == "local":
                    idx = e[1]
    ctx.ob(rule, "_write_message:index", idx is not None, "the returned length is the running output index" if idx is not None else "Ok(..) does not return a running index variable", where(fn), cfg)
    if idx is None:
        return 0
    va = ("local", idx)
    n = 0
    for (bi, si, st) in fn.defs()[idx]:
        if si == "term":
            continue
        e = strip_bb(D.R.rvalue(st["rv"]))
        if e == ("const", 0):
            continue
        n += 1
        ok = False
        what = show(e, fn)
        if e[0] == "bin" and e[1] == "Add" and e[2] == va:
            inc = e[3]
            if inc[0] == "okval" and inc[1][0] == "call" and (inc[1][1] or "").endswith("SymmetricState::encrypt_and_mix_hash"):
                out = inc[1][3][2]
                # out buffer must be message[idx..]
                ok = is_index_call(out) and out[3][0] == ("arg", 3) and range_of(out[3][1]) == ("from", va)
                what = "returned length of encrypt_and_mix_hash(.., message[index..])"
            elif inc[0] == "len":
                # a key copied to message[idx..idx+len]
                for b2, t2 in fn.calls():
                    if (t2["callee"].get("def") or "").endswith("copy_from_slice") and fn.dominates(b2, bi):
                        dst = strip_bb(D.R.op(t2["args"][0]))
                        src = strip_bb(D.R.op(t2["args"][1]))
                        if is_index_call(dst) and dst[3][0] == ("arg", 3):
                            r = range_of(dst[3][1])
                            if r and r[0] == "range" and r[1] == va and r[2] == ("bin", "Add", va, inc) and ("len", src) == inc:
                                ok = True
                        # message[index..][..len]: the same bytes
                        if is_index_call(dst) and is_index_call(dst[3][0]) and dst[3][0][3][0] == ("arg", 3):
                            r1 = range_of(dst[3][0][3][1])
                            r2 = range_of(dst[3][1])
                            if r1 and r2 and r1 == ("from", va) and r2[0] == "to" and r2[1] == inc and ("len", src) == inc:
                                ok = True
                what = "length of the key just copied to message[index..index+len]"
        ctx.ob(rule, "_write_message:advance@%d" % n, ok, "index += %s" % what if ok else "the output index advances by %s, which is not the length just written at message[index..]" % what, where(fn, st), cfg)
    return n


RESULT_SINKS_BAD = ("Result::<T, E>::ok", "Result::<T, E>::unwrap_or", "Result::<T, E>::unwrap_or_default", "Result::<T, E>::unwrap_or_else", "mem::drop")


def error_discipline(ctx, cfg, rule="error-discipline", only=None):
    """every Result produced by a call in snow is propagated, matched or converted — never dropped or defaulted"""
    F = ctx.facts[cfg]
    n = 0
    for fn in F.fns():
        if only and not only(fn.path):
            continue
        uses = None
        for bi, t in fn.calls():
            dst = t["dest"]
            if dst["proj"]:
                continue
            dl = dst["local"]
            ty = fn.local_ty_s(dl)
            if not is_result_ty(ty):
                continue
            d = t["callee"].get("def") or ""
            if d.endswith("Try::branch") or d.endswith("FromResidual::from_residual"):
                continue
            n += 1
            if dl == 0:
                continue  # returned
            if uses is None:
                uses = local_uses(fn)
            us = uses.get(dl, [])
            key = "%s:%s@%d" % (short(fn.path), d.split("::")[-1], sum(1 for b2, t2 in fn.calls() if b2 <= bi and (t2["callee"].get("def") or "") == d))
            if not us:
                ctx.ob(rule, key, False, "the Result of %s is dropped" % d.split("::")[-1], where(fn, t), cfg)
                continue
            bad = [u for u in us if u[0] == "call" and any(u[1].endswith(s) for s in RESULT_SINKS_BAD)]
            ctx.ob(rule, key, not bad, "Result of %s is %s" % (d.split("::")[-1], "/".join(sorted({u[1].split("::")[-1] if u[0] == "call" else u[0] for u in us}))) if not bad
                   else "the Result of %s is discarded through %s" % (d.split("::")[-1], bad[0][1].split("::")[-1]), where(fn, t), cfg)
    return n


def local_uses(fn):
    """local -> [(kind, detail)] reads of whole locals or projections"""
    uses = {}

    def op(o, kind, detail):
        if o["k"] in ("copy", "move"):
            uses.setdefault(o["place"]["local"], []).append((kind, detail))

    for b in fn.blocks:
        if b["cleanup"]:
            continue
        for s in b["stmts"]:
            if s["k"] != "assign":
                continue
            rv = s["rv"]
            k = rv["k"]
            tgt = "ret" if s["place"]["local"] == 0 else "assign"
            if k in ("use", "cast", "repeat"):
                op(rv["op"], tgt, "")
            elif k == "unop":
                op(rv["a"], tgt, "")
            elif k == "binop":
                op(rv["a"], tgt, "")
                op(rv["b"], tgt, "")
            elif k in ("ref", "rawptr", "discr", "copyforderef"):
                uses.setdefault(rv["place"]["local"], []).append(("discr" if k == "discr" else "ref", ""))
            elif k == "aggregate":
                for o in rv["ops"]:
                    op(o, tgt, "")
        t = b["term"]
        if t["k"] == "call":
            d = t["callee"].get("def") or ""
            for a in t["args"]:
                op(a, "call", d)
        elif t["k"] == "switch":
            op(t["discr"], "switch", "")
    return uses


ALLOWED_CIPHER_EXTERNAL = (
    "KeyInit::new", "AeadInPlace::encrypt_in_place_detached", "AeadInPlace::decrypt_in_place_detached",
    "LessSafeKey::new", "LessSafeKey::seal_in_place_separate_tag", "LessSafeKey::open_in_place", "UnboundKey::new",
    "Nonce::assume_unique_for_key", "Aad::from", "GenericArray::as_slice",
)


def raw_primitive_calls(ctx, cfg, rule="verify-then-decrypt-only"):
    """inside snow's Cipher impls only the AEAD (verify-then-decrypt) entry points of the backends are called"""
    import re
    F = ctx.facts[cfg]
    tr = F.crate + "::types::Cipher"
    n = 0
    for im in F.impls:
        if im.get("trait") != tr:
            continue
        for i in im["items"]:
            fn = F.fn(i["path"]) if i.get("is_fn") else None
            if fn is None:
                continue
            for bi, t in fn.calls():
                d = t["callee"].get("def") or ""
                if d.startswith("std::") or d.startswith(F.crate + "::") or not d:
                    continue
                nm = re.sub(r"::<[^>]*>", "", d)
                nm2 = "::".join(nm.split("::")[-2:])
                n += 1
                ok = nm2 in ALLOWED_CIPHER_EXTERNAL
                # direction: a decrypt wrapper has no business sealing, an encrypt wrapper none opening
                wrongdir = (i["name"] == "decrypt" and nm2 in ("AeadInPlace::encrypt_in_place_detached", "LessSafeKey::seal_in_place_separate_tag")) or \
                           (i["name"] == "encrypt" and nm2 in ("AeadInPlace::decrypt_in_place_detached", "LessSafeKey::open_in_place"))
                if wrongdir:
                    ctx.ob(rule, "%s:%s" % (short(fn.path), nm2), False, "the %s wrapper calls %s, the AEAD entry point of the opposite direction (applying the keystream without a verified tag)" % (i["name"], nm2), where(fn, t), cfg)
                    continue
                ctx.ob(rule, "%s:%s" % (short(fn.path), nm2), ok,
                       "backend entry point %s is an AEAD (verify-then-decrypt) operation" % nm2 if ok else "Cipher impl calls %s, which is not one of the audited AEAD entry points (raw keystream/block primitives would release unauthenticated plaintext)" % d,
                       where(fn, t), cfg)
    return n
