"""Extraction and cross-checking of snow's hand-written tables (pattern table, prerequisite
predicates, is_oneway)."""
from .. import hir
from ..facts import Inconclusive
from .common import short


def extract_patterns(ctx, cfg):
    F = ctx.facts[cfg]
    key = ("patterns", cfg)
    cache = ctx.__dict__.setdefault("_tabcache", {})
    if key not in cache:
        cache[key] = hir.pattern_table(F)
    return cache[key]


def norm(t):
    return tuple(t) if isinstance(t, (list, tuple)) else t


def norm_row(row):
    pi, pr, msgs = row
    return ([norm(t) for t in pi], [norm(t) for t in pr], [[norm(t) for t in m] for m in msgs])


def predicate_table(ctx, cfg, fn_name, params_list):
    """truth table {(variant, params tuple): bool} of a HandshakePattern predicate"""
    F = ctx.facts[cfg]
    b = hir.find_body(F, "HandshakePattern::" + fn_name)
    variants = hir.enum_variants(F, "params::patterns::HandshakePattern")
    pnames = []
    for p in b["hir"]["params"]:
        for alt in hir.pat_alts(p):
            if alt[0] == "bind":
                pnames.append(alt[1])
    pnames = [n for n in pnames if n != "self"]
    out = {}
    for combo in params_list:
        env = dict(zip(pnames, combo))
        tab = hir.bool_table(F, b["hir"]["value"], [v[1] for v in variants], env)
        for (name, path) in variants:
            out[(name, combo)] = tab[path]
    return out, b


def where_body(b):
    return "%s:%d" % (b["span"]["f"], b["span"]["l"])
