"""Built-in primitive wrappers: binding table (name <-> wrapped type <-> lengths) and dataflow templates."""
from .. import hir
from ..lenproof import const_return
from ..template import check_template
from .aead import cipher_impls
from .common import where, short


def impl_name_literal(F, im):
    for i in im["items"]:
        if i["name"] == "name" and i.get("is_fn"):
            fn = F.fn(i["path"])
            if fn:
                for b in fn.blocks:
                    for s in b["stmts"]:
                        if s["k"] == "assign" and s["place"]["local"] == 0 and s["rv"]["k"] == "use" and "str" in s["rv"]["op"]:
                            return s["rv"]["op"]["str"]
    return None


def impl_fns(F, im):
    return {i["name"]: F.fn(i["path"]) for i in im["items"] if i.get("is_fn")}


def backend_of(im):
    return "ring" if "::ring::" in im["self_s"] else "default"


def check_hashes(ctx, cfg):
    from spec import prims as SP
    F = ctx.facts[cfg]
    tr = F.crate + "::types::Hash"
    n = 0
    for im in F.impls:
        if im.get("trait") != tr:
            continue
        n += 1
        name = impl_name_literal(F, im)
        be = backend_of(im)
        tshort = "::".join(im["self_s"].split("::")[-2:])
        fns = impl_fns(F, im)
        spec = SP.HASH_BINDING[be].get(name)
        if spec is None:
            ctx.ob("prim-binding", tshort, False, "hash impl %s names itself %r, which the %s backend does not define" % (tshort, name, be), None, cfg)
            continue
        marker, hl, bl = spec
        got_hl = const_return(fns["hash_len"]) if fns.get("hash_len") else None
        got_bl = const_return(fns["block_len"]) if fns.get("block_len") else None
        # wrapped type: field type (RustCrypto) or algorithm static (ring)
        adt = F.adts.get(F.crate + "::" + im["self_s"]) or F.adt(im["self_s"])
        ftypes = " ".join(F.types[f["ty"]]["s"] for f in adt["variants"][0]["fields"])
        statics = set()
        for fn in fns.values():
            if fn is None:
                continue
            for bi, t in fn.calls():
                for a in t["args"]:
                    if a.get("k") == "copy" or a.get("k") == "move":
                        pass
            for b in fn.blocks:
                for s in b["stmts"]:
                    if s["k"] == "assign" and s["rv"]["k"] == "use" and s["rv"]["op"].get("static"):
                        statics.add(s["rv"]["op"]["static"])
        type_ok = (marker in ftypes) if be == "default" else (statics == {marker})
        ok = got_hl == hl and got_bl == bl and type_ok
        ctx.ob("prim-binding", tshort, ok,
               "%s wraps %s with HASHLEN %d, BLOCKLEN %d" % (name, marker, hl, bl) if ok
               else "%s: hash_len %s (spec %d), block_len %s (spec %d), wrapped type ok=%s (expected %s; have %s)" % (name, got_hl, hl, got_bl, bl, type_ok, marker, (ftypes if be == "default" else sorted(statics))[:120]),
               "%s:%d" % (im["span"]["f"], im["span"]["l"]), cfg)
        tpls = SP.hash_templates(be, hl, marker if be == "ring" else None)
        for m, tpl in tpls.items():
            fn = fns.get(m)
            if fn is None:
                ctx.ob("prim-template", "%s::%s" % (tshort, m), False, "missing method", None, cfg)
                continue
            check_template(ctx, cfg, fn, tpl, "prim-template", "%s::%s" % (tshort, m), set(SP.HASH_CALLS))
        # no override of hmac / hkdf
        names = [i["name"] for i in im["items"]]
        ov = [x for x in ("hmac", "hkdf") if x in names]
        ctx.ob("prim-binding", tshort + ":defaults", not ov, "uses the default HMAC/HKDF" if not ov else "overrides %s" % ov, None, cfg)
    return n


def check_dhs(ctx, cfg):
    from spec import prims as SP
    F = ctx.facts[cfg]
    tr = F.crate + "::types::Dh"
    n = 0
    for im in F.impls:
        if im.get("trait") != tr:
            continue
        n += 1
        name = impl_name_literal(F, im)
        tshort = "::".join(im["self_s"].split("::")[-2:])
        fns = impl_fns(F, im)
        spec = SP.DH_BINDING.get(name)
        if spec is None:
            ctx.ob("prim-binding", tshort, False, "DH impl %s names itself %r" % (tshort, name), None, cfg)
            continue
        pub, priv, dhl = spec
        g_pub = const_return(fns["pub_len"]) if fns.get("pub_len") else None
        g_priv = const_return(fns["priv_len"]) if fns.get("priv_len") else None
        g_dh = const_return(fns["dh_len"]) if fns.get("dh_len") else g_pub
        ok = (g_pub, g_priv, g_dh) == (pub, priv, dhl)
        ctx.ob("prim-binding", tshort, ok, "%s: pub_len %d, priv_len %d, dh_len %d" % (name, pub, priv, dhl) if ok else "%s: lengths (%s, %s, %s) differ from (%d, %d, %d)" % (name, g_pub, g_priv, g_dh, pub, priv, dhl),
               "%s:%d" % (im["span"]["f"], im["span"]["l"]), cfg)
        tpls, calls = (SP.DH25519, SP.DH25519_CALLS) if name == "25519" else (SP.P256, SP.P256_CALLS)
        for m, tpl in tpls.items():
            fn = fns.get(m)
            if fn is None:
                cands = [p for p in F.bodies if p.endswith("::%s::%s" % (im["self_s"].split("::")[-1], m)) and "mir" in F.bodies[p]]
                fn = F.fn(cands[0]) if cands else None
            if fn is None:
                ctx.ob("prim-template", "%s::%s" % (tshort, m), False, "missing method", None, cfg)
                continue
            check_template(ctx, cfg, fn, tpl, "prim-template", "%s::%s" % (tshort, m), set(calls), ignore_assign=lambda ch: False)
    return n


def check_cipher_binding(ctx, cfg):
    from spec import prims as SP
    F = ctx.facts[cfg]
    n = 0
    for (ty, name, enc, dec, im) in cipher_impls(ctx, cfg):
        be = backend_of(im)
        tshort = "::".join(ty.split("::")[-2:])
        spec = SP.CIPHER_BINDING[be].get(name)
        n += 1
        if spec is None:
            ctx.ob("prim-binding", tshort, False, "cipher impl %s names itself %r, which the %s backend does not define" % (tshort, name, be), None, cfg)
            continue
        found = set()
        fns = impl_fns(F, im)
        extra = [F.fn(p) for p in F.bodies if F.bodies[p].get("self_ty") == im["self_s"] and "mir" in F.bodies[p]]
        for fn in list(fns.values()) + extra:
            if fn is None:
                continue
            for bi, t in fn.calls():
                c = t["callee"]
                if c.get("self_ty") is not None and (c.get("name") in ("new", "encrypt_in_place_detached", "decrypt_in_place_detached")):
                    found.add(F.types[c["self_ty"]]["s"])
            for b in fn.blocks:
                for s in b["stmts"]:
                    if s["k"] == "assign" and s["rv"]["k"] == "use" and s["rv"]["op"].get("static"):
                        found.add(s["rv"]["op"]["static"])
        if be == "default":
            ok = bool(found) and all(all(m in f for m in spec) for f in found if "AesGcm" in f or "ChaChaPoly1305" in f) and any("AesGcm" in f or "ChaChaPoly1305" in f for f in found)
            if name == "ChaChaPoly":
                ok = ok and not any("XChaCha" in f for f in found)
        else:
            ok = {f for f in found if f.startswith("ring::aead::")} == set(spec)
        ctx.ob("prim-binding", tshort, ok, "%s is backed by %s" % (name, " / ".join(spec)) if ok else "%s is backed by %s, expected %s" % (name, sorted(x[:80] for x in found), spec),
               "%s:%d" % (im["span"]["f"], im["span"]["l"]), cfg)
    return n


def resolver_tables(ctx, cfg):
    """resolve_* match arms: choice variant -> boxed impl type -> that impl's name() literal == the FromStr literal"""
    F = ctx.facts[cfg]
    from . import tables
    n = 0
    lit_of = {}
    for ty in ("params::DHChoice", "params::CipherChoice", "params::HashChoice"):
        t, default, guarded, body = hir.fromstr_table(F, ty)
        for lit, v in t.items():
            if v[0] == "Ok":
                lit_of[(ty.split("::")[-1], v[1])] = lit
    names = {}
    for im in F.impls:
        if im.get("trait") in (F.crate + "::types::Dh", F.crate + "::types::Cipher", F.crate + "::types::Hash"):
            names[im["self_s"]] = impl_name_literal(F, im)
    for p, b in sorted(F.bodies.items()):
        if b.get("trait_item", "").startswith(F.crate + "::resolvers::CryptoResolver::resolve_") and "hir" in b and "FallbackResolver" not in p:
            kind = b["trait_item"].split("resolve_")[-1]
            if kind in ("rng", "kem"):
                continue
            ms = [e for e in hir.walk(b["hir"]["value"]) if e.get("k") == "match"]
            rshort = "::".join((b.get("self_ty") or "?").split("::")[-2:])
            for m in ms[:1]:
                for arm in m["arms"]:
                    for alt in hir.pat_alts(arm["pat"]):
                        if alt[0] != "variant":
                            continue
                        variant = hir.variant_name(alt[1].replace("::{constructor#0}", ""))
                        enum = alt[1].replace("::{constructor#0}", "").split("::")[-2]
                        body_e = hir.strip(arm["body"])
                        n += 1
                        key = "%s::resolve_%s:%s" % (rshort, kind, variant)
                        if body_e.get("k") == "path" and (hir.res_def(body_e) or "").endswith("None"):
                            ctx.ob("resolver-table", key, True, "%s is not provided (None)" % variant, tables.where_body(b), cfg)
                            continue
                        # Some(Box<T>...)
                        impl_ty = None
                        for sub in hir.walk(body_e):
                            t = hir.ty_s(F, sub)
                            if t and t.startswith("std::boxed::Box<resolvers::"):
                                impl_ty = t[len("std::boxed::Box<"):-1]
                                break
                        lit = lit_of.get((enum, variant))
                        ok = impl_ty is not None and names.get(impl_ty) == lit and lit is not None
                        ctx.ob("resolver-table", key, ok,
                               "%s -> %s whose name() is %r" % (variant, impl_ty.split("::")[-1] if impl_ty else "?", lit) if ok
                               else "%s resolves to %s whose name() is %r, but the protocol-name literal for %s is %r" % (variant, impl_ty, names.get(impl_ty), variant, lit),
                               tables.where_body(b), cfg)
    return n
