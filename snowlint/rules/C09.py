"""C09 — nonces count by one; the reserved value 2^64-1 is never used."""
from . import nonce, roles
from .common import where, short, self_paths, fmt_ws, cipher_calls

LEVEL = "proof"
EXPLANATION = (
    "Finite set of CFG obligations over snow's own code, all decided from MIR: (1) the nonce validator "
    "rejects exactly 2^64-1 with State(Exhausted) (interval evaluation of its branch conditions); (2) every "
    "Cipher::encrypt/decrypt call site in the crate (complete inventory incl. virtual calls) other than the "
    "one in Cipher::rekey is dominated by the success edge of that validator applied to the very operand "
    "passed as nonce, with no intervening write to it; (3) nothing rooted at self is written on any error "
    "exit of the cipher-state/transport entry points, so a failing call leaves the counter where it was; "
    "(4) the only constant-nonce cipher call is REKEY's 2^64-1 and no local Cipher impl overrides rekey; "
    "(5) the complete inventory of writes to CipherState.n is {init 0, set(key,0), explicit receiving-nonce "
    "setter, +1 after a successful cipher call}. Foreign Cipher implementations are out of scope."
)


def run(ctx):
    ctx.rule("validate-shape", "nonce validator returns Err(State(Exhausted)) iff nonce == 2^64-1 (interval evaluation of guards)")
    ctx.rule("nonce-guard", "every Cipher::encrypt/decrypt call outside REKEY is dominated by the Ok edge of validate(nonce operand)")
    ctx.rule("rekey-reserved-nonce", "Cipher::rekey's encrypt uses the constant nonce 2^64-1")
    ctx.rule("rekey-not-overridden", "no local impl of Cipher overrides rekey")
    ctx.rule("n-writers", "inventory of writes to CipherState.n and their values/guards")
    ctx.rule("n-set-callers", "who may call the functions assigning n from a parameter, and with what")
    ctx.rule("no-write-on-error", "error exits of nonce-bearing entry points write nothing rooted at self")
    ctx.rule("role-index", "set_receiving_nonce/receiving_nonce/sending_nonce address the index the role table prescribes")
    ctx.trust("rustc type checking, trait resolution and MIR construction (nightly 1.97)")
    ctx.trust("snowfacts exporter (MIR/HIR serialisation)")
    ctx.assume("foreign Cipher implementations supplied through Builder::with_resolver are outside the analysed program")
    for cfg in ctx.cfgs:
        F = ctx.facts[cfg]
        E = ctx.eff(cfg)
        vals = nonce.find_validators(ctx, cfg)
        # a validator function is optional (the comparison may be written in place); every guarded cipher call is
        # checked individually below, and their count has its own floor
        ctx.floor("validate-shape", len(vals), 0, cfg)
        g, r = nonce.check_guarded_cipher_calls(ctx, cfg, vals)
        ctx.floor("nonce-guard", g, 4, cfg)
        ctx.floor("rekey-reserved-nonce", r, 1, cfg)
        n_impl = nonce.check_rekey_not_overridden(ctx, cfg)
        ctx.floor("rekey-not-overridden", n_impl, 1, cfg)
        nw = nonce.check_n_writers(ctx, cfg)
        ctx.floor("n-writers", nw, 5, cfg)
        nc = nonce.check_n_setter_callers(ctx, cfg)
        ctx.floor("n-set-callers", nc, 5, cfg)
        # nothing rooted at self written on error exits
        cnt = 0
        for name in ("cipherstate::CipherState::encrypt_ad", "cipherstate::CipherState::decrypt_ad",
                     "cipherstate::CipherState::encrypt", "cipherstate::CipherState::decrypt",
                     "cipherstate::StatelessCipherState::encrypt_ad", "cipherstate::StatelessCipherState::decrypt_ad",
                     "transportstate::TransportState::write_message", "transportstate::TransportState::read_message",
                     "stateless_transportstate::StatelessTransportState::write_message",
                     "stateless_transportstate::StatelessTransportState::read_message"):
            fn = F.fn(F.crate + "::" + name)
            if fn is None:
                ctx.inconcl("anchor missing: %s" % name)
                continue
            s = E.sums[fn.path]
            bad = self_paths(s.w_err, 0)
            cnt += 1
            det = None
            if bad:
                A = E.detail[fn.path]
                det = "\n".join("%s written at: %s" % (p, "; ".join("bb%d %s" % w for w in A.witness.get((0, tuple(p.split("."))), [])[:3])) for p in bad)
            ctx.ob("no-write-on-error", short(fn.path), not bad,
                   "no session state written on any error exit" if not bad else "error exit may have written self.%s" % ", self.".join(bad),
                   where(fn), cfg, det)
        ctx.floor("no-write-on-error", cnt, 10, cfg)
        n = roles.check_transport_roles(ctx, cfg, ops_filter={"set_receiving_nonce", "receiving_nonce", "sending_nonce"}, kinds=("stateful",))
        ctx.floor("role-index", n, 6, cfg)
