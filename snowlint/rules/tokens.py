"""Per-token effect traces of the handshake write/read functions, compared with spec/processing.py."""
import re

from ..flow import fields_only
from ..trace import Describer, events, variant_regions
from ..contracts import Contracts
from .common import where, short

ANY = "*"


def norm_callee(d):
    d = re.sub(r"::<[^>]*>", "", d)
    d = re.sub(r"<impl [^>]*>", "", d)
    parts = [p for p in d.split("::") if p]
    if parts and parts[-1] in ("copy_from_slice", "clone_from_slice"):
        return "copy_from_slice"
    return "::".join(parts[-2:])


def match(pat, val, _top=True):
    if _top:
        from ..trace import canon_slices
        return _match(canon_slices(pat), canon_slices(val))
    return _match(pat, val)


def _match(pat, val):
    if pat == ANY:
        return True
    if isinstance(pat, tuple) and pat and pat[0] == "anyof":
        return any(_match(p, val) for p in pat[1])
    if isinstance(pat, frozenset):
        if not isinstance(val, frozenset) or len(pat) != len(val):
            return False
        rest = list(val)
        for p in pat:
            hit = None
            for v in rest:
                if _match(p, v):
                    hit = v
                    break
            if hit is None:
                return False
            rest.remove(hit)
        return True
    if isinstance(pat, tuple):
        if not isinstance(val, tuple) or len(pat) != len(val):
            return False
        if pat and pat[0] == "+" and val and val[0] == "+":
            # commutative
            return _match(frozenset(pat[1:]), frozenset(val[1:]))
        return all(_match(p, v) for p, v in zip(pat, val))
    return pat == val


def ok_sites(fn):
    out = set()
    for bi, b in enumerate(fn.blocks):
        for st in b["stmts"]:
            if st["k"] == "assign" and st["place"]["local"] == 0 and not st["place"]["proj"]:
                rv = st["rv"]
                if not (rv["k"] == "aggregate" and rv.get("variant_name") == "Err"):
                    out.add(bi)
        t = b["term"]
        if t["k"] == "call" and t["dest"]["local"] == 0 and not (t["callee"].get("def") or "").endswith("FromResidual::from_residual"):
            out.add(bi)
    return out


def validation_facts(fn, G):
    """facts established by a branch whose alternative can only fail (cannot reach a successful return):
    such guards are validations, not conditions on whether an operation is part of the protocol"""
    oks = ok_sites(fn)
    can_ok = set()
    for b in fn.reachable():
        if fn.reachable(b) & oks:
            can_ok.add(b)
    val = set()
    sem = set()
    for (s, t), fs in G.edge_facts.items():
        others = [u for u in fn.succs(s) if u != t]
        only_fail = bool(others) and all(u not in can_ok for u in others)
        for f in fs:
            (val if only_fail else sem).add(f)
    return val - sem


def guard_names(facts, validations=frozenset()):
    """named guards among a set of must-facts"""
    out = {}
    for f in facts:
        if f in validations:
            continue
        if f[0] == "bool":
            e = f[1]
            if e[0] == "place":
                chains = {fields_only(p[1]) for p in e[1]}
                if len(chains) == 1:
                    ch = next(iter(chains))
                    if ch and ch[-1] in ("fixed_ephemeral", "has_key", "initiator", "my_turn"):
                        out[ch[-1]] = f[2]
                        continue
            if e[0] == "call":
                nm = (e[1] or "").split("::")[-1]
                if nm in ("is_psk", "has_key", "is_on", "is_oneway", "is_initiator"):
                    out[nm] = f[2]
                    continue
            out["other:" + repr(e)[:80]] = f[2]
        elif f[0] == "cmp":
            op, a, b, truth = f[1], f[2], f[3], f[4]
            if op == "Eq" and is_pos(a) and is_len_minus_1(b):
                out["last"] = truth
            elif op == "Eq" and is_pos(b) and is_len_minus_1(a):
                out["last"] = truth
            elif a[0] == "len" and a[1][0] == "arg" and b[0] == "call" and (b[1] or "").split("::")[-1] in ("hash_len", "block_len", "pub_len", "dh_len"):
                sym = {"Eq": "==", "Ne": "!=", "Lt": "<", "Le": "<=", "Gt": ">", "Ge": ">="}[op]
                out["len(p%d)%s%s" % (a[1][1], sym, b[1].split("::")[-1])] = truth
            else:
                out["cmp:" + op + ":" + repr((a, b))[:100]] = truth
    return out


def is_pos(e):
    return e[0] == "place" and {fields_only(p[1]) for p in e[1]} == {("pattern_position",)}


def is_len_minus_1(e):
    if e[0] == "bin" and e[1] == "Sub" and e[3] == ("const", 1):
        x = e[2]
        if x[0] == "len" and x[1][0] in ("ref", "place"):
            return any("message_patterns" in fields_only(p[1]) for p in x[1][1])
    return False


def arm_traces(ctx, cfg, fname, semantic):
    """{arm name: [(callee, args, guards, bb, term)]} incl. 'epilogue' (events outside all token arms)"""
    F = ctx.facts[cfg]
    E = ctx.eff(cfg)
    fn = F.one_fn(fname)
    G = ctx.guards(cfg, fn)
    C = Contracts(F)
    D = Describer(fn, E.pts[fn.path], C.const_getters)
    vr = variant_regions(fn, G, "params::patterns::Token", F)
    if vr is None:
        from ..facts import Inconclusive
        raise Inconclusive("token match not found in %s" % fname)
    x, regs = vr
    tok = F.adt("params::patterns::Token")
    names = {v["idx"]: v["name"] for v in tok["variants"]}
    out = {}
    allb = set()

    def sem(d):
        return norm_callee(d) in semantic

    V = validation_facts(fn, G)
    for idx, blocks in regs.items():
        allb |= blocks
        entry = min(blocks)
        base = set(G.at_entry(entry))
        evs = []
        for (bi, callee, args, guards) in events(fn, G, D, blocks, lambda d: True):
            t = fn.blocks[bi]["term"]
            nc = norm_callee(t["callee"].get("def") or "")
            if nc not in semantic:
                continue
            g = guard_names((f for f in G.before_term(bi) if f[0] in ("bool", "cmp") and f not in base), V)
            evs.append((nc, args, g, bi, t))
        out[names[idx]] = order(fn, evs)
    evs = []
    entry_facts = set()
    for (bi, callee, args, guards) in events(fn, G, D, fn.reachable() - allb, lambda d: True):
        t = fn.blocks[bi]["term"]
        nc = norm_callee(t["callee"].get("def") or "")
        if nc not in semantic:
            continue
        g = guard_names((f for f in G.before_term(bi) if f[0] in ("bool", "cmp")), V)
        evs.append((nc, args, g, bi, t))
    out["epilogue"] = order(fn, evs)
    return fn, out


def order(fn, evs):
    """sort events so that dominators come first (ties by block index)"""
    evs = list(evs)
    import functools

    def cmp(a, b):
        if a[3] == b[3]:
            return 0
        if fn.dominates(a[3], b[3]):
            return -1
        if fn.dominates(b[3], a[3]):
            return 1
        return -1 if a[3] < b[3] else 1
    return sorted(evs, key=functools.cmp_to_key(cmp))


def compare(ctx, cfg, fname, expected, semantic, rule, arms=None):
    fn, traces = arm_traces(ctx, cfg, fname, semantic)
    n = 0
    for arm, exp in expected.items():
        if arms is not None and arm not in arms:
            continue
        act = traces.get(arm)
        key = "%s:%s" % (fname.split("::")[-1], arm)
        n += 1
        if act is None:
            ctx.ob(rule, key, False, "no code processes token %s in %s" % (arm, fname.split("::")[-1]), where(fn), cfg)
            continue
        problems = []
        if len(act) != len(exp):
            problems.append("expected %d specification-level operations, found %d: %s" % (len(exp), len(act), [a[0] for a in act]))
        for i, (e, a) in enumerate(zip(exp, act)):
            (ec, eargs, eg) = e
            (ac, aargs, ag, bi, t) = a
            if ec != ac:
                problems.append("operation %d is %s, the specification requires %s" % (i + 1, ac, ec))
                continue
            if not match(tuple(eargs), tuple(aargs)):
                bad = [j for j, (p, v) in enumerate(zip(eargs, aargs)) if not match(p, v)]
                j = bad[0] if bad else 0
                problems.append("%s argument %d is %s, the specification requires %s" % (ac, j + 1, brief(aargs[j]) if j < len(aargs) else "?", brief(eargs[j]) if j < len(eargs) else "?"))
            if eg != ag:
                problems.append("%s runs under condition %s, the specification requires %s" % (ac, ag or "always", eg or "always"))
        w = where(fn, act[0][4]) if act else where(fn)
        ctx.ob(rule, key, not problems,
               "token %s: %s" % (arm, " ; ".join(a[0].split("::")[-1] for a in act)) if not problems else "token %s: %s" % (arm, "; ".join(problems)), w, cfg)
    return n, traces


def brief(d):
    s = repr(d)
    return s if len(s) < 160 else s[:157] + "..."
