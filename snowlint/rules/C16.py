"""C16 — stateless transport is a pure function of keys, nonce and input."""
from ..expr import strip_bb, show
from ..flow import fields_only
from . import nonce, roles
from .common import where, short, self_paths, cipher_calls, calls_to

LEVEL = "proof"
EXPLANATION = (
    "Decided by typing and dataflow, completely for snow's own code: (1) StatelessTransportState::read_message/"
    "write_message take &self; (2) every type reachable from StatelessTransportState's fields — through Box, arrays, "
    "and for `dyn Cipher` every local implementation — is Freeze (no interior mutability) and the crate contains no "
    "unsafe block, hence no call through &self can change the session: results are order-independent and repeatable; "
    "(3) the three state types are Send + Sync (trait solver), so shared concurrent use is data-race free and, with no "
    "writes, deterministic; (4) the interprocedural write set of both operations contains nothing rooted at self; "
    "(5) the caller's nonce reaches Cipher::encrypt/decrypt unchanged with empty associated data; (6) the stateful and "
    "stateless cipher-state twins make the same Cipher call except for the nonce operand (self.n vs parameter), the "
    "same guards protect it, and From<CipherState> moves cipher and has_key unchanged — so message n of a stateful "
    "sender equals the stateless message under nonce n (given C05: n counts 0,1,2,…). Round-trip correctness itself "
    "(decrypt inverts encrypt) rests on the external AEAD crates."
)

STATE_TYPES = ["handshakestate::HandshakeState", "transportstate::TransportState", "stateless_transportstate::StatelessTransportState"]


def deep_freeze(F, ti, seen=None, path=""):
    """list of (path, type string) of non-Freeze components reachable from type index ti"""
    if seen is None:
        seen = set()
    if ti in seen:
        return []
    seen.add(ti)
    t = F.types[ti]
    bad = []
    k = t["k"]
    if t.get("freeze") is False and k not in ("dyn",):
        bad.append((path, t["s"]))
    if k in ("ref", "refmut", "ptr", "ptrmut", "slice", "array"):
        bad += deep_freeze(F, t["inner"], seen, path + "/*")
    elif k == "tuple":
        for i, e in enumerate(t["elems"]):
            bad += deep_freeze(F, e, seen, path + "/%d" % i)
    elif k == "adt":
        for a in t.get("args", []):
            bad += deep_freeze(F, a, seen, path + "<>")
        for f in t.get("fields", []):
            bad += deep_freeze(F, f["ty"], seen, path + "." + f["name"])
        if t.get("local") and "fields" not in t:
            adt = F.adts.get(t["adt"])
            if adt:
                for v in adt["variants"]:
                    for f in v["fields"]:
                        bad += deep_freeze(F, f["ty"], seen, path + "." + f["name"])
    elif k == "dyn":
        tr = t.get("trait")
        for im in F.impls:
            if im.get("trait") == tr:
                bad += deep_freeze(F, im["self_ty"], seen, path + "/impl " + im["self_s"].split("::")[-1])
    return bad


def run(ctx):
    ctx.rule("shared-receiver", "stateless read/write take &self")
    ctx.rule("deep-freeze", "every type reachable from the stateless state (incl. all local Cipher impls behind dyn) is Freeze")
    ctx.rule("no-unsafe", "the crate contains no unsafe block or unsafe fn")
    ctx.rule("send-sync", "the public state types are Send + Sync")
    ctx.rule("no-self-writes", "write set of stateless read/write contains nothing rooted at self")
    ctx.rule("nonce-passthrough", "the nonce parameter reaches Cipher::encrypt/decrypt unchanged; AD is empty")
    ctx.rule("twin-equality", "stateful and stateless cipher-state twins make the same cipher call except for the nonce operand; conversion moves cipher/has_key")
    ctx.rule("role-index", "stateless read/write use the key index the role table prescribes")
    ctx.trust("rustc type checker and trait solver (Freeze/Send/Sync answers), MIR construction; snowfacts")
    ctx.assume("foreign Cipher implementations obey the trait contract (&self methods do not mutate observable state)")
    ctx.rule("type-witness", "compile_fail doc-test witnesses with compiling twins (cargo +nightly test --doc)")
    from .. import witness
    witness.check(ctx, {"SendSync", "SharedUse"}, floor=2)
    ctx.rule("limit-exact", "stateless read/write length limits are exactly 65535 / 65535-16 (what can be written can be read back)")
    for cfg in ctx.cfgs:
        F = ctx.facts[cfg]
        E = ctx.eff(cfg)
        ST = "stateless_transportstate::StatelessTransportState"
        for op in ("read_message", "write_message"):
            fn = F.one_fn("%s::%s" % (ST, op))
            t = fn.local_ty(1)
            ok = t["k"] == "ref"
            ctx.ob("shared-receiver", op, ok, "%s takes &self" % op if ok else "%s takes %s" % (op, t["s"]), where(fn), cfg)
            sm = E.sums[fn.path]
            sp = self_paths(sm.w_ok | sm.w_err, 0)
            ctx.ob("no-self-writes", op, not sp, "nothing rooted at self is written" if not sp else "may write self.%s" % ", self.".join(sp), where(fn), cfg)
        adt = F.adt(ST)
        bad = deep_freeze(F, adt["ty"])
        ctx.ob("deep-freeze", "StatelessTransportState", not bad,
               "all %d reachable component types are Freeze" % count_types(F, adt["ty"]) if not bad else "interior mutability reachable at %s: %s" % bad[0],
               "%s:%d" % (adt["span"]["f"], adt["span"]["l"]), cfg)
        # every local Cipher impl individually (the objects behind Box<dyn Cipher>)
        n_impl = 0
        for im in F.impls:
            if im.get("trait") == F.crate + "::types::Cipher":
                n_impl += 1
                b2 = deep_freeze(F, im["self_ty"])
                ctx.ob("deep-freeze", "impl Cipher for " + im["self_s"].split("::")[-2] + "::" + im["self_s"].split("::")[-1], not b2,
                       "%s is Freeze" % im["self_s"] if not b2 else "%s has interior mutability at %s (%s)" % (im["self_s"], b2[0][0], b2[0][1]),
                       "%s:%d" % (im["span"]["f"], im["span"]["l"]), cfg)
        ctx.floor("deep-freeze", n_impl, 1, cfg)
        # unsafe
        ub = sum(b["hir"].get("unsafe_blocks", 0) for b in F.bodies.values() if "hir" in b)
        uf = [p for p, b in F.bodies.items() if b.get("unsafe_fn")]
        ctx.ob("no-unsafe", "crate", ub == 0 and not uf, "no unsafe blocks / unsafe fns in %d bodies" % len(F.bodies) if ub == 0 and not uf else "%d unsafe blocks, unsafe fns: %s" % (ub, uf[:3]), None, cfg)
        for tyn in STATE_TYPES:
            a = F.adt(tyn)
            ok = a.get("send") is True and a.get("sync") is True
            ctx.ob("send-sync", tyn.split("::")[-1], ok, "%s: Send + Sync" % tyn.split("::")[-1] if ok else "%s: Send=%s Sync=%s" % (tyn.split("::")[-1], a.get("send"), a.get("sync")), "%s:%d" % (a["span"]["f"], a["span"]["l"]), cfg)
        passthrough(ctx, cfg)
        twins(ctx, cfg)
        n = roles.check_transport_roles(ctx, cfg, ops_filter={"read_message", "write_message"}, kinds=("stateless",))
        ctx.floor("role-index", n, 4, cfg)
        # every message the stateless writer can produce (payload <= 65519) must be readable by the stateless reader:
        # the two length limits are exactly those of the specification
        from .C14 import limit_exact
        limit_exact(ctx, cfg, only="stateless_transportstate::")


def count_types(F, ti):
    seen = set()
    deep_freeze(F, ti, seen)
    return len(seen)


def empty_slice(fn, pts, op):
    from .C15 import promoted_const_array
    v = pts._val_pts(op) or set()
    for (root, proj) in v:
        if root[0] == "promoted":
            pa = promoted_const_array(fn, root[1])
            if pa is not None and pa[0] == 0:
                return True
        if root[0] == "loc":
            ty = fn.local_ty(root[1])
            if ty["k"] == "array" and ty.get("len") == 0:
                return True
    return False


def passthrough(ctx, cfg):
    F = ctx.facts[cfg]
    E = ctx.eff(cfg)
    SC = "cipherstate::StatelessCipherState"
    n = 0
    for (fn, bi, t, kind) in cipher_calls(F):
        if SC not in fn.path:
            continue
        R = ctx.guards(cfg, fn).R
        e = strip_bb(R.op(t["args"][1]))
        ok = e == ("arg", 2)
        n += 1
        ctx.ob("nonce-passthrough", "%s:%s" % (short(fn.path), kind), ok, "Cipher::%s receives the nonce parameter" % kind if ok else "Cipher::%s receives %s, not the caller's nonce" % (kind, show(e, fn)), where(fn, t), cfg)
    # encrypt/decrypt wrappers: nonce param + empty AD
    for op, inner in (("encrypt", "encrypt_ad"), ("decrypt", "decrypt_ad")):
        fn = F.one_fn("%s::%s" % (SC, op))
        R = ctx.guards(cfg, fn).R
        pts = E.pts[fn.path]
        cs = [(b, t) for b, t in fn.calls() if (t["callee"].get("def") or "").endswith("%s::%s" % (SC.split("::")[-1], inner))]
        ok = len(cs) == 1 and strip_bb(R.op(cs[0][1]["args"][1])) == ("arg", 2) and empty_slice(fn, pts, cs[0][1]["args"][2])
        n += 1
        ctx.ob("nonce-passthrough", "%s" % short(fn.path), ok, "%s forwards the nonce with empty associated data" % op if ok else "%s does not forward (nonce, empty AD) to %s" % (op, inner), where(fn), cfg)
    # transport level
    ST = "stateless_transportstate::StatelessTransportState"
    for op, inner in (("write_message", "encrypt"), ("read_message", "decrypt")):
        fn = F.one_fn("%s::%s" % (ST, op))
        R = ctx.guards(cfg, fn).R
        cs = [(b, t) for b, t in fn.calls() if (t["callee"].get("def") or "").endswith("StatelessCipherState::" + inner)]
        ok = len(cs) == 1 and strip_bb(R.op(cs[0][1]["args"][1])) == ("arg", 2) and strip_bb(R.op(cs[0][1]["args"][2])) == ("arg", 3) and strip_bb(R.op(cs[0][1]["args"][3])) == ("arg", 4)
        n += 1
        ctx.ob("nonce-passthrough", "StatelessTransportState::" + op, ok, "%s hands (nonce, whole input, whole output buffer) to the cipher state" % op if ok else "%s does not pass its nonce/input/output parameters unchanged" % op, where(fn), cfg)
    ctx.floor("nonce-passthrough", n, 6, cfg)


def norm_args(fn, e, mapping):
    if isinstance(e, tuple):
        if e and e[0] == "arg":
            return ("arg", mapping.get(e[1], e[1]))
        if e and e[0] in ("place", "ref") and len(e) == 2 and isinstance(e[1], frozenset):
            out = set()
            for (root, proj) in e[1]:
                if root[0] == "ext":
                    root = ("ext", mapping.get(root[1], root[1]))
                out.add((root, tuple(x for x in proj if x[0] in ("f", "[]"))))
            return (e[0], frozenset(out))
        return tuple(norm_args(fn, x, mapping) if isinstance(x, tuple) else x for x in e)
    return e


def twins(ctx, cfg):
    F = ctx.facts[cfg]
    E = ctx.eff(cfg)
    n = 0
    for op, kind in (("encrypt_ad", "encrypt"), ("decrypt_ad", "decrypt")):
        a = F.one_fn("cipherstate::CipherState::" + op)
        b = F.one_fn("cipherstate::StatelessCipherState::" + op)
        # parameter roles: stateful (self, authtext, x, out) ; stateless (self, nonce, authtext, x, out)
        ma = {1: "self", 2: "ad", 3: "in", 4: "out"}
        mb = {1: "self", 2: "nonce", 3: "ad", 4: "in", 5: "out"}
        ca = [(bb, t) for (f2, bb, t, k) in cipher_calls(F) if f2.path == a.path]
        cb = [(bb, t) for (f2, bb, t, k) in cipher_calls(F) if f2.path == b.path]
        if len(ca) != 1 or len(cb) != 1:
            ctx.ob("twin-equality", op, False, "expected exactly one Cipher::%s call in each twin" % kind, where(a), cfg)
            continue
        Ra, Rb = ctx.guards(cfg, a).R, ctx.guards(cfg, b).R
        ea = [norm_args(a, strip_bb(Ra.op(x)), ma) for x in ca[0][1]["args"]]
        eb = [norm_args(b, strip_bb(Rb.op(x)), mb) for x in cb[0][1]["args"]]
        same_rest = ea[2:] == eb[2:]
        recv_ok = both_cipher_field(ea[0]) and both_cipher_field(eb[0])
        n_ok = is_self_n(ea[1]) and eb[1] == ("arg", "nonce")
        ok = same_rest and recv_ok and n_ok
        n += 1
        ctx.ob("twin-equality", op + ":call", ok,
               "both twins call Cipher::%s(self.cipher, <nonce>, ad, input, out); nonce is self.n vs the parameter" % kind if ok
               else "the twins' Cipher::%s calls differ: stateful %s / stateless %s" % (kind, [show(x) for x in ea], [show(x) for x in eb]), where(b, cb[0][1]), cfg)
        # same guards before the call (modulo nonce source)
        Ga, Gb = ctx.guards(cfg, a), ctx.guards(cfg, b)
        fa = {norm_fact(a, f, ma) for f in Ga.before_term(ca[0][0])}
        fb = {norm_fact(b, f, mb) for f in Gb.before_term(cb[0][0])}
        fa = {f for f in fa if f is not None}
        fb = {f for f in fb if f is not None}
        ok2 = fa == fb
        n += 1
        ctx.ob("twin-equality", op + ":guards", ok2, "both twins establish the same %d guard facts before the cipher call" % len(fa) if ok2
               else "guard facts differ: only stateful %s ; only stateless %s" % (sorted(map(str, fa - fb))[:2], sorted(map(str, fb - fa))[:2]), where(b), cfg)
    # conversion
    fn = None
    for p in F.bodies:
        if p.endswith("::from") and "StatelessCipherState" in p and "CipherState>" in p:
            fn = F.fn(p)
    if fn is None:
        ctx.inconcl("From<CipherState> for StatelessCipherState not found")
    else:
        R = ctx.guards(cfg, fn).R
        e = strip_bb(R.local(0))
        ok = e[0] == "agg" and len(e[3]) == 2 and all(x[0] == "place" or x[0] == "field" for x in e[3])
        names = []
        for x in e[3] if e[0] == "agg" else []:
            if x[0] == "place":
                names.append({fields_only(p[1]) for p in x[1]})
            elif x[0] == "field":
                names.append({(x[2],)})
        ok = ok and names == [{("cipher",)}, {("has_key",)}]
        n += 1
        ctx.ob("twin-equality", "From<CipherState>", ok, "conversion moves cipher and has_key unchanged" if ok else "conversion builds %s" % show(e, fn), where(fn), cfg)
    ctx.floor("twin-equality", n, 5, cfg)


def both_cipher_field(e):
    while e[0] == "field":
        e = e[1]
    return e[0] in ("ref", "place") and bool(e[1]) and all(tuple(x[1] for x in p[1] if x[0] == "f")[:1] == ("cipher",) for p in e[1])


def is_self_n(e):
    return e[0] == "place" and {tuple(x[1] for x in p[1] if x[0] == "f") for p in e[1]} == {("n",)}


def norm_fact(fn, f, mapping):
    """normalise guard facts for twin comparison; the nonce validation is compared as 'validate(<nonce>)'"""
    if f[0] == "hist":
        return None
    g = norm_args(fn, f, mapping)

    def repl(e):
        if isinstance(e, tuple):
            if is_self_n(e) if (e and e[0] == "place" and len(e) == 2 and isinstance(e[1], frozenset)) else False:
                return ("NONCE",)
            if e == ("arg", "nonce"):
                return ("NONCE",)
            return tuple(repl(x) if isinstance(x, tuple) else x for x in e)
        return e
    return repl(g)
