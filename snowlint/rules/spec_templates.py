"""Shared driver: run the §5 dataflow templates of spec/processing.py against the crate."""
from ..template import check_template


def run_templates(ctx, cfg, names=None, rule="dataflow-template"):
    from spec import processing as SP
    F = ctx.facts[cfg]
    n = 0
    for name, tpl in SP.TEMPLATES.items():
        if names is not None and not any(name.endswith(x) for x in names):
            continue
        fn = F.one_fn(name)
        n += 1
        check_template(ctx, cfg, fn, tpl, rule, name.split("::", 1)[1], set(SP.TEMPLATE_CALLS),
                       ignore_assign=lambda ch: ch.split(".")[-1] not in SP.TRACKED_FIELDS)
    return n
