"""C17 — the reported remote static key is the peer's true, complete public key."""
from ..expr import strip_bb, show
from ..flow import fields_only
from . import nonce
from .common import where, short, calls_to

LEVEL = "other"
EXPLANATION = (
    "Decided: in all three get_remote_static getters the returned slice is rs[..L] gated by the toggle, and L derives "
    "(through field initialisers and local getters, followed interprocedurally) from the Dh::pub_len trait method — "
    "not from dh_len, whose value differs for DHs whose shared secret is shorter than the public key (P-256: 32 vs 65); "
    "rs is written only by Builder::build (copy of the supplied key) and by the `s` token arm of the handshake read, "
    "enabled there only after the decryption succeeded; both conversions move rs unchanged; Toggle::get returns the "
    "buffer iff enabled. Not decided: that the decrypted bytes are the peer's key (AEAD/DH strength)."
)


def leaf_sources(ctx, cfg, fn, e, depth=0):
    """trait-method leaves a value derives from, following local getters and field initialisers"""
    F = ctx.facts[cfg]
    E = ctx.eff(cfg)
    if depth > 6:
        return {"?"}
    if e[0] == "call":
        d = e[1] or ""
        if d.startswith(F.crate + "::types::"):
            return {d.split("::")[-2] + "::" + d.split("::")[-1]}
        r = e[2] or d
        g = F.fn(r)
        if g is not None:
            R = ctx.guards(cfg, g).R
            return leaf_sources(ctx, cfg, g, strip_bb(R.local(0)), depth + 1)
        return {"call " + d}
    if e[0] in ("place", "field"):
        # a field of self (possibly through a closure capture): look at its initialisers crate-wide
        chains = set()
        if e[0] == "place":
            for (root, proj) in e[1]:
                ch = fields_only(proj)
                if ch:
                    chains.add(ch[-1])
        else:
            chains.add(e[2])
        out = set()
        for fieldname in chains:
            for adt in list(F.adts):
                a = F.adts[adt]
                if not any(f["name"] == fieldname for v in a["variants"] for f in v["fields"]):
                    continue
                if owner_adt(F, fn) and owner_adt(F, fn) != adt:
                    continue
                for (g, bi, s, val, how) in nonce.field_writes(ctx, cfg, adt, fieldname):
                    out |= leaf_sources(ctx, cfg, g, val, depth + 1)
        return out or {"field " + "/".join(sorted(chains))}
    if e[0] in ("const",):
        return {"const %d" % e[1]}
    if e[0] in ("local", "arg"):
        return {show(e, fn)}
    if e[0] in ("cast",):
        return leaf_sources(ctx, cfg, fn, e[1], depth + 1)
    return {e[0]}


def owner_adt(F, fn):
    st = fn.body.get("self_ty")
    if st is None and fn.body.get("parent"):
        pb = F.bodies.get(fn.body["parent"])
        st = pb.get("self_ty") if pb else None
    if st is None:
        return None
    for p in F.adts:
        if p.endswith("::" + st) or p == F.crate + "::" + st:
            return p
    return None


def getter_slice_len(ctx, cfg, fn):
    """find, in fn or the closures it creates, the Index(rs, RangeTo{L}) producing the returned slice; return (holder fn, L)"""
    F = ctx.facts[cfg]
    cands = [fn]
    for bi, t in fn.calls():
        c = t["callee"].get("closure")
        if c and F.fn(c):
            cands.append(F.fn(c))
    # closures passed as arguments (Option::map(closure))
    for bi, b in enumerate(fn.blocks):
        for s in b["stmts"]:
            if s["k"] == "assign" and s["rv"]["k"] == "aggregate" and s["rv"].get("agg") == "closure":
                g = F.fn(s["rv"]["def"])
                if g is not None and g not in cands:
                    cands.append(g)
    for g in cands:
        R = ctx.guards(cfg, g).R
        for bi, t in g.calls():
            if (t["callee"].get("def") or "").endswith("Index::index"):
                rng = strip_bb(R.op(t["args"][1]))
                if rng[0] == "agg" and rng[1] and rng[1].endswith("RangeTo"):
                    return g, rng[3][0], t
    return None, None, None


def run(ctx):
    ctx.rule("getter-length", "get_remote_static slices rs with a length that derives from Dh::pub_len")
    ctx.rule("getter-gated", "get_remote_static goes through Toggle::get (None unless enabled)")
    ctx.rule("rs-writers", "rs is written only by the builder and the `s` read arm; enabled only after successful decryption")
    ctx.rule("rs-moved", "both conversions move rs unchanged")
    ctx.trust("rustc MIR; snowfacts")
    ctx.rule("toggle-disable", "a key toggle is switched off only where that same toggle was observed off")
    for cfg in ctx.cfgs:
        F = ctx.facts[cfg]
        E = ctx.eff(cfg)
        from . import errpath
        errpath.check_toggle_disable(ctx, cfg)
        n = 0
        for ty in ("handshakestate::HandshakeState", "transportstate::TransportState", "stateless_transportstate::StatelessTransportState"):
            fn = F.one_fn(ty + "::get_remote_static")
            g, L, t = getter_slice_len(ctx, cfg, fn)
            n += 1
            key = ty.split("::")[-1]
            if g is None:
                ctx.ob("getter-length", key, False, "no rs[..L] slice found in get_remote_static", where(fn), cfg)
                continue
            leaves = leaf_sources(ctx, cfg, g, L)
            ok = leaves == {"Dh::pub_len"}
            ctx.ob("getter-length", key, ok,
                   "slice length derives from Dh::pub_len" if ok else "slice length derives from %s; the public-key length is Dh::pub_len (P-256: pub_len 65, dh_len 32)" % sorted(leaves),
                   where(g, t), cfg)
            # gated by Toggle::get
            gets = [t2 for b2, t2 in fn.calls() if (t2["callee"].get("def") or "").endswith("Toggle::<T>::get")]
            okg = len(gets) == 1 and E._arg_paths(E.pts[fn.path], gets[0]["args"][0]) == {(0, ("rs",))}
            ctx.ob("getter-gated", key, okg, "value comes from self.rs.get()" if okg else "getter does not go through self.rs.get()", where(fn), cfg)
        ctx.floor("getter-length", n, 3, cfg)
        # Toggle::get: Some(&inner) iff on
        tg = F.one_fn("utils::Toggle::<T>::get")
        G = ctx.guards(cfg, tg)
        oksome = oknone = False
        for bi, b in enumerate(tg.blocks):
            for s in b["stmts"]:
                if s["k"] == "assign" and s["place"]["local"] == 0 and s["rv"]["k"] == "aggregate":
                    facts = G.at_entry(bi)
                    on = [f for f in facts if f[0] == "bool" and f[1][0] == "place" and {fields_only(p[1]) for p in f[1][1]} == {("on",)}]
                    if s["rv"]["variant_name"] == "Some" and on and on[0][2] is True:
                        e = strip_bb(G.R.op(s["rv"]["ops"][0]))
                        oksome = e[0] == "ref" and {fields_only(p[1]) for p in e[1]} == {("inner",)}
                    if s["rv"]["variant_name"] == "None" and on and on[0][2] is False:
                        oknone = True
        # equivalent spelling: self.on.then_some(&self.inner)
        for bi, t in tg.calls():
            if (t["callee"].get("def") or "").endswith("bool>::then_some") and t["dest"]["local"] == 0 and not t["dest"]["proj"] and len(t["args"]) == 2:
                c = strip_bb(G.R.op(t["args"][0]))
                v = strip_bb(G.R.op(t["args"][1]))
                if c[0] == "place" and {fields_only(p[1]) for p in c[1]} == {("on",)} and v[0] == "ref" and {fields_only(p[1]) for p in v[1]} == {("inner",)} \
                        and len(tg.defs().get(0, [])) == 1:
                    oksome = oknone = True
        ctx.ob("getter-gated", "Toggle::get", oksome and oknone, "Toggle::get returns Some(&inner) iff on" if oksome and oknone else "Toggle::get does not return Some(&inner) exactly when on", where(tg), cfg)
        # writers of rs among HandshakeState's &mut API
        cnt = 0
        for p, b in F.bodies.items():
            if b.get("self_ty") == "handshakestate::HandshakeState" and "mir" in b and b.get("kind") == "AssocFn":
                sm = E.sums[p]
                wr = [ch for (a, ch) in sm.w_ok | sm.w_err if a == 0 and ch[:1] == ("rs",)]
                fn2 = F.fn(p)
                if fn2.argc >= 1 and fn2.local_ty(1)["k"] == "refmut":
                    cnt += 1
                    allowed = p.endswith("::read_message") or p.endswith("::_read_message")
                    ctx.ob("rs-writers", short(p), (not wr) or allowed,
                           ("writes rs (the `s` read arm)" if wr else "does not write rs") if (not wr) or allowed else "%s may write self.rs" % short(p), where(fn2), cfg)
        ctx.floor("rs-writers", cnt, 4, cfg)
        # inside _read_message: rs writes only under the S token arm; enable after decrypt ok
        fn = F.one_fn("handshakestate::HandshakeState::_read_message")
        G = ctx.guards(cfg, fn)
        pts = E.pts[fn.path]
        tok = F.adt("params::patterns::Token")
        s_idx = [v["idx"] for v in tok["variants"] if v["name"] == "S"][0]
        bad = []
        n_w = 0
        dec_blocks = []
        en_blocks = []
        for bi in sorted(fn.reachable()):
            ext, locs = G._block_writes(bi)
            if any(r == ("ext", 1) and ch[:1] == ("rs",) for (r, ch) in ext):
                n_w += 1
                facts = G.at_entry(bi)
                if not any(f[0] == "variant" and f[2] == s_idx for f in facts):
                    bad.append(bi)
                t = fn.blocks[bi]["term"]
                if t["k"] == "call":
                    if (t["callee"].get("def") or "").endswith("decrypt_and_mix_hash"):
                        dec_blocks.append(bi)
                    if (t["callee"].get("def") or "").endswith("Toggle::<T>::enable"):
                        en_blocks.append(bi)
        ctx.ob("rs-writers", "_read_message:s-arm-only", not bad and n_w >= 2,
               "rs is written (%d sites) only while processing an `s` token" % n_w if not bad and n_w >= 2 else "rs is written outside the `s` token arm (bb%s)" % bad, where(fn), cfg)
        ok_en = bool(en_blocks) and bool(dec_blocks) and all(any(("hist", "ok", d) in G.at_entry(e) for d in dec_blocks) for e in en_blocks)
        ctx.ob("rs-writers", "_read_message:enable-after-decrypt", ok_en, "rs is enabled only after decrypt_and_mix_hash returned Ok" if ok_en else "rs can be enabled without a successful decryption of the `s` field", where(fn), cfg)
        # the decrypted key lands in rs[..pub_len]
        for d in dec_blocks:
            t = fn.blocks[d]["term"]
            e = strip_bb(G.R.op(t["args"][2]))
            okd = e[0] == "call" and (e[1] or "").endswith("IndexMut::index_mut") and e[3][1][0] == "agg" and e[3][1][1].endswith("RangeTo")
            leaves = leaf_sources(ctx, cfg, fn, e[3][1][3][0]) if okd else set()
            ok = okd and leaves == {"Dh::pub_len"}
            ctx.ob("rs-writers", "_read_message:decrypt-target", ok, "`s` is decrypted into rs[..pub_len]" if ok else "`s` is not decrypted into rs[..pub_len] (length from %s)" % sorted(leaves), where(fn, t), cfg)
        # conversions move rs
        for ty in ("transportstate::TransportState", "stateless_transportstate::StatelessTransportState"):
            fn = F.one_fn(ty + "::new")
            R = ctx.guards(cfg, fn).R
            adt = F.crate + "::" + ty
            ws = [w for w in nonce.field_writes(ctx, cfg, adt, "rs")]
            ok = len(ws) == 1 and ws[0][4] == "init"
            if ok:
                v = ws[0][3]
                ok = (v[0] == "place" and all(r == ("loc", 1) and fields_only(p) == ("rs",) for r, p in v[1])) or (v[0] == "field" and v[2] == "rs" and v[1] == ("arg", 1))
            ctx.ob("rs-moved", ty.split("::")[-1], ok, "rs is moved from the handshake state unchanged" if ok else "rs of the transport state is not the handshake's rs", where(fn), cfg)
        # builder: rs_buf[..v.len()] = v ; Toggle::on iff Some
        fn = F.one_fn("builder::Builder::<'builder>::build")
        G = ctx.guards(cfg, fn)
        ons = [(b, t) for b, t in fn.calls() if (t["callee"].get("def") or "").endswith("Toggle::<T>::on") and "[u8;" in fn.local_ty_s(t["dest"]["local"])]
        offs = [(b, t) for b, t in fn.calls() if (t["callee"].get("def") or "").endswith("Toggle::<T>::off") and "[u8;" in fn.local_ty_s(t["dest"]["local"])]
        def rs_variant(b, want):
            for f in G.before_term(b):
                if f[0] == "variant" and f[1][0] == "place" and any(fields_only(p[1]) == ("rs",) for p in f[1][1]) and f[2] == want:
                    return True
            return False
        ok_on = any(rs_variant(b, 1) for b, t in ons)
        ok_off = any(rs_variant(b, 0) for b, t in offs)
        ctx.ob("rs-writers", "Builder::build:toggle", ok_on and ok_off, "rs starts enabled iff a remote key was supplied" if ok_on and ok_off else "builder does not enable rs exactly when remote_public_key was given", where(fn), cfg)
