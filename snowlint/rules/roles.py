"""Transport key-index-by-role table extracted from the CFG of the role-dispatching functions."""
from ..flow import fields_only
from .common import where, short


def _indices_in_block(ctx, cfg, fn, bi):
    """cipherstates indices touched by block bi (via direct borrows or via callee write summaries)"""
    E = ctx.eff(cfg)
    pts = E.pts[fn.path]
    b = fn.blocks[bi]
    found = set()

    def idx_of(ch):
        for i, x in enumerate(ch):
            if x == "cipherstates" and i + 1 < len(ch) and ch[i + 1] in ("0", "1"):
                return int(ch[i + 1])
        return None

    def scan_chains(chs):
        """a use through a reference that may point at either index is attributed to the (role-guarded)
        blocks that created the reference, not to the merge block that uses it"""
        idxs = {idx_of(ch) for ch in chs} - {None}
        if len(idxs) == 1:
            found.update(idxs)

    def scan_chain(ch):
        scan_chains([ch])

    for s in b["stmts"]:
        if s["k"] == "assign":
            rv = s["rv"]
            places = []
            if rv["k"] in ("ref", "rawptr", "discr", "copyforderef"):
                places.append(rv["place"])
            elif rv["k"] == "use" and rv["op"]["k"] in ("copy", "move"):
                places.append(rv["op"]["place"])
            places.append(s["place"])
            for pl in places:
                if pl["proj"]:
                    scan_chains([fields_only(proj) for root, proj in pts.resolve_place(pl) if root[0] == "ext" and root[1] == 1])
    t = b["term"]
    if t["k"] == "call":
        # callee summaries (CipherStates::rekey_initiator etc.)
        ok, err, _ = E.call_writes(fn, pts, t)
        scan_chains([ch for (ai, ch) in ok | err if ai == 0])
        for a in t["args"]:
            if a["k"] in ("copy", "move") and a["place"]["proj"]:
                scan_chains([fields_only(proj) for root, proj in pts.resolve_place(a["place"]) if root[0] == "ext" and root[1] == 1])
    return found


def role_table(ctx, cfg, fn):
    """{(initiator_truth or None): set(indices)} for one function taking self with `initiator`"""
    G = ctx.guards(cfg, fn)
    table = {}
    for bi in sorted(fn.reachable()):
        idx = _indices_in_block(ctx, cfg, fn, bi)
        if not idx:
            continue
        facts = G.at_entry(bi)
        role = None
        for f in facts:
            if f[0] == "bool" and f[1][0] == "place":
                chains = {fields_only(p[1]) for p in f[1][1]}
                if chains == {("initiator",)}:
                    role = f[2]
        table.setdefault(role, set()).update(idx)
    return table


def check_transport_roles(ctx, cfg, ops_filter=None, rule="role-index", kinds=("stateful", "stateless")):
    """compare every role-dispatching transport function with spec/roles.py; returns #entries"""
    from spec import roles as SR
    F = ctx.facts[cfg]
    n = 0
    for kind, tyname, ops in (("stateful", "transportstate::TransportState", SR.STATEFUL_OPS), ("stateless", "stateless_transportstate::StatelessTransportState", SR.STATELESS_OPS)):
        if kind not in kinds:
            continue
        for op in ops:
            if ops_filter and op not in ops_filter:
                continue
            fn = F.fn("%s::%s::%s" % (F.crate, tyname, op))
            if fn is None:
                ctx.inconcl("anchor missing: %s::%s" % (tyname, op))
                continue
            tab = role_table(ctx, cfg, fn)
            want = SR.TRANSPORT_INDEX[op]
            for truth, w in ((True, want[0]), (False, want[1])):
                got = tab.get(truth, set()) | tab.get(None, set())
                ok = got == {w}
                n += 1
                ctx.ob(rule, "%s::%s:initiator=%s" % (tyname.split("::")[-1], op, str(truth).lower()), ok,
                       "%s uses cipherstates.%d when initiator=%s" % (op, w, truth) if ok
                       else "%s uses cipherstates.%s when initiator=%s; the specification requires index %d" % (op, sorted(got), truth, w),
                       where(fn), cfg)
        for op, w in SR.TRANSPORT_FIXED.items():
            if ops_filter and op not in ops_filter:
                continue
            fn = F.fn("%s::%s::%s" % (F.crate, tyname, op))
            if fn is None:
                ctx.inconcl("anchor missing: %s::%s" % (tyname, op))
                continue
            tab = role_table(ctx, cfg, fn)
            got = set().union(*tab.values()) if tab else set()
            ok = got == {w}
            n += 1
            ctx.ob(rule, "%s::%s" % (tyname.split("::")[-1], op), ok,
                   "%s re-keys cipherstates.%d" % (op, w) if ok else "%s touches cipherstates.%s, expected index %d" % (op, sorted(got), w),
                   where(fn), cfg)
    return n
