"""C03 — handshake transcript integrity."""
from . import tokens, coverage, aead, spec_templates, errpath
from .common import where, short, ret_ok_sites

LEVEL = "other"
EXPLANATION = (
    "That an altered message *is* rejected rests on hash/AEAD strength; decided are the necessary conditions in snow's own "
    "code: (coverage) in the handshake read every byte of the incoming message is consumed exactly once — the cursor starts "
    "at the whole message, advances by exactly what was just consumed, each consumed slice flows into re + MixHash(re) or "
    "into the data argument of DecryptAndHash, and the remainder is the DecryptAndHash'd payload; in the write every region "
    "written to the output is produced by copy(pubkey)+MixHash(pubkey) or by EncryptAndHash and the index advances by "
    "exactly that length (token traces + cursor discipline); (AD) the associated data of every handshake AEAD operation is "
    "h[..HASHLEN], passed unchanged through CipherState to Cipher::encrypt/decrypt and by every backend wrapper to the "
    "AEAD call; Encrypt/DecryptAndHash mix the ciphertext into h; (error discipline) every Result produced anywhere in the "
    "crate is propagated, matched or converted, never dropped or defaulted; (no payload on reject) the handshake read "
    "reaches Ok only on the Ok edge of the final DecryptAndHash."
)


def run(ctx):
    from spec import processing as SP
    ctx.rule("token-trace", "every token's processing hashes/mixes exactly what §5.3 prescribes (read and write)")
    ctx.rule("cursor-discipline", "input cursor / output index advance by exactly what was consumed / written")
    ctx.rule("dataflow-template", "h is the AD of EncryptAndHash/DecryptAndHash; ciphertext is mixed; CipherState forwards AD")
    ctx.rule("aead-operands", "every backend wrapper passes authtext as AD and the whole input to the AEAD call")
    ctx.rule("error-discipline", "no Result is dropped or defaulted anywhere in the crate")
    ctx.rule("ok-after-final-decrypt", "the handshake read returns Ok only after the final DecryptAndHash returned Ok")
    ctx.trust("rustc MIR; snowfacts; spec/processing.py")
    ctx.assume("collision resistance of the hash and unforgeability of the AEAD (not decided)")
    for cfg in ctx.cfgs:
        F = ctx.facts[cfg]
        n1, _ = tokens.compare(ctx, cfg, "handshakestate::HandshakeState::_write_message", SP.WRITE, SP.SEMANTIC, "token-trace")
        n2, tr = tokens.compare(ctx, cfg, "handshakestate::HandshakeState::_read_message", SP.READ, SP.SEMANTIC, "token-trace")
        ctx.floor("token-trace", n1 + n2, 10, cfg)
        ctx.floor("cursor-discipline", coverage.read_cursor(ctx, cfg) + coverage.write_cursor(ctx, cfg), 5, cfg)
        spec_templates.run_templates(ctx, cfg, names=("encrypt_and_mix_hash", "decrypt_and_mix_hash", "SymmetricState::mix_hash", "CipherState::encrypt_ad", "CipherState::decrypt_ad"))
        aead.check_wrappers(ctx, cfg, {"operands": 1})
        ctx.floor("error-discipline", coverage.error_discipline(ctx, cfg), 84 if cfg in ("A", "B", "C", "E") else 68, cfg)
        fn = F.one_fn("handshakestate::HandshakeState::_read_message")
        G = ctx.guards(cfg, fn)
        finals = [b for b, t in fn.calls() if (t["callee"].get("def") or "").endswith("SymmetricState::decrypt_and_mix_hash") and any(e[3] == b for e in tr.get("epilogue", []))]
        oks = ret_ok_sites(fn)
        ok = bool(finals) and bool(oks) and all(any(("hist", "ok", fb) in G.at_entry(ob) for fb in finals) for ob, s in oks)
        ctx.ob("ok-after-final-decrypt", "_read_message", ok, "Ok(..) is reachable only through the Ok edge of the payload's DecryptAndHash" if ok else "the handshake read can return Ok without the payload having authenticated", where(fn), cfg)
