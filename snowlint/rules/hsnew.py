"""DH operand table (HandshakeState::dh) and the context-binding prefix of HandshakeState::new."""
from ..expr import strip_bb, show
from ..flow import fields_only
from ..guards import decision_paths
from ..template import actual_events
from .common import where, short, calls_to


def dh_table(ctx, cfg):
    """{(token name, initiator bool): (local field, remote field)} extracted from HandshakeState::dh"""
    F = ctx.facts[cfg]
    E = ctx.eff(cfg)
    fn = F.one_fn("handshakestate::HandshakeState::dh")
    G = ctx.guards(cfg, fn)
    pts = E.pts[fn.path]
    dht = F.adt("params::patterns::DhToken")
    vnames = {v["idx"]: v["name"] for v in dht["variants"]}
    # blocks building the (dh, key) pair: tuple aggregate of two references into self
    pair_blocks = {}
    for bi, b in enumerate(fn.blocks):
        for s in b["stmts"]:
            if s["k"] == "assign" and s["rv"]["k"] == "aggregate" and s["rv"].get("agg") == "tuple" and len(s["rv"]["ops"]) == 2:
                chains = []
                for o in s["rv"]["ops"]:
                    v = pts._val_pts(o) or set()
                    ch = {fields_only(p) for r, p in v if r == ("ext", 1)}
                    chains.append(ch)
                if all(len(c) == 1 for c in chains):
                    pair_blocks[bi] = (next(iter(chains[0]))[0], next(iter(chains[1]))[0])
    table = {}
    amb = []
    paths = decision_paths(fn, G, 0, pair_blocks.keys())
    for tb, plist in paths.items():
        for facts in plist:
            tok = None
            role = None
            for f in facts:
                if f[0] == "variant" and f[1] == ("arg", 2):
                    tok = vnames.get(f[2])
                if f[0] == "bool" and f[1][0] == "call" and (f[1][1] or "").endswith("is_initiator"):
                    role = f[2]
                if f[0] == "bool" and f[1][0] == "place" and {fields_only(p[1]) for p in f[1][1]} == {("initiator",)}:
                    role = f[2]
            if tok is None:
                amb.append((tb, facts))
                continue
            roles = [role] if role is not None else [True, False]
            for r in roles:
                if (tok, r) in table and table[(tok, r)] != pair_blocks[tb]:
                    amb.append((tb, facts))
                table[(tok, r)] = pair_blocks[tb]
    return fn, table, amb


def check_dh_table(ctx, cfg, rule="dh-operands"):
    from spec import roles as SR
    fn, table, amb = dh_table(ctx, cfg)
    n = 0
    for (tok, role), want in sorted(SR.DH_OPERANDS.items()):
        got = table.get((tok, role))
        n += 1
        ctx.ob(rule, "%s:%s" % (tok.lower(), "initiator" if role else "responder"), got == want,
               "%s as %s: DH(%s, %s)" % (tok.lower(), "initiator" if role else "responder", want[0], want[1]) if got == want
               else "%s as %s computes DH(%s); the specification requires DH(%s, %s)" % (tok.lower(), "initiator" if role else "responder", ", ".join(got) if got else "nothing", want[0], want[1]),
               where(fn), cfg)
    ctx.ob(rule, "unambiguous", not amb, "token/role decision is a function" if not amb else "token/role decision not understood at bb%d" % amb[0][0], where(fn), cfg)
    # the selected pair is what the DH call uses: receiver from .0, public key from .1, output returned
    F = ctx.facts[cfg]
    E = ctx.eff(cfg)
    pts = E.pts[fn.path]
    calls = [(b, t) for b, t in fn.calls() if t["callee"].get("def") == F.crate + "::types::Dh::dh"]
    ok = False
    if len(calls) == 1:
        b, t = calls[0]
        recv = {fields_only(p)[0] for r, p in (pts._val_pts(t["args"][0]) or set()) if r == ("ext", 1)}
        key = {fields_only(p)[0] for r, p in (pts._val_pts(t["args"][1]) or set()) if r == ("ext", 1)}
        outv = {r for r, p in (pts._val_pts(t["args"][2]) or set())}
        ok = recv <= {"s", "e"} and bool(recv) and key <= {"rs", "re"} and bool(key) and all(r[0] == "loc" for r in outv)
    ctx.ob(rule, "call", ok, "the selected key pair feeds Dh::dh(local, remote, out)" if ok else "Dh::dh is not called with (selected local key, selected remote key)", where(fn), cfg)
    return n


def check_new(ctx, cfg, rule="context-binding"):
    """HandshakeState::new: initialize(params.name); mix_hash(prologue); pre-message keys by role, initiator's list first"""
    from spec import roles as SR
    from ..trace import Describer
    from ..contracts import Contracts
    F = ctx.facts[cfg]
    E = ctx.eff(cfg)
    fn = F.one_fn("handshakestate::HandshakeState::new")
    G = ctx.guards(cfg, fn)
    pts = E.pts[fn.path]
    evs = actual_events(ctx, cfg, fn, {"SymmetricState::initialize", "SymmetricState::mix_hash", "SymmetricState::mix_key", "SymmetricState::mix_key_and_hash", "SymmetricState::new"})
    calls = [e for e in evs if e[0] == "call"]
    # parameter -> field name, from the struct literal at the end
    fieldof = {}
    inv0 = {}
    for b in fn.blocks:
        for s in b["stmts"]:
            if s["k"] == "assign" and s["rv"]["k"] == "aggregate" and s["rv"].get("agg") == "adt" and s["rv"]["adt"].endswith("HandshakeState"):
                for nm, o in zip(s["rv"]["field_names"], s["rv"]["ops"]):
                    e = G.R.op(o)
                    if e[0] == "arg":
                        inv0[nm] = e[1]
                        fieldof.setdefault(e[1], nm)
    inv = dict(inv0)
    ok_map = all(k in inv for k in ("s", "e", "rs", "re", "initiator", "params"))
    ctx.ob(rule, "field-map", ok_map, "constructor stores its key arguments in the same-named fields" if ok_map else "constructor does not store s/e/rs/re/initiator/params parameters directly: %s" % sorted(inv), where(fn), cfg)
    if not ok_map:
        return
    P = lambda nm: "p%d" % inv[nm]
    ss_calls = [c for c in calls if c[1].startswith("SymmetricState::")]
    init = [c for c in ss_calls if c[1] == "SymmetricState::initialize"]
    ok_init = len(init) == 1 and init[0][2][1] == ("at", P("params") + ".name") and not init[0][3]
    ctx.ob(rule, "name", ok_init, "h is initialised from params.name (the verbatim protocol name)" if ok_init else "initialize() is not called exactly once with params.name: %s" % [c[2] for c in init], where(fn), cfg)
    mh = [c for c in ss_calls if c[1] == "SymmetricState::mix_hash"]
    prolog = [c for c in mh if c[2][1][0] == "param" and not c[3]]
    # which parameter is the prologue: the &[u8] parameter not stored in a field
    ok_pro = len(prolog) == 1 and init and fn.dominates(init[0][4], prolog[0][4])
    ctx.ob(rule, "prologue", ok_pro, "MixHash(prologue) follows InitializeSymmetric unconditionally" if ok_pro else "the prologue is not mixed into h exactly once after initialisation", where(fn), cfg)
    # no key-mixing in the constructor
    other = [c for c in ss_calls if c[1] in ("SymmetricState::mix_key", "SymmetricState::mix_key_and_hash")]
    ctx.ob(rule, "no-extra-mix", not other, "no MixKey in the constructor" if not other else "unexpected %s in the constructor" % other[0][1], where(fn), cfg)
    # pre-message loops
    tok = F.adt("params::patterns::Token")
    tnames = {v["idx"]: v["name"] for v in tok["variants"]}
    # selector assignments: X = &param under (variant token) facts
    sel = []  # (block, token name, param index)
    for bi, b in enumerate(fn.blocks):
        for s in b["stmts"]:
            if s["k"] == "assign" and not s["place"]["proj"] and s["rv"]["k"] in ("ref", "use") and len(fn.defs().get(s["place"]["local"], [])) > 1:
                if s["rv"]["k"] == "ref":
                    tg = pts.resolve_place(s["rv"]["place"])
                else:
                    # a reference held in a local (e.g. the by-reference argument of an inlined helper)
                    if s["rv"]["op"].get("k") not in ("copy", "move") or fn.local_ty(s["place"]["local"])["k"] not in ("ref", "refmut"):
                        continue
                    tg = pts._val_pts(s["rv"]["op"]) or set()
                params = {r[1] for r, p in tg if r[0] == "loc" and not p and 1 <= r[1] <= fn.argc}
                if len(params) != 1 or len(tg) != 1:
                    continue
                tv = [f for f in G.at_entry(bi) if f[0] == "variant" and f[2] in tnames]
                if tv:
                    sel.append((bi, tnames[tv[-1][2]] if len(tv) == 1 else None, next(iter(params)), s["place"]["local"]))
    loops = []
    for c in evs:
        pass
    # each key-mixing mix_hash: role guard, list iterated, and the selector arms in its loop body
    keymix = [c for c in mh if c not in prolog]
    n = 0
    seen = set()
    for c in keymix:
        role = c[3].get("other:('arg', %d)" % inv["initiator"])
        if role is None:
            role = c[3].get("initiator")
        # the loop: nearest dominating Iterator::next call
        nexts = [(b, t) for b, t in fn.calls() if (t["callee"].get("def") or "").endswith("Iterator::next") and fn.dominates(b, c[4])]
        if not nexts:
            ctx.ob(rule, "premsg:?", False, "pre-message mix_hash outside a loop", where(fn, c[5]), cfg)
            continue
        nb, nt = max(nexts, key=lambda x: len(fn.dominators()[x[0]]))
        D = Describer(fn, pts, Contracts(F).const_getters)
        it = D.R.init_expr([r[1] for r, p in (pts._val_pts(nt["args"][0]) or set()) if r[0] == "loc"][0])
        lst = "i" if "premsg_pattern_i" in repr(it) else "r" if "premsg_pattern_r" in repr(it) else "?"
        arms = [(tn, p) for (b, tn, p, x) in sel if fn.dominates(nb, b) and c[4] in fn.reachable(b, avoid={nb})]
        for (tn, p) in arms:
            want = SR.PREMSG_KEYS.get((role, lst, tn))
            got = fieldof.get(p)
            n += 1
            key = "premsg:%s:%s:%s" % ("initiator" if role else "responder", lst, tn)
            seen.add((role, lst, tn))
            ctx.ob(rule, key, got == want and want is not None,
                   "%s hashes %s for token %s of the %s's pre-message" % ("initiator" if role else "responder", got, tn.lower(), "initiator" if lst == "i" else "responder") if got == want
                   else "%s hashes %s for token %s of the %s's pre-message; the specification requires %s" % ("initiator" if role else "responder", got, tn.lower(), "initiator" if lst == "i" else "responder", want),
                   where(fn, c[5]), cfg)
        # value hashed: own key -> pubkey(); remote -> stored bytes [..pub_len]
        val = c[2][1]
        own = val[0] == "call" and val[1] == "Dh::pubkey"
        rem = val[0] == "slice" and val[2][0] == "to" and val[2][1][0] == "getter" and val[2][1][1] == "pub_len"
        ctx.ob(rule, "premsg-value:%s:%s" % ("initiator" if role else "responder", lst), own or rem,
               "the public key bytes (%s) are hashed" % ("pubkey()" if own else "stored key[..pub_len]") if own or rem else "pre-message hashes %s" % (val,), where(fn, c[5]), cfg)
    missing = set(SR.PREMSG_KEYS) - seen
    ctx.ob(rule, "premsg-complete", not missing, "all 8 (role, list, token) pre-message cases are handled" if not missing else "unhandled pre-message cases: %s" % sorted(missing), where(fn), cfg)
    # order: initiator's list before responder's list in each role
    for role in (True, False):
        li = [c for c in keymix if (c[3].get("other:('arg', %d)" % inv["initiator"]) is role)]
        order_ok = True
        i_blocks = []
        r_blocks = []
        for c in li:
            nexts = [(b, t) for b, t in fn.calls() if (t["callee"].get("def") or "").endswith("Iterator::next") and fn.dominates(b, c[4])]
            nb, nt = max(nexts, key=lambda x: len(fn.dominators()[x[0]]))
            D = Describer(fn, pts, Contracts(F).const_getters)
            it = D.R.init_expr([r[1] for r, p in (pts._val_pts(nt["args"][0]) or set()) if r[0] == "loc"][0])
            (i_blocks if "premsg_pattern_i" in repr(it) else r_blocks).append(nb)
        order_ok = bool(i_blocks) and bool(r_blocks) and all(fn.dominates(a, b) for a in i_blocks for b in r_blocks)
        ctx.ob(rule, "premsg-order:%s" % ("initiator" if role else "responder"), order_ok,
               "the initiator's pre-message keys are hashed before the responder's" if order_ok else "pre-message lists are not hashed initiator-first", where(fn), cfg)
    return n


def check_psk_sources(ctx, cfg, rule="psk-source"):
    """the key mixed for a psk token is the configured psks[n]; set_psk(location, key) stores the caller's key in
    psks[location] unconditionally (after validation); Builder copies its psks into the handshake state"""
    from ..template import actual_events
    F = ctx.facts[cfg]
    fn = F.one_fn("handshakestate::HandshakeState::set_psk")
    evs = actual_events(ctx, cfg, fn, {"copy_from_slice", "Option::insert", "Option::replace", "Option::get_or_insert", "Option::get_or_insert_with", "TryInto::try_into", "TryFrom::try_from"})

    def key_derived(d, depth=0):
        s = repr(d)
        if "('param', 3)" in s:
            return True
        # a local filled from the key parameter
        for e in evs:
            if e[0] == "call" and e[1] == "copy_from_slice" and repr(e[2][0]) in s and "('param', 3)" in repr(e[2][1]):
                return True
        return False

    stores = []
    for e in evs:
        if e[0] == "assign" and e[1] == "p1.psks" and "Some" in repr(e[2]) and key_derived(e[2]):
            stores.append(e)
        if e[0] == "call" and e[1] in ("Option::insert", "Option::replace") and e[2][0] == ("at", "p1.psks") and key_derived(e[2][1]):
            stores.append(e)
    cond = [e for e in stores if e[3]]
    weak = [e for e in evs if e[0] == "call" and e[1] in ("Option::get_or_insert", "Option::get_or_insert_with")]
    ok = len(stores) >= 1 and not cond and not weak
    ctx.ob(rule, "set_psk:stores", ok, "set_psk stores the caller's key in psks[location] whenever its arguments are valid" if ok
           else ("set_psk only fills an empty slot (get_or_insert): a later key is silently ignored" if weak else "set_psk does not unconditionally store the given key in psks[location]%s" % (" (stored under %s)" % cond[0][3] if cond else "")), where(fn), cfg)
