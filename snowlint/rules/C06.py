"""C06 — no (key, nonce) pair encrypts two different inputs."""
from ..expr import strip_bb, show
from ..flow import fields_only
from . import nonce, errpath
from .common import where, short, self_paths, calls_to, cipher_calls

LEVEL = "other"
EXPLANATION = (
    "A history property, decided through the structural conditions that make the history quantifier collapse: "
    "(1) counter discipline — every stateful Cipher::encrypt is followed on every path to return by n += 1 "
    "(post-dominance), a key change always sets n = 0, REKEY keeps n and uses only the reserved nonce; "
    "(2) fresh ephemeral — in the write `e` arm Dh::generate(e, rng) precedes every read of e's public key unless "
    "the testing-only fixed ephemeral is configured, that flag derives only from Builder.e_fixed, and every built-in "
    "Dh::generate draws the private key from rng.fill_bytes; (3) roll-back completeness — the error-path write set of "
    "the handshake entry points minus the provably restored paths lies in the allow-table (shared with C07), so a "
    "retry starts from the same (key, nonce); (4) no error exit of the handshake write follows the encryption of the "
    "caller-supplied payload, so a rolled-back call never encrypted data that a retry could replace (the static "
    "key re-encrypted by a retry is session-constant: `s` has no writer after construction). Not decided: the "
    "history quantifier itself beyond these conditions; foreign Cipher/Dh/Random implementations."
)


def run(ctx):
    ctx.rule("encrypt-then-increment", "every stateful Cipher::encrypt call is post-dominated by n += 1")
    ctx.rule("n-writers", "inventory of writes to CipherState.n")
    ctx.rule("n-set-callers", "key changes set n = 0; explicit nonce setter only on the receiving side")
    ctx.rule("nonce-guard", "cipher calls validated; REKEY sole user of reserved nonce")
    ctx.rule("fresh-ephemeral", "generate precedes pubkey in the write `e` arm unless fixed_ephemeral")
    ctx.rule("fixed-ephemeral-source", "fixed_ephemeral derives only from Builder.e_fixed.is_some()")
    ctx.rule("generate-uses-rng", "each built-in Dh::generate fills the private key from rng.fill_bytes and derives the public key")
    ctx.rule("errpath-write", "roll-back completeness (shared with C07)")
    ctx.rule("no-error-after-payload-encrypt", "no Err exit of the handshake write is reachable after the payload has been encrypted")
    ctx.rule("static-key-constant", "HandshakeState.s has no writer after construction")
    ctx.trust("rustc MIR; snowfacts; effect analysis (may-write over-approximation)")
    ctx.assume("foreign Cipher/Dh/Random implementations are outside the analysed program")
    ctx.rule("role-index", "set_receiving_nonce addresses the receiving cipher state and write_message the sending one, for both roles")
    for cfg in ctx.cfgs:
        F = ctx.facts[cfg]
        E = ctx.eff(cfg)
        vals = nonce.find_validators(ctx, cfg)
        g, r = nonce.check_guarded_cipher_calls(ctx, cfg, vals)
        ctx.floor("nonce-guard", g, 4, cfg)
        nonce.check_rekey_not_overridden(ctx, cfg)
        ctx.floor("n-writers", nonce.check_n_writers(ctx, cfg), 5, cfg)
        ctx.floor("n-set-callers", nonce.check_n_setter_callers(ctx, cfg), 5, cfg)
        # the application-controlled setter may only touch the *receiving* counter: were it to address the sending
        # cipher state (for some role or pattern), the next write would encrypt under an already used nonce
        from . import roles
        ctx.floor("role-index", roles.check_transport_roles(ctx, cfg, ops_filter={"set_receiving_nonce", "write_message"}, kinds=("stateful",)), 4, cfg)
        # (1) encrypt is always followed by the increment
        k = 0
        for (fn, bi, t, kind) in cipher_calls(F):
            if kind != "encrypt" or not fn.path.endswith("cipherstate::CipherState::encrypt_ad"):
                continue
            k += 1
            incs = [b for (f2, b, s, val, how) in nonce.n_field_writes(ctx, cfg) if f2.path == fn.path and how == "assign"]
            # every path from the call to a return passes through an increment block
            rets = set(fn.return_blocks())
            reach = fn.reachable(t["target"], avoid=set(incs)) if t["target"] is not None else set()
            ok = bool(incs) and not (reach & rets)
            ctx.ob("encrypt-then-increment", short(fn.path), ok,
                   "every path from Cipher::encrypt to return increments n" if ok else "a path from Cipher::encrypt to return skips n += 1 (the next message would reuse the nonce)", where(fn, t), cfg)
        ctx.floor("encrypt-then-increment", k, 1, cfg)
        fresh_ephemeral(ctx, cfg)
        n = errpath.check_errpath(ctx, cfg)
        ctx.floor("errpath-write", n, 6, cfg)
        no_error_after_payload(ctx, cfg)
        # s is session-constant
        hs = F.crate + "::handshakestate::HandshakeState"
        for op in ("write_message", "read_message", "set_psk"):
            fn = F.one_fn("handshakestate::HandshakeState::" + op)
            sm = E.sums[fn.path]
            bad = [ch for (a, ch) in sm.w_ok | sm.w_err if a == 0 and ch[:1] == ("s",)]
            ctx.ob("static-key-constant", short(fn.path), not bad,
                   "%s never writes self.s" % op if not bad else "%s may write self.%s" % (op, ".".join(bad[0])), where(fn), cfg)


def fresh_ephemeral(ctx, cfg):
    F = ctx.facts[cfg]
    E = ctx.eff(cfg)
    crate = F.crate
    fn = F.one_fn("handshakestate::HandshakeState::_write_message")
    G = ctx.guards(cfg, fn)
    pts = E.pts[fn.path]

    def recv_is_e(t):
        ps = E._arg_paths(pts, t["args"][0])
        return bool(ps) and all(ch[:1] == ("e",) for (a, ch) in ps if a == 0) and all(a == 0 for (a, ch) in ps)

    gens = [(b, t) for b, t in fn.calls() if t["callee"].get("def") == crate + "::types::Dh::generate" and recv_is_e(t)]
    pubs = [(b, t) for b, t in fn.calls() if t["callee"].get("def") == crate + "::types::Dh::pubkey" and recv_is_e(t)]
    ctx.floor("fresh-ephemeral", len(gens) + len(pubs), 2, cfg)
    if not gens or not pubs:
        ctx.ob("fresh-ephemeral", "_write_message:generate", False, "no Dh::generate call on self.e in the handshake write", where(fn), cfg)
        return
    for (gb, gt) in gens:
        # rng argument derives from self.rng
        rp = E._arg_paths(pts, gt["args"][1])
        ok_rng = bool(rp) and all(a == 0 and ch[:1] == ("rng",) for (a, ch) in rp)
        facts = G.before_term(gb)
        guard = [f for f in facts if f[0] == "bool" and f[1][0] == "place" and {fields_only(p[1]) for p in f[1][1]} == {("fixed_ephemeral",)}]
        ok_guard = len(guard) == 1 and guard[0][2] is False or not guard
        ctx.ob("fresh-ephemeral", "_write_message:generate-rng", ok_rng and ok_guard,
               "Dh::generate(self.e, self.rng) runs whenever fixed_ephemeral is false" if ok_rng and ok_guard else "Dh::generate is not fed from self.rng or is skipped under another condition", where(fn, gt), cfg)
    # every pubkey read of e is preceded by generate unless fixed_ephemeral
    genblocks = {b for b, _ in gens}
    for (pb, pt) in pubs:
        # find the fixed_ephemeral switch dominating the pubkey call
        sw = None
        for b in sorted(fn.dominators().get(pb, ())):
            tt = fn.blocks[b]["term"]
            if tt["k"] == "switch":
                e = strip_bb(G.R.op(tt["discr"]))
                if e[0] == "place" and {fields_only(p[1]) for p in e[1]} == {("fixed_ephemeral",)}:
                    sw = (b, tt)
                if e[0] == "un" and e[1] == "Not" and e[2][0] == "place" and {fields_only(p[1]) for p in e[2][1]} == {("fixed_ephemeral",)}:
                    sw = (b, tt)
        ok = False
        if sw is not None:
            b, tt = sw
            e = strip_bb(G.R.op(tt["discr"]))
            neg = e[0] == "un"
            # edge on which fixed_ephemeral is true
            true_targets = set()
            for v, tb in tt["targets"]:
                if (v != 0) != neg:
                    true_targets.add(tb)
            if [v for v, _ in tt["targets"]] == [0] and not neg:
                true_targets.add(tt["otherwise"])
            if [v for v, _ in tt["targets"]] == [0] and neg:
                true_targets = {tb for v, tb in tt["targets"]}
            reach = set()
            for s in fn.succs(b):
                if s in true_targets:
                    continue
                reach |= fn.reachable(s, avoid=genblocks | {b})
            ok = pb not in reach
        ctx.ob("fresh-ephemeral", "_write_message:pubkey-after-generate", ok,
               "e.pubkey() is read only after Dh::generate (or with the fixed test ephemeral)" if ok else "e.pubkey() can be read without a fresh Dh::generate — an ephemeral could be sent twice", where(fn, pt), cfg)
    # fixed_ephemeral provenance
    hs = crate + "::handshakestate::HandshakeState"
    ws = nonce.field_writes(ctx, cfg, hs, "fixed_ephemeral")
    for (f2, bi, s, val, how) in ws:
        ok = how == "init" and val[0] == "arg"
        ctx.ob("fixed-ephemeral-source", short(f2.path) + ":" + how, ok,
               "fixed_ephemeral is set at construction from a parameter" if ok else "fixed_ephemeral is written with %s" % show(val, f2), where(f2, s), cfg)
        if ok:
            argi = val[1] - 1
            for (cf, cb, ct) in calls_to(F, {f2.path}):
                R = ctx.guards(cfg, cf).R
                e = strip_bb(R.op(ct["args"][argi]))
                okc = e[0] == "call" and (e[1] or "").endswith("Option::<T>::is_some") and any("e_fixed" in fields_only(p[1]) for p in (e[3][0][1] if e[3][0][0] in ("ref", "place") else []))
                ctx.ob("fixed-ephemeral-source", short(cf.path) + ":arg", okc,
                       "HandshakeState::new receives Builder.e_fixed.is_some()" if okc else "fixed_ephemeral argument is %s, expected Builder.e_fixed.is_some()" % show(e, cf), where(cf, ct), cfg)
    ctx.floor("fixed-ephemeral-source", len(ws), 1, cfg)
    # built-in generate implementations
    impls = F.impls_of(crate + "::types::Dh::generate")
    for ip in impls:
        g = F.fn(ip)
        gp = E.pts[ip]
        fills = [(b, t) for b, t in g.calls() if (t["callee"].get("def") or "").endswith("RngCore::fill_bytes")]
        ok_fill = False
        buf_local = None
        for (b, t) in fills:
            rv = gp._val_pts(t["args"][0]) or set()
            bv = gp._val_pts(t["args"][1]) or set()
            if any(r == ("ext", 2) for r, _ in rv) and any(r[0] == "loc" for r, _ in bv):
                ok_fill = True
                buf_local = [r[1] for r, _ in bv if r[0] == "loc"][0]
        ok_priv = False
        if buf_local is not None:
            for blk in g.blocks:
                for st in blk["stmts"]:
                    if st["k"] == "assign" and st["place"]["proj"] and st["rv"]["k"] == "use" and st["rv"]["op"]["k"] in ("copy", "move"):
                        dst = {(r, fields_only(pr)) for r, pr in gp.resolve_place(st["place"])}
                        if dst == {(("ext", 1), ("privkey",))} and errpath.origin_local(g, st["rv"]["op"]["place"]["local"]) == buf_local:
                            ok_priv = True
        derives = any(E.targets(t)[0] and "derive_pubkey" in E.targets(t)[0][0] for b, t in g.calls())
        sm = E.sums[ip]
        writes_pub = any(ch[:1] == ("pubkey",) for (a, ch) in sm.w_ok if a == 0)
        ok = ok_fill and ok_priv and writes_pub
        ctx.ob("generate-uses-rng", short(ip), ok,
               "generate() fills the private key from rng.fill_bytes and derives the public key" if ok else "generate() does not draw the whole private key from the supplied rng (fill=%s priv=%s pub=%s)" % (ok_fill, ok_priv, writes_pub),
               where(g), cfg)
    ctx.floor("generate-uses-rng", len(impls), 1, cfg)


def no_error_after_payload(ctx, cfg):
    F = ctx.facts[cfg]
    E = ctx.eff(cfg)
    fn = F.one_fn("handshakestate::HandshakeState::_write_message")
    G = ctx.guards(cfg, fn)
    pts = E.pts[fn.path]
    R = G.R
    # the payload encryption: encrypt_and_mix_hash whose plaintext argument is the `payload` parameter
    sites = []
    for b, t in fn.calls():
        if (t["callee"].get("def") or "").endswith("SymmetricState::encrypt_and_mix_hash"):
            v = pts._val_pts(t["args"][1]) or set()
            if any(r == ("ext", 2) for r, _ in v):
                sites.append((b, t))
    ctx.floor("no-error-after-payload-encrypt", len(sites), 1, cfg)
    from .common import ret_err_sites
    errs = ret_err_sites(fn, R)
    for (b, t) in sites:
        # success continuation of the call
        ok_blocks = set()
        for b2 in fn.reachable():
            if ("hist", "ok", b) in G.at_entry(b2):
                ok_blocks.add(b2)
        bad = [(eb, v) for (eb, v, s) in errs if eb in ok_blocks]
        # also `?`-style error propagation after success
        for b2, t2 in fn.calls():
            if (t2["callee"].get("def") or "").endswith("FromResidual::from_residual") and b2 in ok_blocks:
                bad.append((b2, "?"))
        ctx.ob("no-error-after-payload-encrypt", short(fn.path), not bad,
               "once the payload has been encrypted the write cannot fail" if not bad
               else "an error exit (%s) is reachable after the caller's payload was encrypted: a rolled-back retry could encrypt a different payload under the same (key, nonce)" % (bad[0][1],),
               where(fn, t), cfg)
