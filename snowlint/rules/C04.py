"""C04 — transport messages are authenticated."""
from ..expr import strip_bb, show
from ..flow import fields_only
from . import roles, aead, coverage, spec_templates, nonce
from .common import where, short, cipher_calls

LEVEL = "other"
EXPLANATION = (
    "Unforgeability is the AEAD's; decided are the necessary structural conditions: the key index per operation and role "
    "equals the role table in both transport types, so the two directions use different keys and a reflected or "
    "cross-direction message meets the wrong key; the transport entry points hand the *whole* message and the whole output "
    "buffer to the cipher state; in stateful mode the nonce operand of Cipher::decrypt/encrypt is the counter, in stateless "
    "mode the caller's nonce, and every backend wrapper encodes that nonce into the AEAD nonce and passes key, AD, the whole "
    "ciphertext body and the last 16 bytes as tag; ciphertexts shorter than a tag are rejected before slicing "
    "(lenproof precondition of Cipher::decrypt); a failed verification is reported as Error::Decrypt and every Result in the "
    "transport path is propagated."
)


def run(ctx):
    ctx.rule("role-index", "key index by operation and role")
    ctx.rule("whole-message", "transport read/write pass their whole input and output buffers to the cipher state")
    ctx.rule("dataflow-template", "CipherState/StatelessCipherState forward (nonce, AD, input, output) to Cipher::decrypt/encrypt; Split() keys the two directions from the two HKDF outputs")
    ctx.rule("aead-nonce", "the nonce is an input of the AEAD call in its specified encoding")
    ctx.rule("aead-operands", "key / AD / ciphertext body / tag operands of the backend call")
    ctx.rule("aead-error", "verification failure -> Error::Decrypt")
    ctx.rule("lenproof", "short ciphertexts are rejected before the tag is sliced off")
    ctx.rule("error-discipline", "Results on the transport path are propagated")
    ctx.trust("rustc MIR; snowfacts; spec/roles.py; spec/names.py")
    ctx.assume("AEAD unforgeability (not decided)")
    for cfg in ctx.cfgs:
        F = ctx.facts[cfg]
        ctx.floor("role-index", roles.check_transport_roles(ctx, cfg, ops_filter={"read_message", "write_message"}), 8, cfg)
        k = 0
        for ty, inner, args in (("transportstate::TransportState", "CipherState", (2, 3)), ("stateless_transportstate::StatelessTransportState", "StatelessCipherState", (2, 3, 4))):
            for op, m in (("write_message", "encrypt"), ("read_message", "decrypt")):
                fn = F.one_fn("%s::%s" % (ty, op))
                R = ctx.guards(cfg, fn).R
                cs = [(b, t) for b, t in fn.calls() if (t["callee"].get("def") or "").endswith("%s::%s" % (inner, m))]
                ok = len(cs) == 1 and tuple(strip_bb(R.op(a)) for a in cs[0][1]["args"][1:]) == tuple(("arg", i) for i in args)
                k += 1
                ctx.ob("whole-message", "%s::%s" % (ty.split("::")[-1], op), ok, "%s passes its parameters unchanged to %s::%s" % (op, inner, m) if ok else "%s does not pass its whole input/output (and nonce) to the cipher state" % op, where(fn), cfg)
        ctx.floor("whole-message", k, 4, cfg)
        for ty in ("cipherstate::CipherState", "cipherstate::StatelessCipherState"):
            for op, inner in (("encrypt", "encrypt_ad"), ("decrypt", "decrypt_ad")):
                fn = F.one_fn("%s::%s" % (ty, op))
                R = ctx.guards(cfg, fn).R
                cs = [(b, t) for b, t in fn.calls() if (t["callee"].get("def") or "").endswith("%s::%s" % (ty.split("::")[-1], inner))]
                ok = len(cs) == 1
                if ok:
                    a = [strip_bb(R.op(x)) for x in cs[0][1]["args"]]
                    stateless = "Stateless" in ty
                    want_tail = [("arg", 3), ("arg", 4)] if stateless else [("arg", 2), ("arg", 3)]
                    ok = a[-2:] == want_tail and (not stateless or a[1] == ("arg", 2))
                ctx.ob("whole-message", "%s::%s" % (ty.split("::")[-1], op), ok, "%s forwards input and output unchanged" % op if ok else "%s alters its input/output on the way to %s" % (op, inner), where(fn), cfg)
        spec_templates.run_templates(ctx, cfg, names=("CipherState::encrypt_ad", "CipherState::decrypt_ad", "StatelessCipherState::encrypt_ad", "StatelessCipherState::decrypt_ad",
                                                  "CipherState::encrypt", "CipherState::decrypt", "StatelessCipherState::encrypt", "StatelessCipherState::decrypt",
                                                  # the two directions have *independent* keys only if Split() takes them from the two HKDF outputs
                                                  "SymmetricState::split", "split_raw"))
        aead.check_wrappers(ctx, cfg, {"nonce": 1, "operands": 1, "error": 1, "no-leak": 0})
        P = ctx.lenproof(cfg)
        m = 0
        for r in P.results:
            sp = short(r["fn"])
            if r["kind"] == "precondition" and "decrypt" in r["key"] and sp.startswith("cipherstate::"):
                m += 1
                ctx.ob("lenproof", "%s:%s" % (sp, r["key"]), r["status"] == "proved", r["what"], r["where"], cfg)
            if sp.endswith("Cipher>::decrypt") and r["kind"] in ("assert:overflow_sub", "overflow_sub", "index"):
                m += 1
                ctx.ob("lenproof", "%s:%s" % (sp, r["key"]), r["status"] in ("proved", "justified"), r["what"], r["where"], cfg)
        ctx.floor("lenproof", m, 4, cfg)
        coverage.error_discipline(ctx, cfg, only=lambda p: "transportstate" in p or "cipherstate" in p)
