"""C15 — rekey follows the specification."""
from ..expr import strip_bb, show
from ..flow import fields_only
from . import nonce, roles
from .common import where, short, self_paths, U64MAX, cipher_calls, calls_to

LEVEL = "other"
EXPLANATION = (
    "Decided: the dataflow and constants of the default REKEY (Cipher::rekey): ENCRYPT(k, nonce = 2^64-1, ad = empty, "
    "plaintext = 32 zero bytes) into a 48-byte buffer, new key = first 32 bytes, installed with set(); no local Cipher "
    "impl overrides it; the write set of every rekey function is {cipher} (nonces untouched); the direction mapping of "
    "rekey_outgoing/incoming/initiator_manually/responder_manually/rekey_manually in both transport types equals the "
    "role table; manual keys are passed through unchanged. Not decided: that messages are rejected when only one side "
    "rekeys (AEAD strength), byte equality of the rekeyed stream (what ENCRYPT computes)."
)


def promoted_const_array(fn, idx):
    """(length, element value or None) of a promoted constant that is a reference to an array"""
    if idx >= len(fn.promoted):
        return None
    body = fn.promoted[idx]
    for b in body["blocks"]:
        for s in b["stmts"]:
            if s["k"] == "assign":
                rv = s["rv"]
                if rv["k"] == "repeat":
                    return (rv["n"], rv["op"].get("val"))
                if rv["k"] == "aggregate" and rv.get("agg") == "array":
                    vals = [o.get("val") for o in rv["ops"]]
                    return (len(vals), vals[0] if vals and all(v == vals[0] for v in vals) else None)
    return None


def local_array_init(fn, l):
    """(len, value) when local l is initialised by `[v; n]`"""
    for (bi, si, s) in fn.defs().get(l, []):
        if isinstance(s, dict) and s.get("k") == "assign" and not s["place"]["proj"] and s["rv"]["k"] == "repeat":
            return (s["rv"]["n"], s["rv"]["op"].get("val"))
    return None


def ref_target(fn, pts, op):
    """('promoted', i) | ('loc', l, proj) for a reference operand"""
    v = pts._val_pts(op) or set()
    return v


def run(ctx):
    ctx.rule("rekey-dataflow", "Cipher::rekey = set(first 32 bytes of ENCRYPT(k, 2^64-1, empty, zeros32))")
    ctx.rule("rekey-reserved-nonce", "REKEY uses the reserved nonce")
    ctx.rule("rekey-not-overridden", "no local Cipher impl overrides rekey")
    ctx.rule("rekey-write-set", "rekey functions write only the cipher object (nonce untouched)")
    ctx.rule("role-index", "direction mapping of the rekey API equals the role table")
    ctx.rule("rekey-unconditional", "rekey_outgoing / rekey_incoming rekey on every path")
    ctx.rule("manual-key-passthrough", "manual keys reach Cipher::set unchanged; rekey_manually(Some, Some) sets both")
    ctx.trust("rustc MIR; snowfacts; /verif/spec/roles.py")
    for cfg in ctx.cfgs:
        F = ctx.facts[cfg]
        E = ctx.eff(cfg)
        K = F.const_val("constants::CIPHERKEYLEN")
        T = F.const_val("constants::TAGLEN")
        fn = F.fn(F.crate + "::types::Cipher::rekey")
        if fn is None:
            ctx.inconcl("anchor missing: default Cipher::rekey")
            continue
        G = ctx.guards(cfg, fn)
        R = G.R
        pts = E.pts[fn.path]
        encs = [(b, t) for (f2, b, t, k) in cipher_calls(F) if f2.path == fn.path and k == "encrypt"]
        ctx.floor("rekey-dataflow", len(encs), 1, cfg)
        for (b, t) in encs:
            n = strip_bb(R.op(t["args"][1]))
            ctx.ob("rekey-reserved-nonce", "Cipher::rekey", n == ("const", U64MAX), "nonce = 2^64-1" if n == ("const", U64MAX) else "nonce = %s" % show(n, fn), where(fn, t), cfg)
            # receiver is self
            rs = E._arg_paths(pts, t["args"][0])
            ctx.ob("rekey-dataflow", "receiver", rs == {(0, ())}, "ENCRYPT is performed with the cipher being re-keyed (self)" if rs == {(0, ())} else "ENCRYPT receiver is not self", where(fn, t), cfg)
            # ad: empty
            ad = ref_target(fn, pts, t["args"][2])
            ad_ok = False
            for (root, proj) in ad:
                if root[0] == "promoted":
                    pa = promoted_const_array(fn, root[1])
                    ad_ok = pa is not None and pa[0] == 0
                elif root[0] == "loc" and root[1] not in R.mut_borrowed and fn.single_def(root[1]) is not None:
                    # a named empty array (`let zerolen = [0u8; 0];`), written once and only read
                    pa = local_array_init(fn, root[1])
                    ty = fn.local_ty(root[1])
                    ad_ok = (pa is not None and pa[0] == 0) or (ty["k"] == "array" and ty.get("len") == 0)
            ctx.ob("rekey-dataflow", "ad-empty", ad_ok, "associated data is empty" if ad_ok else "associated data of REKEY is not the empty string", where(fn, t), cfg)
            # plaintext: 32 zero bytes
            ptx = ref_target(fn, pts, t["args"][3])
            p_ok = False
            got = None
            for (root, proj) in ptx:
                if root[0] == "promoted":
                    got = promoted_const_array(fn, root[1])
                elif root[0] == "loc":
                    got = local_array_init(fn, root[1])
                p_ok = got is not None and got[0] == K and got[1] == 0
            ctx.ob("rekey-dataflow", "plaintext-zeros", p_ok, "plaintext is %d zero bytes" % K if p_ok else "REKEY plaintext is %s, expected %d zero bytes" % (got, K), where(fn, t), cfg)
            # out buffer: local [_, K+T]
            out = ref_target(fn, pts, t["args"][4])
            o_ok = False
            out_local = None
            for (root, proj) in out:
                if root[0] == "loc":
                    ai = local_array_init(fn, root[1])
                    ty = fn.local_ty(root[1])
                    if ty["k"] == "array" and ty.get("len") == K + T:
                        o_ok = True
                        out_local = root[1]
            ctx.ob("rekey-dataflow", "out-buffer", o_ok, "ciphertext buffer holds %d bytes" % (K + T) if o_ok else "REKEY output buffer is not %d bytes" % (K + T), where(fn, t), cfg)
            # key = out[..K]; set(self, &key)
            sets = [(b2, t2) for b2, t2 in fn.calls() if t2["callee"].get("def") == F.crate + "::types::Cipher::set"]
            copies = [(b2, t2) for b2, t2 in fn.calls() if (t2["callee"].get("def") or "").endswith("copy_from_slice")]
            k_ok = False
            why = "no set()/copy_from_slice found"
            for (sb, st) in sets:
                kv = ref_target(fn, pts, st["args"][1])
                klocals = {r[1] for r, p in kv if r[0] == "loc"}
                srecv = E._arg_paths(pts, st["args"][0])
                for (cb, ct) in copies:
                    dv = ref_target(fn, pts, ct["args"][0])
                    dlocals = {r[1] for r, p in dv if r[0] == "loc"}
                    if not (klocals & dlocals):
                        continue
                    # source: Index(&ciphertext, RangeTo{K}) (or Range{0,K})
                    src = strip_bb(R.op(ct["args"][1]))
                    why = "key source is %s" % show(src, fn)
                    if src[0] == "call" and (src[1] or "").endswith("Index::index"):
                        base, rng = src[3][0], src[3][1]
                        base_ok = base[0] == "ref" and any(r == ("loc", out_local) for r, p in base[1])
                        rng_ok = False
                        if rng[0] == "agg" and rng[1] and rng[1].endswith("RangeTo") and rng[3] == (("const", K),):
                            rng_ok = True
                        if rng[0] == "agg" and rng[1] and rng[1].endswith("ops::Range") and rng[3] == (("const", 0), ("const", K)):
                            rng_ok = True
                        if base_ok and rng_ok and fn.dominates(b, cb) and fn.dominates(cb, sb) and srecv == {(0, ())}:
                            k_ok = True
            ctx.ob("rekey-dataflow", "new-key", k_ok, "new key = first %d bytes of the ciphertext, installed with self.set()" % K if k_ok else "REKEY key derivation differs from the specification (%s)" % why, where(fn), cfg)
        ctx.floor("rekey-not-overridden", nonce.check_rekey_not_overridden(ctx, cfg), 1, cfg)
        # write sets
        k = 0
        for name in ("cipherstate::CipherState::rekey", "cipherstate::CipherState::rekey_manually",
                     "cipherstate::StatelessCipherState::rekey", "cipherstate::StatelessCipherState::rekey_manually"):
            f2 = F.one_fn(name)
            sm = E.sums[f2.path]
            sp = self_paths(sm.w_ok | sm.w_err, 0)
            ok = bool(sp) and all(p == "cipher" or p.startswith("cipher.") for p in sp)
            k += 1
            ctx.ob("rekey-write-set", short(f2.path), ok, "writes only self.cipher" if ok else "writes self.%s" % ", self.".join(sp), where(f2), cfg)
        for ty in ("transportstate::TransportState", "stateless_transportstate::StatelessTransportState"):
            for op in ("rekey_outgoing", "rekey_incoming", "rekey_manually", "rekey_initiator_manually", "rekey_responder_manually"):
                f2 = F.one_fn("%s::%s" % (ty, op))
                sm = E.sums[f2.path]
                sp = self_paths(sm.w_ok | sm.w_err, 0)
                ok = bool(sp) and all(p.startswith("cipherstates.") and (p.split(".")[2:3] == ["cipher"]) for p in sp)
                k += 1
                ctx.ob("rekey-write-set", short(f2.path), ok, "writes only cipherstates.N.cipher" if ok else "writes self.%s" % ", self.".join(sp), where(f2), cfg)
        ctx.floor("rekey-write-set", k, 14, cfg)
        n = roles.check_transport_roles(ctx, cfg, ops_filter={"rekey_outgoing", "rekey_incoming", "rekey_initiator_manually", "rekey_responder_manually"})
        ctx.floor("role-index", n, 12, cfg)
        manual(ctx, cfg)
        always_rekeys(ctx, cfg)


def always_rekeys(ctx, cfg):
    """rekey_outgoing / rekey_incoming are unconditional: no path returns without having rekeyed a cipher state (the
    application is told to call them in lock-step; a silent no-op for some role or pattern desynchronises the peers)"""
    F = ctx.facts[cfg]
    E = ctx.eff(cfg)
    for ty in ("transportstate::TransportState", "stateless_transportstate::StatelessTransportState"):
        for op in ("rekey_outgoing", "rekey_incoming"):
            fn = F.one_fn("%s::%s" % (ty, op))
            doing = set()
            for bi, t in fn.calls():
                tg, _ = E.targets(t)
                names = [t["callee"].get("def") or ""] + list(tg)
                if any(x.endswith("::rekey") or "::rekey_" in x for x in names):
                    doing.add(bi)
            rets = set(fn.return_blocks())
            # a path that returns without rekeying is acceptable only for the direction that does not exist in a one-way
            # session: rekey_outgoing on the one-way responder, rekey_incoming on the one-way initiator
            dead_role = (op == "rekey_incoming")
            G = ctx.guards(cfg, fn)

            def role_fact(f, truth):
                return f[0] == "bool" and f[2] is truth and f[1][0] == "place" and {fields_only(p[1]) for p in f[1][1]} == {("initiator",)}

            def ow_fact(f):
                return f[0] == "bool" and f[2] is True and f[1][0] == "call" and (f[1][1] or "").endswith("HandshakePattern::is_oneway")

            skip = False
            stack = [(0, frozenset(), frozenset())]
            seen = set()
            while stack and 0 not in doing:
                b, facts, visited = stack.pop()
                if (b, facts) in seen or b in doing or b in visited:
                    continue
                seen.add((b, facts))
                if b in rets:
                    if not (any(ow_fact(f) for f in facts) and any(role_fact(f, dead_role) for f in facts)):
                        skip = True
                        break
                    continue
                for x in fn.succs(b):
                    ef = frozenset(f for f in G.edge_facts.get((b, x), ()) if f[0] == "bool")
                    stack.append((x, facts | ef, visited | {b}))
            ok = bool(doing) and not skip
            ctx.ob("rekey-unconditional", "%s::%s" % (ty.split("::")[-1], op), ok,
                   "every path through %s rekeys a cipher state" % op if ok else "%s can return without rekeying anything (a silent no-op for some role or pattern)" % op, where(fn), cfg)


def manual(ctx, cfg):
    F = ctx.facts[cfg]
    E = ctx.eff(cfg)
    n = 0
    # CipherState::rekey_manually / Stateless: cipher.set(key param)
    for name in ("cipherstate::CipherState::rekey_manually", "cipherstate::StatelessCipherState::rekey_manually"):
        fn = F.one_fn(name)
        R = ctx.guards(cfg, fn).R
        sets = [(b, t) for b, t in fn.calls() if t["callee"].get("def") == F.crate + "::types::Cipher::set"]
        ok = len(sets) == 1 and strip_bb(R.op(sets[0][1]["args"][1])) == ("arg", 2)
        n += 1
        ctx.ob("manual-key-passthrough", short(fn.path), ok, "the caller's key is handed to Cipher::set unchanged" if ok else "rekey_manually does not pass its key parameter to Cipher::set", where(fn), cfg)
    # end to end, through however many forwarding layers there are: the key parameter of
    # rekey_{initiator,responder}_manually reaches exactly one Cipher::set, on cipherstates.{0,1}.cipher
    for ty in ("transportstate::TransportState", "stateless_transportstate::StatelessTransportState"):
        for op, idx in (("rekey_initiator_manually", "0"), ("rekey_responder_manually", "1")):
            fn = F.one_fn("%s::%s" % (ty, op))
            terms, other = follow_key(ctx, cfg, fn, 2, ())
            want = [("cipherstates", idx, "cipher")]
            ok = terms == want and not other
            n += 1
            ctx.ob("manual-key-passthrough", short(fn.path), ok,
                   "the key parameter reaches Cipher::set on self.cipherstates.%s.cipher unchanged, and nothing else" % idx if ok
                   else "the key parameter reaches Cipher::set on %s (expected self.cipherstates.%s.cipher)%s" % ([".".join(t) for t in terms] or "nothing", idx, ("; it is also passed to %s" % other[0]) if other else ""),
                   where(fn), cfg)
        # rekey_manually(initiator, responder)
        fn = F.one_fn("%s::rekey_manually" % ty)
        G = ctx.guards(cfg, fn)
        R = G.R
        for which, argi in (("rekey_initiator_manually", 2), ("rekey_responder_manually", 3)):
            cs = [(b, t) for b, t in fn.calls() if (t["callee"].get("def") or "").endswith("::" + which)]
            ok = False
            if len(cs) == 1:
                b, t = cs[0]
                facts = G.before_term(b)
                some = any(f[0] == "variant" and f[2] == 1 and f[1] == ("arg", argi) for f in facts)
                key = strip_bb(R.op(t["args"][1]))
                from_opt = key[0] == "field" and key[1][0] == "field" and key[1][1] == ("arg", argi) or (key[0] == "field" and key[1] == ("arg", argi))
                if key[0] in ("place", "ref"):
                    from_opt = bool(key[1]) and all(r == ("loc", argi) for r, p in key[1])
                ok = some and from_opt
                # the other call must not be nested under this Some arm exclusively: both calls reachable independently
            n += 1
            ctx.ob("manual-key-passthrough", "%s::rekey_manually:%s" % (ty.split("::")[-1], which), ok,
                   "%s is called with the key of the corresponding Some(..) argument" % which if ok else "%s is not called under Some(arg) with that key" % which, where(fn), cfg)
    ctx.floor("manual-key-passthrough", n, 10, cfg)



def follow_key(ctx, cfg, fn, param, base, depth=0):
    """where does the by-reference parameter `param` of fn go? Returns ([field chain (relative to the root self) of the
    receivers of Cipher::set calls that get it], [other callees it is handed to])."""
    from ..flow import fields_only
    F = ctx.facts[cfg]
    E = ctx.eff(cfg)
    R = ctx.guards(cfg, fn).R
    terms, other = [], []
    if depth > 5:
        return terms, ["(too deep)"]
    for bi, t in fn.calls():
        for j, a in enumerate(t["args"]):
            if strip_bb(R.op(a)) != ("arg", param):
                continue
            d = t["callee"].get("def") or ""
            recv = E._arg_paths(E.pts[fn.path], t["args"][0]) if t["args"] else set()
            chains = [tuple(ch) for (ai, ch) in recv if ai == 0]
            if d == F.crate + "::types::Cipher::set" and j == 1:
                for ch in chains:
                    terms.append(tuple(base) + ch)
                if not chains:
                    other.append("Cipher::set on an unknown receiver")
                continue
            tg, _ = E.targets(t)
            tg = [x for x in tg if F.fn(x) is not None]
            if len(tg) == 1 and len(chains) == 1 and j >= 1:
                t2, o2 = follow_key(ctx, cfg, F.fn(tg[0]), j + 1, tuple(base) + chains[0], depth + 1)
                terms += t2
                other += o2
            else:
                other.append(d.split("::")[-1])
    return terms, other
