"""FallbackResolver / Builder resolver plumbing (C20)."""
from ..template import actual_events
from .common import where, short


def check_fallback(ctx, cfg, rule="fallback-structure"):
    F = ctx.facts[cfg]
    n = 0
    tr = F.crate + "::resolvers::CryptoResolver"
    for im in F.impls:
        if im.get("trait") != tr or not im["self_s"].endswith("FallbackResolver"):
            continue
        for it in im["items"]:
            if not it.get("is_fn"):
                continue
            m = it["name"]
            fn = F.fn(it["path"])
            if fn is None:
                continue
            n += 1
            meth = "CryptoResolver::" + m
            evs = [e for e in actual_events(ctx, cfg, fn, {meth, "Option::or_else", "Option::or", "Option::and", "Option::xor", "Option::and_then", "Option::map", "Option::filter"}) if e[0] == "call"]
            extra_args = tuple(("param", i) for i in range(2, fn.argc + 1))
            ok = False
            why = "shape not recognised: %s" % [(e[1], e[2]) for e in evs][:3]
            if len(evs) == 2 and evs[0][1] == meth and evs[1][1] == "Option::or_else":
                first = evs[0][2]
                pref_ok = first == (("at", "p1.preferred"),) + extra_args
                orelse = evs[1][2]
                clo = orelse[1] if len(orelse) == 2 else None
                recv_ok = orelse[0] == ("call", meth) + first if len(orelse) == 2 else False
                clo_ok = False
                if clo and clo[0] == "agg" and clo[1] == "closure":
                    caps = clo[3:]
                    cfn = F.fn(clo[2])
                    if cfn is not None and caps[:1] == (("at", "p1.fallback"),) and tuple(caps[1:]) == extra_args:
                        cev = [e for e in actual_events(ctx, cfg, cfn, {meth}) if e[0] == "call"]
                        if len(cev) == 1 and cev[0][1] == meth:
                            a = cev[0][2]
                            # arguments are the captures in order: p1.0 (receiver), p1.1 (choice)
                            want = tuple(("at", "p1.%d" % i) for i in range(len(caps)))
                            got = tuple(x if x[0] == "at" else ("at", "?") for x in a)
                            clo_ok = all(isinstance(g, tuple) and g[0] == "at" and g[1].split(".")[:2] == w[1].split(".")[:2] for g, w in zip(a, want)) and len(a) == len(want)
                ok = pref_ok and recv_ok and clo_ok
                why = "preferred first=%s, or_else on its result=%s, closure asks the fallback with the same choice=%s" % (pref_ok, recv_ok, clo_ok)
            if not ok and len(evs) == 2 and evs[0][1] == meth and evs[1][1] == meth:
                ok, why = match_shape(ctx, cfg, fn, meth, evs, extra_args)
                if ok:
                    ctx.ob(rule, "FallbackResolver::" + m, True, "%s: match preferred.%s(choice) { Some(x) => Some(x), None => fallback.%s(choice) }" % (m, m, m), where(fn), cfg)
                    continue
            # the or_else result is what is returned
            ret_ok = any(t["k"] == "call" and t["dest"]["local"] == 0 and (t["callee"].get("def") or "").endswith("Option::<T>::or_else") for b, t in fn.calls())
            ctx.ob(rule, "FallbackResolver::" + m, ok and ret_ok,
                   "%s: preferred.%s(choice).or_else(|| fallback.%s(choice))" % (m, m, m) if ok and ret_ok else "%s does not implement 'preferred, else fallback': %s" % (m, why), where(fn), cfg)
    # FallbackResolver::new stores (preferred, fallback) in order
    fn = F.one_fn("resolvers::FallbackResolver::new")
    ok = False
    for b in fn.blocks:
        for s in b["stmts"]:
            if s["k"] == "assign" and s["rv"]["k"] == "aggregate" and s["rv"].get("agg") == "adt":
                m = dict(zip(s["rv"]["field_names"], s["rv"]["ops"]))
                try:
                    ok = m["preferred"]["place"]["local"] == 1 and m["fallback"]["place"]["local"] == 2
                except Exception:
                    ok = False
    if not ok:
        from ..expr import Resolver
        R = ctx.guards(cfg, fn).R
        e = R.local(0)
        ok = e[0] == "agg" and e[3] == (("arg", 1), ("arg", 2))
    ctx.ob(rule, "FallbackResolver::new", ok, "new(preferred, fallback) stores its arguments in that order" if ok else "FallbackResolver::new swaps or drops its arguments", where(fn), cfg)
    return n


def match_shape(ctx, cfg, fn, meth, evs, extra_args):
    """the explicit form: the preferred member is asked first; its Some(x) is returned as Some(x); only on None is the
    fallback member asked, with the same choice, and its answer returned"""
    from ..expr import strip_bb
    from .common import find_call
    G = ctx.guards(cfg, fn)
    R = G.R
    c1, c2 = evs[0], evs[1]
    if c1[2] != (("at", "p1.preferred"),) + extra_args:
        return False, "the first member asked is %s, not self.preferred" % (c1[2][:1],)
    if c2[2] != (("at", "p1.fallback"),) + extra_args:
        return False, "the second member asked is %s with %s, not self.fallback with the same choice" % (c2[2][:1], c2[2][1:])
    b1, b2 = c1[4], c2[4]
    if not fn.dominates(b1, b2):
        return False, "the fallback is not asked after the preferred member"
    e1 = strip_bb(R.call_expr(b1, fn.blocks[b1]["term"]))
    # discriminant 0 of Option is None (reported by the guard analysis as the 0-edge of the call result)
    none_edge = any(f[0] == "ok" and strip_bb(f[1]) == e1 for f in G.before_term(b2))
    if not none_edge:
        return False, "the fallback is asked on a path where the preferred member did not answer None"
    # returns
    okret = 0
    for (bi, si, st) in fn.defs().get(0, []):
        if si == "term":
            if bi == b2:
                okret += 1
                continue
            return False, "the value returned is produced by another call"
        rv = st["rv"]
        if rv["k"] == "aggregate" and rv.get("variant_name") == "Some":
            pay = strip_bb(R.op(rv["ops"][0]))
            c = find_call(pay, (meth.split("::")[-1],))
            some_edge = any(f[0] == "err" and strip_bb(f[1]) == e1 for f in G.at_entry(bi))
            if c is not None and strip_bb(c) == e1 and some_edge:
                okret += 1
                continue
            return False, "Some(..) returned is not the preferred member's answer"
        if rv["k"] == "use" and rv["op"].get("k") in ("move", "copy"):
            x = strip_bb(R.op(rv["op"]))
            if x[0] == "call" and x == strip_bb(R.call_expr(b2, fn.blocks[b2]["term"])):
                okret += 1
                continue
            if x == e1:
                okret += 1
                continue
        return False, "return value not understood"
    return okret >= 2, "returns: %d recognised" % okret


def check_builder_resolver(ctx, cfg, rule="builder-resolver"):
    F = ctx.facts[cfg]
    fn = F.one_fn("builder::Builder::<'builder>::with_resolver")
    R = ctx.guards(cfg, fn).R
    e = R.local(0)
    ok = False
    if e[0] == "agg":
        # field 'resolver' receives parameter 2 unchanged
        for b in fn.blocks:
            for s in b["stmts"]:
                if s["k"] == "assign" and s["rv"]["k"] == "aggregate" and s["rv"].get("agg") == "adt" and "resolver" in s["rv"]["field_names"]:
                    i = s["rv"]["field_names"].index("resolver")
                    ok = R.op(s["rv"]["ops"][i]) == ("arg", 2)
    ctx.ob(rule, "with_resolver", ok, "with_resolver stores the caller's resolver unchanged" if ok else "with_resolver does not store the resolver parameter", where(fn), cfg)
    nf = F.find_fns("builder::Builder::<'builder>::new")
    for fn2 in nf:
        evs = [e for e in actual_events(ctx, cfg, fn2, {"FallbackResolver::new", "Builder::with_resolver", "Box::new"}) if e[0] == "call"]
        fb = [e for e in evs if e[1] == "FallbackResolver::new"]
        if fb:
            a = fb[0][2]
            ok2 = len(a) == 2 and "RingResolver" in repr(a[0]) and "DefaultResolver" in repr(a[1])
            ctx.ob(rule, "new:ring-accelerated", ok2, "Builder::new prefers the ring backend and falls back to the default one" if ok2 else "Builder::new builds FallbackResolver(%s)" % (a,), where(fn2), cfg)
        else:
            wr = [e for e in evs if e[1] == "Builder::with_resolver"]
            ok2 = len(wr) == 1 and "DefaultResolver" in repr(wr[0][2])
            ctx.ob(rule, "new:default", ok2, "Builder::new uses DefaultResolver" if ok2 else "Builder::new does not install the DefaultResolver", where(fn2), cfg)
