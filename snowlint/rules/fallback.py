"""FallbackResolver / Builder resolver plumbing (C20)."""
from ..template import actual_events
from .common import where, short


def check_fallback(ctx, cfg, rule="fallback-structure"):
    F = ctx.facts[cfg]
    n = 0
    tr = F.crate + "::resolvers::CryptoResolver"
    for im in F.impls:
        if im.get("trait") != tr or not im["self_s"].endswith("FallbackResolver"):
            continue
        for it in im["items"]:
            if not it.get("is_fn"):
                continue
            m = it["name"]
            fn = F.fn(it["path"])
            if fn is None:
                continue
            n += 1
            meth = "CryptoResolver::" + m
            evs = [e for e in actual_events(ctx, cfg, fn, {meth, "Option::or_else", "Option::or", "Option::and", "Option::xor", "Option::and_then", "Option::map", "Option::filter"}) if e[0] == "call"]
            extra_args = tuple(("param", i) for i in range(2, fn.argc + 1))
            ok = False
            why = "shape not recognised: %s" % [(e[1], e[2]) for e in evs][:3]
            if len(evs) == 2 and evs[0][1] == meth and evs[1][1] == "Option::or_else":
                first = evs[0][2]
                pref_ok = first == (("at", "p1.preferred"),) + extra_args
                orelse = evs[1][2]
                clo = orelse[1] if len(orelse) == 2 else None
                recv_ok = orelse[0] == ("call", meth) + first if len(orelse) == 2 else False
                clo_ok = False
                if clo and clo[0] == "agg" and clo[1] == "closure":
                    caps = clo[3:]
                    cfn = F.fn(clo[2])
                    if cfn is not None and caps[:1] == (("at", "p1.fallback"),) and tuple(caps[1:]) == extra_args:
                        cev = [e for e in actual_events(ctx, cfg, cfn, {meth}) if e[0] == "call"]
                        if len(cev) == 1 and cev[0][1] == meth:
                            a = cev[0][2]
                            # arguments are the captures in order: p1.0 (receiver), p1.1 (choice)
                            want = tuple(("at", "p1.%d" % i) for i in range(len(caps)))
                            got = tuple(x if x[0] == "at" else ("at", "?") for x in a)
                            clo_ok = all(isinstance(g, tuple) and g[0] == "at" and g[1].split(".")[:2] == w[1].split(".")[:2] for g, w in zip(a, want)) and len(a) == len(want)
                ok = pref_ok and recv_ok and clo_ok
                why = "preferred first=%s, or_else on its result=%s, closure asks the fallback with the same choice=%s" % (pref_ok, recv_ok, clo_ok)
            # the or_else result is what is returned
            ret_ok = any(t["k"] == "call" and t["dest"]["local"] == 0 and (t["callee"].get("def") or "").endswith("Option::<T>::or_else") for b, t in fn.calls())
            ctx.ob(rule, "FallbackResolver::" + m, ok and ret_ok,
                   "%s: preferred.%s(choice).or_else(|| fallback.%s(choice))" % (m, m, m) if ok and ret_ok else "%s does not implement 'preferred, else fallback': %s" % (m, why), where(fn), cfg)
    # FallbackResolver::new stores (preferred, fallback) in order
    fn = F.one_fn("resolvers::FallbackResolver::new")
    ok = False
    for b in fn.blocks:
        for s in b["stmts"]:
            if s["k"] == "assign" and s["rv"]["k"] == "aggregate" and s["rv"].get("agg") == "adt":
                m = dict(zip(s["rv"]["field_names"], s["rv"]["ops"]))
                try:
                    ok = m["preferred"]["place"]["local"] == 1 and m["fallback"]["place"]["local"] == 2
                except Exception:
                    ok = False
    if not ok:
        from ..expr import Resolver
        R = ctx.guards(cfg, fn).R
        e = R.local(0)
        ok = e[0] == "agg" and e[3] == (("arg", 1), ("arg", 2))
    ctx.ob(rule, "FallbackResolver::new", ok, "new(preferred, fallback) stores its arguments in that order" if ok else "FallbackResolver::new swaps or drops its arguments", where(fn), cfg)
    return n


def check_builder_resolver(ctx, cfg, rule="builder-resolver"):
    F = ctx.facts[cfg]
    fn = F.one_fn("builder::Builder::<'builder>::with_resolver")
    R = ctx.guards(cfg, fn).R
    e = R.local(0)
    ok = False
    if e[0] == "agg":
        # field 'resolver' receives parameter 2 unchanged
        for b in fn.blocks:
            for s in b["stmts"]:
                if s["k"] == "assign" and s["rv"]["k"] == "aggregate" and s["rv"].get("agg") == "adt" and "resolver" in s["rv"]["field_names"]:
                    i = s["rv"]["field_names"].index("resolver")
                    ok = R.op(s["rv"]["ops"][i]) == ("arg", 2)
    ctx.ob(rule, "with_resolver", ok, "with_resolver stores the caller's resolver unchanged" if ok else "with_resolver does not store the resolver parameter", where(fn), cfg)
    nf = F.find_fns("builder::Builder::<'builder>::new")
    for fn2 in nf:
        evs = [e for e in actual_events(ctx, cfg, fn2, {"FallbackResolver::new", "Builder::with_resolver", "Box::new"}) if e[0] == "call"]
        fb = [e for e in evs if e[1] == "FallbackResolver::new"]
        if fb:
            a = fb[0][2]
            ok2 = len(a) == 2 and "RingResolver" in repr(a[0]) and "DefaultResolver" in repr(a[1])
            ctx.ob(rule, "new:ring-accelerated", ok2, "Builder::new prefers the ring backend and falls back to the default one" if ok2 else "Builder::new builds FallbackResolver(%s)" % (a,), where(fn2), cfg)
        else:
            wr = [e for e in evs if e[1] == "Builder::with_resolver"]
            ok2 = len(wr) == 1 and "DefaultResolver" in repr(wr[0][2])
            ctx.ob(rule, "new:default", ok2, "Builder::new uses DefaultResolver" if ok2 else "Builder::new does not install the DefaultResolver", where(fn2), cfg)
