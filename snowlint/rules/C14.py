"""C14 — message framing: exact lengths, 65535 limit, no overrun."""
from ..expr import strip_bb, show
from ..flow import fields_only
from .common import where, short, ret_err_sites

LEVEL = "other"
CFGS_THOROUGH = ["A", "B", "D", "E"]  # hfs (cfg C) is analysed separately: see DESIGN.md F6
EXPLANATION = (
    "Decided: (1) the framing constants equal the specification's (MAXMSGLEN 65535, TAGLEN 16, key/psk 32, MAXHASHLEN "
    "64, MAXBLOCKLEN 128, MAXDHLEN 56 or 65 with P-256); (2) lenproof postconditions — verified on every return of "
    "the function bodies — a successful handshake write returns r <= 65535 and r <= message.len(); a successful "
    "handshake read returns r <= message.len() <= 65535 and r <= payload.len(); transport write returns exactly "
    "payload.len() + 16 (<= 65535, <= buffer), transport read exactly message.len() - 16, in stateful and stateless "
    "mode; EncryptAndHash/DecryptAndHash return plaintext + 16*[key set] / ciphertext - 16*[key set]; (3) every length "
    "precondition and slicing obligation inside the framing functions is discharged, i.e. a message that does not fit "
    "is rejected by a guard instead of overrunning or panicking; (4) every error exit of the handshake/transport "
    "write paths that is guarded by a comparison on a buffer length or on MAXMSGLEN constructs Error::Input. Not "
    "decided: the per-token sum 'exactly the length the specification predicts' for handshake messages (a loop-summed "
    "quantity; only its bounds are proved)."
)

FRAMING = ("handshakestate::HandshakeState::", "transportstate::TransportState::", "stateless_transportstate::StatelessTransportState::",
           "symmetricstate::SymmetricState::", "cipherstate::")


def run(ctx):
    from spec import names as SN
    ctx.rule("constants", "framing constants equal the specification's")
    ctx.rule("lenproof", "length pre/postconditions and slicing obligations inside the framing functions")
    ctx.rule("length-error-is-input", "length-guarded error exits of the write/read entry points construct Error::Input")
    ctx.trust("rustc MIR; snowfacts; lin.py; contracts.py")
    ctx.assume("every slice length is at most 2^62-1")
    for cfg in ctx.cfgs:
        F = ctx.facts[cfg]
        for name, val in SN.CONSTANTS.items():
            got = F.const_val("constants::" + name)
            ctx.ob("constants", name, got == val, "%s = %d" % (name, got) if got == val else "%s = %d, the specification says %d" % (name, got, val), None, cfg)
        dh = F.const_val("constants::MAXDHLEN")
        has_p256 = any(v["name"] == "P256" for v in F.adt("params::DHChoice")["variants"])
        want = 65 if has_p256 else 56
        ctx.ob("constants", "MAXDHLEN", dh == want, "MAXDHLEN = %d" % dh if dh == want else "MAXDHLEN = %d, expected %d" % (dh, want), None, cfg)
        P = ctx.lenproof(cfg)
        n = 0
        npost = 0
        for r in P.results:
            sp = short(r["fn"])
            if not sp.startswith(FRAMING):
                continue
            if r["status"] == "justified":
                continue
            n += 1
            if r["kind"] == "postcondition":
                npost += 1
            ctx.ob("lenproof", "%s:%s" % (sp, r["key"]), r["status"] == "proved", r["what"], r["where"], cfg)
        ctx.floor("lenproof", n, 120, cfg)
        # 19 on the pinned tree; private helpers with a postcondition may be inlined by a refactoring (the 14 public
        # entry points and trait methods cannot)
        ctx.floor("lenproof", npost, 14, cfg)
        # error variants of length-guarded exits
        k = 0
        for name in ("handshakestate::HandshakeState::_write_message", "handshakestate::HandshakeState::_read_message",
                     "transportstate::TransportState::write_message", "transportstate::TransportState::read_message",
                     "stateless_transportstate::StatelessTransportState::write_message", "stateless_transportstate::StatelessTransportState::read_message"):
            fn = F.one_fn(name)
            A = P.analysis(fn)
            G = ctx.guards(cfg, fn)
            for (bi, variant, s) in ret_err_sites(fn, G.R):
                # the edge facts that lead *only* here: comparisons mentioning a parameter length or MAXMSGLEN on the
                # branch that immediately selects this exit
                preds = fn.preds(bi)
                length_guard = False
                for p in preds:
                    for f in G.edge_facts.get((p, bi), ()):
                        if f[0] == "cmp" and mentions_len(f):
                            length_guard = True
                # exits reached through a chain of `||` conditions: look one block further up
                if not length_guard:
                    for p in preds:
                        if len(fn.blocks[p]["stmts"]) == 0 and fn.blocks[p]["term"]["k"] == "goto":
                            for pp in fn.preds(p):
                                for f in G.edge_facts.get((pp, p), ()):
                                    if f[0] == "cmp" and mentions_len(f):
                                        length_guard = True
                if not length_guard:
                    continue
                k += 1
                ok = variant == ("Input",)
                ctx.ob("length-error-is-input", "%s@%d" % (short(fn.path), k), ok,
                       "a length check failing yields Error::Input" if ok else "a failing length check returns %s instead of Error::Input" % (variant,), where(fn, s), cfg)
        ctx.floor("length-error-is-input", k, 8, cfg)
        limit_exact(ctx, cfg)


def limit_exact(ctx, cfg, rule="limit-exact", only=None):
    """the 65535-byte limit is applied exactly: reads reject len(message) > 65535 and nothing shorter on account of the
    limit; transport writes reject payload + 16 > 65535 and nothing shorter (interval evaluation of the guards)"""
    from . import nonce as NZ
    from ..expr import strip_bb
    F = ctx.facts[cfg]
    cases = [
        ("transportstate::TransportState::read_message", 2, 65535, "message"),
        ("stateless_transportstate::StatelessTransportState::read_message", 3, 65535, "message"),
        ("handshakestate::HandshakeState::_read_message", 2, 65535, "message"),
        ("transportstate::TransportState::write_message", 2, 65535 - 16, "payload"),
        ("stateless_transportstate::StatelessTransportState::write_message", 3, 65535 - 16, "payload"),
    ]
    n = 0
    for name, argi, maxok, what in cases:
        if only is not None and not name.startswith(only):
            continue
        fn = F.one_fn(name)
        G = ctx.guards(cfg, fn)
        var = ("len", ("arg", argi))
        # exits whose selecting branch compares this length with a constant
        rej = []
        for (bi, variant, s) in ret_err_sites(fn, G.R):
            if variant != ("Input",):
                continue
            # the branch edges that select this exit (directly or through an empty goto block)
            edges = [(p, bi) for p in fn.preds(bi)]
            for p in fn.preds(bi):
                if not fn.blocks[p]["stmts"] and fn.blocks[p]["term"]["k"] == "goto":
                    edges += [(pp, p) for pp in fn.preds(p)]
            for e in edges:
                for f in G.edge_facts.get(e, ()):
                    lf = lin_len_fact(f, var)
                    if lf is not None and lf[3][0] == "const" and lf[2] == var:
                        st, unm = NZ.var_set([lf], var)
                        rej += st
        # accepted: at the cipher call / first effect: complement information from the facts there
        acc = None
        for bi, t in fn.calls():
            d = t["callee"].get("def") or ""
            if d.endswith("CipherState::encrypt") or d.endswith("CipherState::decrypt") or d.endswith("SymmetricState::decrypt_and_mix_hash"):
                facts = [lin_len_fact(f, var) for f in G.before_term(bi)]
                facts = [f for f in facts if f is not None and f[3][0] == "const"]
                st, unm = NZ.var_set(facts, var)
                acc = st if acc is None else acc + st
        n += 1
        big = (1 << 64) - 1
        rej_ok = sorted(set(rej)) == [(maxok + 1, big)]
        acc_ok = acc is not None and any(l == 0 and h == maxok for (l, h) in set(acc))
        ctx.ob(rule, short(fn.path), rej_ok and acc_ok,
               "%s longer than %d bytes is rejected with Input, and exactly those" % (what, maxok) if rej_ok and acc_ok
               else "the length limit on %s is not exact: rejected lengths %s, accepted lengths %s; the specification allows 0..=%d" % (what, NZ.fmt_set(rej), NZ.fmt_set(acc or []), maxok),
               where(fn), cfg)
    ctx.floor(rule, n, 5 if only is None else 2, cfg)


def lin_len_fact(f, var):
    """normalise comparison facts `len + c <op> K` to `len <op> K - c` for interval evaluation"""
    if f[0] != "cmp":
        return None
    op, a, b, truth = f[1], f[2], f[3], f[4]

    def split(e):
        if e == var:
            return 0
        if e[0] == "bin" and e[1] == "Add":
            if e[2] == var and e[3][0] == "const":
                return e[3][1]
            if e[3] == var and e[2][0] == "const":
                return e[2][1]
        return None
    ca = split(a)
    if ca is not None and b[0] == "const":
        return ("cmp", op, var, ("const", b[1] - ca), truth)
    cb = split(b)
    if cb is not None and a[0] == "const":
        return ("cmp", op, ("const", a[1] - cb), var, truth)
    if mentions_len(f) and (contains(a, var) or contains(b, var)):
        return ("cmp", op, a, b, truth)
    return None


def contains(e, x):
    if e == x:
        return True
    if isinstance(e, tuple):
        return any(contains(y, x) for y in e if isinstance(y, tuple))
    return False


def mentions_len(f):
    def rec(e):
        if isinstance(e, tuple):
            if e and e[0] == "len":
                return True
            if e == ("const", 65535):
                return True
            return any(rec(x) for x in e if isinstance(x, tuple))
        return False
    return rec(f[2]) or rec(f[3])
