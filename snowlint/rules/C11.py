"""C11 — handshake/transport state machine: turn, phase, one-way."""
from .. import hir
from ..expr import strip_bb, show
from ..flow import fields_only
from ..guards import path_exists_with_facts, exit_assuming
from . import tables, errpath
from .common import where, short, ret_err_sites, cipher_calls, self_paths

LEVEL = "other"
EXPLANATION = (
    "Every guard of the state machine is a function of (my_turn, pattern_position, initiator, pattern) only, and "
    "those fields are written only at audited sites, so the 'for every call sequence' quantifier collapses to CFG "
    "facts: (1) each documented state-error exit is taken exactly under its condition (must-facts at the exit + "
    "product-state path search for the converse), with the documented variant; (2) no write and no &mut call "
    "happens before the turn/finished guards have passed; (3) turn/progress are written only on the Ok edge with "
    "the right values, and the three indicator getters return exactly the fields / position == len; (4) both "
    "conversions test is_handshake_finished() before moving anything; (5) the four transport entry points test "
    "is_oneway() with the right role polarity before touching a cipher, and is_oneway's list equals the set of "
    "one-message rows of the extracted pattern table."
)

WRITE_GUARDS = [("NotTurnToWrite", "my_turn", False), ("HandshakeAlreadyFinished", "position>=len", True)]
READ_GUARDS = [("NotTurnToRead", "my_turn", True), ("HandshakeAlreadyFinished", "position>=len", True)]


def fact_my_turn(f, truth):
    return f[0] == "bool" and f[2] is truth and f[1][0] == "place" and {fields_only(p[1]) for p in f[1][1]} == {("my_turn",)}


def is_pos_ge_len(f):
    """('cmp', 'Ge', place pattern_position, len(message_patterns), truth) in any equivalent spelling"""
    if f[0] != "cmp":
        return None
    op, a, b, truth = f[1], f[2], f[3], f[4]

    def is_pos(e):
        return e[0] == "place" and {fields_only(p[1]) for p in e[1]} == {("pattern_position",)}

    def is_len(e):
        if e[0] == "len" or (e[0] == "call" and (e[1] or "").endswith("::len")):
            inner = e[1] if e[0] == "len" else (e[3][0] if e[3] else None)
            if inner and inner[0] in ("ref", "place"):
                return any("message_patterns" in fields_only(p[1]) for p in inner[1])
        return False

    if is_pos(a) and is_len(b):
        if op == "Ge":
            return truth
        if op == "Lt":
            return not truth
    if is_len(a) and is_pos(b):
        if op == "Le":
            return truth
        if op == "Gt":
            return not truth
    return None


def run(ctx):
    ctx.rule("state-error-exit", "each state-error exit is guarded by exactly its documented condition and constructs the documented variant")
    ctx.rule("state-error-total", "out of phase, the documented state error is the only possible outcome: no other exit is reachable on a path consistent with the out-of-phase condition")
    ctx.rule("cipher-rollback", "the error edge of handshake read/write restores the handshake cipher to the checkpointed key and nonce (so a rejected out-of-phase call changes nothing)")
    ctx.rule("guards-before-effects", "no write / &mut call in the handshake read/write before the turn and finished guards have passed")
    ctx.rule("progress-on-ok", "my_turn / pattern_position written only on the Ok edge with the right value")
    ctx.rule("indicator-getters", "is_my_turn / is_handshake_finished / is_initiator return the fields / position == len")
    ctx.rule("conversion-gated", "TransportState::new / StatelessTransportState::new return HandshakeNotFinished unless finished, before moving anything")
    ctx.rule("oneway-guard", "transport entry points return State(OneWay) for the wrong role of a one-way pattern before any cipher use")
    ctx.rule("oneway-table", "is_oneway's list equals the one-message rows of the pattern table")
    ctx.trust("rustc MIR/HIR; snowfacts; guards.py must-fact analysis")
    for cfg in ctx.cfgs:
        F = ctx.facts[cfg]
        E = ctx.eff(cfg)
        handshake_guards(ctx, cfg, "_write_message", WRITE_GUARDS, want_turn=True)
        handshake_guards(ctx, cfg, "_read_message", READ_GUARDS, want_turn=False)
        ctx.floor("progress-on-ok", errpath.check_progress_writes(ctx, cfg), 6, cfg)
        # an out-of-phase call takes the public wrapper's error edge, which restores the checkpoint: that roll-back
        # must re-install exactly the checkpointed key *and* nonce, or the rejected call has an effect
        errpath.cipher_rollback(ctx, cfg)
        getters(ctx, cfg)
        conversions(ctx, cfg)
        oneway(ctx, cfg)


def handshake_guards(ctx, cfg, name, guards, want_turn):
    F = ctx.facts[cfg]
    E = ctx.eff(cfg)
    fn = F.one_fn("handshakestate::HandshakeState::" + name)
    G = ctx.guards(cfg, fn)
    R = G.R
    errs = ret_err_sites(fn, R)
    by_variant = {}
    for (bi, v, s) in errs:
        if v and v[0] == "State":
            by_variant.setdefault(v[1], []).append((bi, s))
    for (variant, cond, _) in guards:
        sites = by_variant.get(variant, [])
        if not sites:
            ctx.ob("state-error-exit", "%s:%s" % (name, variant), False, "no exit returns State(%s)" % variant, where(fn), cfg)
            continue
        for (bi, s) in sites:
            facts = G.at_entry(bi)
            if cond == "my_turn":
                ok = any(fact_my_turn(f, not want_turn) for f in facts)
                desc = "my_turn == %s" % (not want_turn)
            else:
                ok = any(is_pos_ge_len(f) is True for f in facts)
                desc = "pattern_position >= message_patterns.len()"
            ctx.ob("state-error-exit", "%s:%s" % (name, variant), ok,
                   "Err(State(%s)) is returned under %s" % (variant, desc) if ok else "Err(State(%s)) exit is not guarded by %s" % (variant, desc),
                   where(fn, s), cfg)
    # converse + ordering: every effectful block requires my_turn == want_turn and position < len
    pts = E.pts[fn.path]
    n_eff = 0
    bad = []
    for bi in sorted(fn.reachable()):
        ext, locs = G._block_writes(bi)
        eff = {(r, ch) for (r, ch) in ext if r[0] == "ext"}
        if not eff:
            continue
        n_eff += 1
        facts = G.before_term(bi) | G.at_entry(bi)
        t_ok = any(fact_my_turn(f, want_turn) for f in G.at_entry(bi))
        p_ok = any(is_pos_ge_len(f) is False for f in G.at_entry(bi))
        if not (t_ok and p_ok):
            bad.append((bi, t_ok, p_ok, sorted(".".join(ch) for (r, ch) in eff)[:3]))
    ctx.ob("guards-before-effects", name, not bad,
           "all %d effectful blocks run only after my_turn == %s and position < len were established" % (n_eff, want_turn) if not bad
           else "block bb%d writes %s before the guards (turn checked=%s, finished checked=%s)" % (bad[0][0], bad[0][3], bad[0][1], bad[0][2]),
           where(fn, fn.blocks[bad[0][0]]["term"]) if bad else where(fn), cfg)
    ctx.floor("guards-before-effects", n_eff, 5, cfg)  # blocks, not sites: merged arms legitimately lower the count
    # converse of the error exits: with the bad condition established no Ok exit is reachable
    from .common import ret_ok_sites
    oks = [b for b, s in ret_ok_sites(fn)]
    for f0 in list(G.edge_facts.values()):
        pass
    turn_bad = None
    for (e, fs) in G.edge_facts.items():
        for f in fs:
            if fact_my_turn(f, not want_turn):
                turn_bad = f
    if turn_bad is not None:
        reach = path_exists_with_facts(fn, G, oks, [turn_bad])
        ctx.ob("state-error-exit", "%s:turn-converse" % name, not reach,
               "no successful return is reachable when it is not the caller's turn" if not reach else "a successful return is reachable although my_turn == %s" % (not want_turn), where(fn), cfg)
    fin_bad = None
    for (e, fs) in G.edge_facts.items():
        for f in fs:
            if is_pos_ge_len(f) is True:
                fin_bad = f
    if fin_bad is not None:
        reach = path_exists_with_facts(fn, G, oks, [fin_bad])
        ctx.ob("state-error-exit", "%s:finished-converse" % name, not reach,
               "no successful return is reachable once the pattern is exhausted" if not reach else "a successful return is reachable with pattern_position >= len", where(fn), cfg)
    # totality: out of phase, the documented state error is the *only* possible outcome (no other error is reported first)
    state_exits = {bi for (bi, v, s) in errs if v and v[0] == "State" and v[1] in [g[0] for g in guards]}
    for nm, bad, what in (("turn", turn_bad, "it is not the caller's turn"), ("finished", fin_bad, "the pattern is exhausted")):
        if bad is None:
            continue
        b = exit_assuming(fn, G, [bad], state_exits)
        ctx.ob("state-error-total", "%s:%s" % (name, nm), b is None,
               "when %s every return is one of the documented state errors" % what if b is None
               else "when %s the call can return something other than the documented state error (value built in bb%d)" % (what, b),
               where(fn, fn.blocks[b]["term"]) if b is not None else where(fn), cfg)



def getters(ctx, cfg):
    F = ctx.facts[cfg]
    for name, want in (("is_my_turn", "my_turn"), ("is_initiator", "initiator")):
        fn = F.one_fn("handshakestate::HandshakeState::" + name)
        R = ctx.guards(cfg, fn).R
        e = strip_bb(R.local(0))
        ok = e[0] == "place" and {fields_only(p[1]) for p in e[1]} == {(want,)}
        ctx.ob("indicator-getters", name, ok, "%s returns self.%s" % (name, want) if ok else "%s returns %s" % (name, show(e, fn)), where(fn), cfg)
    for ty in ("transportstate::TransportState", "stateless_transportstate::StatelessTransportState"):
        fn = F.one_fn(ty + "::is_initiator")
        R = ctx.guards(cfg, fn).R
        e = strip_bb(R.local(0))
        ok = e[0] == "place" and {fields_only(p[1]) for p in e[1]} == {("initiator",)}
        ctx.ob("indicator-getters", ty.split("::")[-1] + "::is_initiator", ok, "is_initiator returns self.initiator" if ok else "is_initiator returns %s" % show(e, fn), where(fn), cfg)
    fn = F.one_fn("handshakestate::HandshakeState::is_handshake_finished")
    R = ctx.guards(cfg, fn).R
    e = strip_bb(R.local(0))
    ok = e[0] == "bin" and e[1] == "Eq" and is_pos_ge_len(("cmp", "Ge", e[2], e[3], True)) is True
    ctx.ob("indicator-getters", "is_handshake_finished", ok,
           "is_handshake_finished returns pattern_position == message_patterns.len()" if ok else "is_handshake_finished returns %s" % show(e, fn), where(fn), cfg)


def conversions(ctx, cfg):
    F = ctx.facts[cfg]
    for ty in ("transportstate::TransportState", "stateless_transportstate::StatelessTransportState"):
        fn = F.one_fn(ty + "::new")
        G = ctx.guards(cfg, fn)
        R = G.R
        errs = [(b, v, s) for (b, v, s) in ret_err_sites(fn, R)]
        nf = [(b, s) for (b, v, s) in errs if v == ("State", "HandshakeNotFinished")]

        def fin_fact(f, truth):
            return f[0] == "bool" and f[2] is truth and f[1][0] == "call" and (f[1][1] or "").endswith("HandshakeState::is_handshake_finished")

        ok = bool(nf) and all(any(fin_fact(f, False) for f in G.at_entry(b)) for (b, s) in nf)
        ctx.ob("conversion-gated", ty.split("::")[-1] + ":error", ok,
               "Err(State(HandshakeNotFinished)) is returned when !is_handshake_finished()" if ok else "no HandshakeNotFinished exit guarded by !is_handshake_finished()", where(fn), cfg)
        nfact = None
        for (e, fs) in G.edge_facts.items():
            for f in fs:
                if fin_fact(f, False):
                    nfact = f
        if nfact is not None:
            b = exit_assuming(fn, G, [nfact], {b for (b, s) in nf})
            ctx.ob("state-error-total", ty.split("::")[-1] + "::new", b is None,
                   "before the handshake is finished the only outcome of the conversion is State(HandshakeNotFinished)" if b is None
                   else "before the handshake is finished the conversion can return something other than State(HandshakeNotFinished) (bb%d)" % b,
                   where(fn, fn.blocks[b]["term"]) if b is not None else where(fn), cfg)
        # Ok construction only when finished
        from .common import ret_ok_sites
        oks = ret_ok_sites(fn)
        ok2 = bool(oks) and all(any(fin_fact(f, True) for f in G.at_entry(b)) for (b, s) in oks)
        ctx.ob("conversion-gated", ty.split("::")[-1] + ":ok", ok2,
               "the transport state is constructed only when is_handshake_finished()" if ok2 else "a transport state can be constructed without is_handshake_finished() having returned true", where(fn), cfg)
    # the public conversion methods and TryFrom impls delegate to these constructors
    for name, tgt in (("handshakestate::HandshakeState::into_transport_mode", "TransportState"), ("handshakestate::HandshakeState::into_stateless_transport_mode", "StatelessTransportState")):
        fn = F.one_fn(name)
        reach = reaches(ctx, cfg, fn, "::%s::new" % tgt)
        ctx.ob("conversion-gated", name.split("::")[-1] + ":delegates", reach,
               "%s reaches %s::new" % (name.split("::")[-1], tgt) if reach else "%s does not go through %s::new" % (name.split("::")[-1], tgt), where(fn), cfg)


def reaches(ctx, cfg, fn, suffix, depth=4):
    E = ctx.eff(cfg)
    F = ctx.facts[cfg]
    seen = set()
    st = [(fn.path, 0)]
    while st:
        p, d = st.pop()
        if p in seen or d > depth:
            continue
        seen.add(p)
        if p.endswith(suffix):
            return True
        f = F.fn(p)
        if f is None:
            continue
        for b, t in f.calls():
            tg, _ = E.targets(t)
            for x in tg:
                st.append((x, d + 1))
            # trait-dispatched (TryInto -> TryFrom) calls resolved to blanket impls: follow by name
            r = t["callee"].get("resolved") or ""
            if "TryInto" in r or "try_into" in r:
                for cand in F.bodies:
                    if cand.endswith("::try_from") and "HandshakeState" in cand:
                        st.append((cand, d + 1))
    return False


def oneway(ctx, cfg):
    F = ctx.facts[cfg]
    E = ctx.eff(cfg)
    n = 0
    for ty in ("transportstate::TransportState", "stateless_transportstate::StatelessTransportState"):
        for op, bad_role in (("write_message", False), ("read_message", True)):
            fn = F.one_fn("%s::%s" % (ty, op))
            G = ctx.guards(cfg, fn)
            R = G.R
            errs = [(b, s) for (b, v, s) in ret_err_sites(fn, R) if v == ("State", "OneWay")]

            def role_fact(f, truth):
                return f[0] == "bool" and f[2] is truth and f[1][0] == "place" and {fields_only(p[1]) for p in f[1][1]} == {("initiator",)}

            def ow_fact(f, truth):
                return f[0] == "bool" and f[2] is truth and f[1][0] == "call" and (f[1][1] or "").endswith("HandshakePattern::is_oneway") and f[1][3] and f[1][3][0][0] == "place" and {fields_only(p[1]) for p in f[1][3][0][1]} == {("pattern",)}

            ok = bool(errs) and all(any(role_fact(f, bad_role) for f in G.at_entry(b)) and any(ow_fact(f, True) for f in G.at_entry(b)) for (b, s) in errs)
            n += 1
            key = "%s::%s" % (ty.split("::")[-1], op)
            ctx.ob("oneway-guard", key + ":exit", ok,
                   "Err(State(OneWay)) is returned when initiator == %s and the pattern is one-way" % bad_role if ok
                   else "no State(OneWay) exit guarded by initiator == %s && pattern.is_oneway()" % bad_role, where(fn), cfg)
            # converse: no cipher use reachable with (initiator == bad_role) and is_oneway == true
            rf = of = None
            for (e, fs) in G.edge_facts.items():
                for f in fs:
                    if role_fact(f, bad_role):
                        rf = f
                    if ow_fact(f, True):
                        of = f
            cipher_blocks = [b for b, t in fn.calls() if any((t["callee"].get("def") or "").endswith(x) for x in ("CipherState::encrypt", "CipherState::decrypt", "CipherState::encrypt_ad", "CipherState::decrypt_ad"))]
            n += 1
            if rf is None or of is None or not cipher_blocks:
                ctx.ob("oneway-guard", key + ":converse", False, "one-way guard (role and is_oneway tests) or cipher use not found", where(fn), cfg)
            else:
                b = exit_assuming(fn, G, [rf, of], {b for (b, s) in errs})
                ctx.ob("state-error-total", key, b is None,
                       "for the wrong role of a one-way pattern the only outcome is State(OneWay)" if b is None
                       else "for the wrong role of a one-way pattern the call can return something other than State(OneWay) (bb%d)" % b,
                       where(fn, fn.blocks[b]["term"]) if b is not None else where(fn), cfg)
                reach = path_exists_with_facts(fn, G, cipher_blocks, [rf, of])
                ctx.ob("oneway-guard", key + ":converse", not reach,
                       "the cipher is unreachable for the wrong role of a one-way pattern" if not reach else "the cipher can be used although initiator == %s and the pattern is one-way" % bad_role, where(fn), cfg)
    ctx.floor("oneway-guard", n, 8, cfg)
    # table: is_oneway <=> exactly one message
    table, lines, tf_body = tables.extract_patterns(ctx, cfg)
    ow, b = tables.predicate_table(ctx, cfg, "is_oneway", [()])
    for name, row in sorted(table.items()):
        want = len(row[2]) == 1
        got = ow[(name, ())]
        ctx.ob("oneway-table", name, want == got,
               "is_oneway(%s) = %s" % (name, got) if want == got else "is_oneway(%s) = %s but the pattern has %d message(s)" % (name, got, len(row[2])),
               tables.where_body(b), cfg)
    ctx.floor("oneway-table", len(table), 38, cfg)
