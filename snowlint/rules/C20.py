"""C20 — crypto backends are interchangeable; fallback resolution is correct."""
from . import prims, aead, fallback
from .common import where, short

LEVEL = "other"
EXPLANATION = (
    "Byte equality across backends depends on the crates' numerics and is not decided. Decided: sibling agreement — the "
    "default and ring impls with the same name() pass the same nonce-layout, operand-wiring, tag-position and length rules "
    "and have equal hash_len/block_len; neither overrides hmac/hkdf/rekey; resolver tables — every choice variant resolves "
    "to an impl whose name() literal equals the protocol-name literal of that variant, explicit None rows otherwise; "
    "FallbackResolver — each method asks `preferred` with the same choice and only on None (or_else closure) `fallback` "
    "with the same choice; new() keeps argument order; Builder::new under ring-accelerated builds Fallback(Ring, Default); "
    "with_resolver stores the resolver unchanged."
)


def run(ctx):
    ctx.rule("aead-nonce", "nonce layout identical across backends (per the specification)")
    ctx.rule("aead-operands", "operand wiring in both backends")
    ctx.rule("aead-tag", "tag position in both backends")
    ctx.rule("prim-binding", "name/type/length binding of hash and cipher impls; default HMAC/HKDF/REKEY")
    ctx.rule("verify-then-decrypt-only", "only the audited AEAD entry points of either backend are called from Cipher impls")
    ctx.rule("sibling-agreement", "same-named impls of different backends agree on their constants")
    ctx.rule("resolver-table", "choice -> impl -> name() literal")
    ctx.rule("fallback-structure", "preferred first, fallback only on None, same choice")
    ctx.rule("builder-resolver", "Builder installs / stores the resolver")
    ctx.rule("rekey-not-overridden", "default REKEY in every backend")
    ctx.trust("rustc HIR/MIR; snowfacts; spec tables")
    for cfg in ctx.cfgs:
        F = ctx.facts[cfg]
        aead.check_wrappers(ctx, cfg, {"nonce": 1, "operands": 1, "tag": 1})
        # the two backends are interchangeable only through the entry points whose operands are audited above
        from . import coverage
        coverage.raw_primitive_calls(ctx, cfg)
        prims.check_hashes(ctx, cfg)
        prims.check_cipher_binding(ctx, cfg)
        from . import nonce
        nonce.check_rekey_not_overridden(ctx, cfg)
        # sibling agreement on constants
        from ..lenproof import const_return
        byname = {}
        for im in F.impls:
            if im.get("trait") == F.crate + "::types::Hash":
                nm = prims.impl_name_literal(F, im)
                fns = prims.impl_fns(F, im)
                byname.setdefault(("hash", nm), []).append((im["self_s"], const_return(fns["hash_len"]), const_return(fns["block_len"])))
        for (kind, nm), lst in byname.items():
            if len(lst) > 1:
                ok = len({(a, b) for (_, a, b) in lst}) == 1
                ctx.ob("sibling-agreement", "%s:%s" % (kind, nm), ok, "%s: %d impls agree on (hash_len, block_len)" % (nm, len(lst)) if ok else "%s impls disagree: %s" % (nm, lst), None, cfg)
        ctx.floor("resolver-table", prims.resolver_tables(ctx, cfg), 4, cfg)
        ctx.floor("fallback-structure", fallback.check_fallback(ctx, cfg), 4, cfg)
        fallback.check_builder_resolver(ctx, cfg)
