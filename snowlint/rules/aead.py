"""Structure of every local Cipher::encrypt / Cipher::decrypt implementation (AEAD wrappers):
nonce layout, key / AD / buffer operands of the backend call, tag placement, verify-then-copy ordering."""
from ..template import actual_events
from ..rules.tokens import brief
from .common import where, short

BACKEND_ENC = ("AeadInPlace::encrypt_in_place_detached", "LessSafeKey::seal_in_place_separate_tag")
BACKEND_DEC = ("AeadInPlace::decrypt_in_place_detached", "LessSafeKey::open_in_place")
CALLS = set(BACKEND_ENC + BACKEND_DEC + ("copy_from_slice",))
P2, P3, P4, P5 = ("param", 2), ("param", 3), ("param", 4), ("param", 5)
LEN_P4 = ("len", P4)
BODY_LEN = ("-", LEN_P4, 16)


def mentions(d, needle):
    if d == needle:
        return True
    if isinstance(d, (tuple, frozenset)):
        return any(mentions(x, needle) for x in d)
    return False


def base_of(d):
    while isinstance(d, tuple) and d and d[0] == "slice":
        d = d[1]
    return d


def cipher_impls(ctx, cfg):
    """[(impl self type string, name literal, encrypt fn, decrypt fn)]"""
    F = ctx.facts[cfg]
    tr = F.crate + "::types::Cipher"
    out = []
    for im in F.impls:
        if im.get("trait") != tr:
            continue
        fns = {i["name"]: F.fn(i["path"]) for i in im["items"] if i.get("is_fn")}
        name = None
        nf = fns.get("name")
        if nf is not None:
            for b in nf.blocks:
                for s in b["stmts"]:
                    if s["k"] == "assign" and s["place"]["local"] == 0 and s["rv"]["k"] == "use" and "str" in s["rv"]["op"]:
                        name = s["rv"]["op"]["str"]
        out.append((im["self_s"], name, fns.get("encrypt"), fns.get("decrypt"), im))
    return out


def nonce_local(evs, backend_ev, pos):
    """the local array used as nonce in the backend call: 'local#N' or None"""
    arg = backend_ev[2][pos]
    found = set()

    def rec(d):
        if isinstance(d, tuple):
            if len(d) == 2 and d[0] == "at" and isinstance(d[1], str) and d[1].startswith("local#"):
                found.add(d[1])
            for x in d:
                rec(x)
    rec(arg)
    return next(iter(found)) if len(found) == 1 else None


def check_wrappers(ctx, cfg, rules):
    """rules: dict of rule-name -> bool (which obligation groups to emit). Returns number of impls."""
    from spec import names as SN
    F = ctx.facts[cfg]
    n = 0
    for (ty, name, enc, dec, im) in cipher_impls(ctx, cfg):
        n += 1
        tshort = ty.split("::")[-2] + "::" + ty.split("::")[-1]
        spec = SN.CIPHER_NONCE.get(name)
        if spec is None:
            ctx.ob("aead-name", tshort, False, "Cipher impl %s has name() = %r, not a specified cipher" % (tshort, name), where(enc) if enc else None, cfg)
            continue
        (N, OFF, ENDIAN) = spec
        for kind, fn in (("encrypt", enc), ("decrypt", dec)):
            if fn is None:
                ctx.ob("aead-name", "%s:%s" % (tshort, kind), False, "missing %s" % kind, None, cfg)
                continue
            evs = actual_events(ctx, cfg, fn, CALLS)
            backs = [e for e in evs if e[0] == "call" and e[1] in (BACKEND_ENC if kind == "encrypt" else BACKEND_DEC)]
            key = "%s:%s" % (tshort, kind)
            if not backs:
                if rules.get("operands"):
                    ctx.ob("aead-operands", key, False, "no AEAD backend call found (expected one of %s)" % (BACKEND_ENC if kind == "encrypt" else BACKEND_DEC,), where(fn), cfg)
                continue
            is_ring = backs[0][1].startswith("LessSafeKey")
            inits = {e[1]: e[2] for e in evs if e[0] == "init"}
            copies = [e for e in evs if e[0] == "call" and e[1] == "copy_from_slice"]
            for b in backs:
                L = nonce_local(evs, b, 1)
                # ---- nonce layout
                if rules.get("nonce"):
                    ok = L is not None and inits.get(L) == ("repeat", 0, N)
                    fills = [c for c in copies if base_of(c[2][0]) == ("at", L)] if L else []
                    want_dst = ("slice", ("slice", ("at", L), ("from", OFF)), ("to", 8))
                    want_dst2 = ("slice", ("at", L), ("from", OFF))
                    want_src = ("val", ("call", "<impl u64>::to_%s_bytes" % ENDIAN, P2))
                    okf = len(fills) == 1 and fills[0][2][0] in (want_dst, want_dst2) and fills[0][2][1] in (want_src, want_src[1])
                    elems = [e for e in evs if e[0] == "elem" and e[1] == L]
                    ctx.ob("aead-nonce", key, ok and okf and not elems,
                           "%d-byte zeroed nonce with the %s-endian counter at offset %d reaches the AEAD call" % (N, "little" if ENDIAN == "le" else "big", OFF) if ok and okf and not elems
                           else "nonce encoding differs from the specification for %s (%d bytes, counter %s-endian at %d): buffer %s, fill %s" % (name, N, ENDIAN, OFF, inits.get(L), brief(fills[0][2]) if fills else "none"),
                           where(fn, b[5]), cfg)
                # ---- operands
                if rules.get("operands"):
                    key_ok = mentions(b[2][0], ("at", "p1.key"))
                    ad_ok = b[2][2] == P3 or (isinstance(b[2][2], tuple) and b[2][2][0] == "call" and b[2][2][-1] == P3 and len(b[2][2]) == 3)
                    if kind == "encrypt":
                        buf_ok = b[2][3] in (("slice", P5, ("range", 0, LEN_P4)), ("slice", P5, ("to", LEN_P4)))
                        pre = [c for c in copies if c[2] == (("slice", P5, ("to", LEN_P4)), P4) and fn.dominates(c[4], b[4])]
                        data_ok = bool(pre)
                        tag_ok = True
                    elif not is_ring:
                        buf_ok = b[2][3] == ("slice", P5, ("to", BODY_LEN))
                        tag_ok = len(b[2]) > 4 and b[2][4] == ("slice", P4, ("from", BODY_LEN))
                        pre = [c for c in copies if c[2][1] == ("slice", P4, ("to", BODY_LEN)) and c[2][0][0] == "slice" and c[2][0][1] == P5 and fn.dominates(c[4], b[4])]
                        data_ok = bool(pre)
                    else:
                        # ring: whole ciphertext||tag in one buffer, either the output buffer or a temporary copy
                        tag_ok = True
                        if b[2][3] == ("slice", P5, ("to", LEN_P4)):
                            buf_ok = True
                            data_ok = any(c[2] == (("slice", P5, ("to", LEN_P4)), P4) and fn.dominates(c[4], b[4]) for c in copies)
                        else:
                            buf_ok = isinstance(b[2][3], tuple) and b[2][3][0] == "at" and str(b[2][3][1]).startswith("local#")
                            data_ok = buf_ok and vec_copy_of(ctx, cfg, fn, b[2][3][1], P4)
                    ok = key_ok and ad_ok and buf_ok and data_ok and tag_ok
                    why = []
                    if not key_ok:
                        why.append("key operand %s is not self.key" % brief(b[2][0]))
                    if not ad_ok:
                        why.append("associated data operand is %s, not the authtext parameter" % brief(b[2][2]))
                    if not buf_ok:
                        why.append("buffer operand is %s" % brief(b[2][3]))
                    if not data_ok:
                        why.append("the input is not copied into the buffer before the call")
                    if not tag_ok:
                        why.append("tag operand is %s, expected the last 16 bytes of the ciphertext" % (brief(b[2][4]) if len(b[2]) > 4 else "absent"))
                    ctx.ob("aead-operands", key + ("" if len(backs) == 1 else "@%d" % (backs.index(b) + 1)), ok,
                           "backend call receives (self.key, nonce, authtext, whole input%s)" % (", detached tag = last 16 bytes" if kind == "decrypt" and not is_ring else "") if ok else "; ".join(why),
                           where(fn, b[5]), cfg)
                # ---- tag placement on encrypt
                if rules.get("tag") and kind == "encrypt":
                    post = [c for c in copies if fn.dominates(b[4], c[4]) and c[4] != b[4] and mentions(c[2][1], b[1])]
                    okt = len(post) == 1 and (post[0][2][0][:2] == ("slice", ("slice", P5, ("from", LEN_P4))) or post[0][2][0] == ("slice", P5, ("range", LEN_P4, ("+", 16, LEN_P4))) or post[0][2][0] == ("slice", P5, ("range", LEN_P4, ("+", LEN_P4, 16))))
                    ctx.ob("aead-tag", key, okt, "the 16-byte tag is appended at out[plaintext.len()..]" if okt else "tag is not written at out[plaintext.len()..]: %s" % (brief(post[0][2][0]) if post else "no tag copy"), where(fn, b[5]), cfg)
                # ---- verify-then-release on decrypt (C19): after the backend call, the output buffer is written only with
                # data that exists on the success path
                if rules.get("no-leak") and kind == "decrypt":
                    later = [c for c in copies if c[4] != b[4] and c[4] in fn.reachable(b[4]) and base_of(c[2][0]) == P5]
                    bad = [c for c in later if not mentions_ok_of(c[2][1], b[1])]
                    ctx.ob("aead-no-leak", key + ("" if len(backs) == 1 else "@%d" % (backs.index(b) + 1)), not bad,
                           "after the AEAD verification the output buffer is written only from the verified result" if not bad else "output buffer is written after the backend call with data not guarded by its success: %s" % brief(bad[0][2]),
                           where(fn, b[5]), cfg)
            if rules.get("no-leak") and kind == "decrypt":
                # before the backend call only ciphertext may be copied into the output buffer
                pre = [c for c in copies if base_of(c[2][0]) == P5 and any(fn.dominates(c[4], b[4]) for b in backs)]
                bad = [c for c in pre if not (c[2][1] == P4 or (isinstance(c[2][1], tuple) and c[2][1][:2] == ("slice", P4)))]
                ctx.ob("aead-no-leak", key + ":pre", not bad, "before verification only ciphertext bytes are placed in the output buffer" if not bad else "non-ciphertext data copied to the output before verification: %s" % brief(bad[0][2]), where(fn), cfg)
                # no other call may write the caller's output buffer
                stray = out_writers(ctx, cfg, fn, 5, set(BACKEND_DEC) | {"copy_from_slice"})
                ctx.ob("aead-no-leak", key + ":out-writers", not stray,
                       "the output buffer is handed only to the AEAD open call and to copy_from_slice" if not stray
                       else "the caller's output buffer is also passed mutably to %s (it may leave unauthenticated data there)" % ", ".join(stray), where(fn), cfg)
                if rules.get("error"):
                    okv, whyv = decrypt_error_is_decrypt(ctx, cfg, fn)
                    ctx.ob("aead-error", key, okv, "every error the wrapper constructs is Error::Decrypt" if okv else whyv, where(fn), cfg)
                    b0 = ok_without_success(ctx, cfg, fn, [b[1] for b in backs])
                    ctx.ob("aead-error", key + ":ok-only-after-success", b0 is None,
                           "Ok(..) is returned only on the success edge of the AEAD open call" if b0 is None
                           else "Ok(..) can be returned without the AEAD open call having succeeded (bb%d)" % b0, where(fn), cfg)
    return n


def mentions_ok_of(d, backend_name):
    """descriptor contains ('ok', <something mentioning the backend call>)"""
    if isinstance(d, tuple):
        if d and d[0] == "ok" and mentions_str(d, backend_name.split("::")[-1]):
            return True
        return any(mentions_ok_of(x, backend_name) for x in d)
    return False


def mentions_str(d, s):
    if isinstance(d, str):
        return s in d
    if isinstance(d, (tuple, frozenset)):
        return any(mentions_str(x, s) for x in d)
    return False


def vec_copy_of(ctx, cfg, fn, localname, src):
    """local Vec initialised by `<src>.to_vec()`"""
    from ..trace import Describer
    from ..contracts import Contracts
    F = ctx.facts[cfg]
    E = ctx.eff(cfg)
    l = int(localname.split("#")[1])
    D = Describer(fn, E.pts[fn.path], Contracts(F).const_getters)
    e = D.R.init_expr(l)
    from ..expr import strip_bb
    d = D.d(strip_bb(e))
    return isinstance(d, tuple) and d[0] == "call" and d[1].endswith("to_vec") and d[2] == src


def decrypt_error_is_decrypt(ctx, cfg, fn):
    """every Error value constructed in the function or its closures is Error::Decrypt (and there is at least one)"""
    from .common import ret_err_sites
    F = ctx.facts[cfg]
    n = 0
    # closures the function itself creates (after helper inlining these may be declared under another parent)
    made = set()
    for blk in fn.blocks:
        for st in blk["stmts"]:
            if st["k"] == "assign" and st["rv"]["k"] == "aggregate" and st["rv"].get("agg") == "closure":
                made.add(st["rv"].get("def"))
    for p, b in list(F.bodies.items()):
        if not ("mir" in b and (p == fn.path or (b.get("kind") == "Closure" and (b.get("parent") == fn.path or p in made)))):
            continue
        g = F.fn(p)
        for blk in g.blocks:
            for st in blk["stmts"]:
                if st["k"] == "assign" and st["rv"]["k"] == "aggregate" and (st["rv"].get("adt") or "").endswith("error::Error"):
                    n += 1
                    if st["rv"].get("variant_name") != "Decrypt":
                        return False, "a failed verification is reported as Error::%s, not Error::Decrypt" % st["rv"].get("variant_name")
    if n == 0:
        return False, "no Error::Decrypt is constructed in the decrypt wrapper"
    return True, ""


def ok_without_success(ctx, cfg, fn, backend_names):
    """block of an `_0 = Ok(..)` reachable on a path that never takes a success edge of the backend call, else None"""
    from .common import ret_ok_sites
    G = ctx.guards(cfg, fn)
    shorts = [b.split("::")[-1] for b in backend_names]

    def about_backend(e):
        if any(mentions_str(e, x) for x in shorts):
            return True
        # a borrowed local holding the Result of the backend call
        found = []

        def rec(d):
            if isinstance(d, tuple):
                if len(d) == 2 and d[0] == "loc" and isinstance(d[1], int):
                    found.append(d[1])
                for x in d:
                    rec(x)
            elif isinstance(d, frozenset):
                for x in d:
                    rec(x)
        rec(e)
        for l in found:
            defs = fn.defs().get(l, [])
            if len(defs) == 1 and defs[0][1] == "term" and any((defs[0][2]["callee"].get("def") or "").endswith(x) for x in shorts):
                return True
        return False

    def success(f):
        if f[0] == "ok":
            return about_backend(f[1])
        if f[0] == "bool" and isinstance(f[1], tuple) and f[1] and f[1][0] == "call" and about_backend(f[1]):
            nm = (f[1][1] or "")
            if nm.endswith("::is_err"):
                return f[2] is False
            if nm.endswith("::is_ok"):
                return f[2] is True
        return False

    oks = {b for b, st in ret_ok_sites(fn)}
    seen = set()
    stack = [0]
    while stack:
        b = stack.pop()
        if b in seen:
            continue
        seen.add(b)
        if b in oks:
            return b
        for x in fn.succs(b):
            if any(success(f) for f in G.edge_facts.get((b, x), ())):
                continue
            stack.append(x)
    return None


def out_writers(ctx, cfg, fn, out_ext, allowed):
    """names of calls (other than re-slicing and `allowed`) that receive a &mut possibly aliasing external parameter out_ext"""
    from .tokens import norm_callee
    E = ctx.eff(cfg)
    pts = E.pts[fn.path]
    bad = []
    for bi, t in fn.calls():
        for a in t["args"]:
            ty = E._op_ty(fn, a)
            if ty is not None and ty["k"] == "refmut" and any(r == ("ext", out_ext) for r, p in (pts._val_pts(a) or set())):
                nc = norm_callee(t["callee"].get("def") or "")
                if nc in ("IndexMut::index_mut", "Index::index", "slice::len", "DerefMut::deref_mut") or nc in allowed:
                    continue
                bad.append(nc or "?")
    return sorted(set(bad))
