"""Helpers shared by the per-property rule modules."""
from ..expr import Resolver, show, strip_bb
from ..flow import fields_only, path_str

U64MAX = (1 << 64) - 1


def where(fn, t=None):
    if t is not None and "l" in t:
        return "%s:%d" % (fn.file, t["l"])
    return "%s:%d" % (fn.file, fn.line)


def short(path):
    """crate-relative short def path: snow::a::b::C::f -> C::f ; impl methods keep the impl type"""
    p = path
    if p.startswith("snow::"):
        p = p[len("snow::"):]
    return p


def calls_to(F, defs):
    """all call sites in the crate whose *declared* callee (trait method or fn) is in defs"""
    out = []
    for fn in F.fns():
        for bi, t in fn.calls():
            if t["callee"].get("def") in defs:
                out.append((fn, bi, t))
    return out


def cipher_calls(F):
    c = F.crate
    enc = c + "::types::Cipher::encrypt"
    dec = c + "::types::Cipher::decrypt"
    out = []
    for fn in F.fns():
        for bi, t in fn.calls():
            d = t["callee"].get("def")
            if d == enc:
                out.append((fn, bi, t, "encrypt"))
            elif d == dec:
                out.append((fn, bi, t, "decrypt"))
    return out


def err_variant(e):
    """describe an error-value expression: ('Input',) / ('State','Exhausted') / None"""
    if e[0] == "agg" and e[1] and e[1].endswith("error::Error"):
        if e[3]:
            inner = e[3][0]
            if inner[0] == "agg":
                return (e[2], inner[2])
            return (e[2], "?")
        return (e[2],)
    if e[0] == "call" and e[1] and e[1].endswith("convert::Into::into") and e[3]:
        inner = e[3][0]
        if inner[0] == "agg" and inner[1]:
            enum = inner[1].split("::")[-1]
            wrap = {"StateProblem": "State", "InitStage": "Init", "Prerequisite": "Prereq", "PatternProblem": "Pattern"}.get(enum)
            if wrap:
                return (wrap, inner[2])
    if e[0] == "call" and e[1] and e[1].endswith("convert::From::from") and e[3]:
        inner = e[3][0]
        if inner[0] == "agg" and inner[1]:
            enum = inner[1].split("::")[-1]
            wrap = {"StateProblem": "State", "InitStage": "Init", "Prerequisite": "Prereq", "PatternProblem": "Pattern"}.get(enum)
            if wrap:
                return (wrap, inner[2])
    return None


def ret_err_sites(fn, R):
    """[(bb, variant-or-None, stmt)] for every `_0 = Err(..)` in fn — and for every Err(..) built into another local
    of the function's own return type (the return value of an inlined helper, which reaches `_0` through `?`)"""
    out = []
    rty = fn.locals[0]["ty"]
    for bi, b in enumerate(fn.blocks):
        if b.get("cleanup"):
            continue
        for s in b["stmts"]:
            if s["k"] == "assign" and not s["place"]["proj"] and (s["place"]["local"] == 0 or result_err_compatible(fn, s["place"]["local"], rty)):
                rv = s["rv"]
                if rv["k"] == "aggregate" and rv.get("agg") == "adt" and rv["adt"].endswith("result::Result") and rv["variant_name"] == "Err":
                    e = strip_bb(R.op(rv["ops"][0]))
                    out.append((bi, err_variant(e), s))
        # `opt.ok_or(E)?` / `res.map_err(..)?`-free form: the residual handed to from_residual carries E
        t = b["term"]
        if t["k"] == "call" and not t["dest"]["proj"] and (t["dest"]["local"] == 0 or result_err_compatible(fn, t["dest"]["local"], rty)) and (t["callee"].get("def") or "").endswith("FromResidual::from_residual") and t["args"]:
            ae = strip_bb(R.op(t["args"][0]))
            c = find_call(ae, ("Option::<T>::ok_or",))
            if c is not None and len(c[3]) >= 2:
                v = err_value_variant(strip_bb(c[3][1]))
                if v is not None:
                    out.append((bi, v, t))
            else:
                g = find_agg(ae, "result::Result", "Err")
                if g is not None and g[3]:
                    v = err_value_variant(strip_bb(g[3][0]))
                    if v is not None:
                        out.append((bi, v, t))
                elif t["args"][0].get("k") in ("move", "copy"):
                    # the residual may reach here from several definitions: follow the moves back to the Err(..) values
                    vs = residual_errors(fn, R, t["args"][0]["place"]["local"])
                    if vs is not None and len(vs) == 1:
                        out.append((bi, next(iter(vs)), t))
    return out


def find_call(e, suffixes, depth=0):
    """first call expression in e whose callee ends with one of `suffixes`"""
    if not isinstance(e, tuple) or depth > 12:
        return None
    if e and e[0] == "call" and isinstance(e[1], str) and e[1].endswith(tuple(suffixes)):
        return e
    for x in e:
        if isinstance(x, tuple):
            r = find_call(x, suffixes, depth + 1)
            if r is not None:
                return r
    return None


def find_agg(e, adt_suffix, variant, depth=0):
    if not isinstance(e, tuple) or depth > 12:
        return None
    if e and e[0] == "agg" and isinstance(e[1], str) and e[1].endswith(adt_suffix) and e[2] == variant:
        return e
    for x in e:
        if isinstance(x, tuple):
            r = find_agg(x, adt_suffix, variant, depth + 1)
            if r is not None:
                return r
    return None


def err_value_variant(e):
    """variant description of an error *value* that `?` converts into snow's Error (From impls of error.rs)"""
    if e[0] == "agg" and e[1]:
        enum = e[1].split("::")[-1]
        wrap = {"StateProblem": "State", "InitStage": "Init", "Prerequisite": "Prereq", "PatternProblem": "Pattern"}.get(enum)
        if wrap:
            return (wrap, e[2])
        if e[1].endswith("error::Error"):
            return err_variant(e)
    if e[0] == "call" and e[1] and e[1].endswith(("convert::Into::into", "convert::From::from")) and e[3]:
        return err_value_variant(e[3][0])
    return None


def result_err_compatible(fn, local, rty):
    """local is a Result whose error type is the error type of the function's return type"""
    lt = fn.locals[local]["ty"]
    if lt == rty:
        return True
    a = fn.facts.types[lt]
    b = fn.facts.types[rty]
    sa, sb = a.get("s", ""), b.get("s", "")
    if not (sa.startswith("std::result::Result<") and sb.startswith("std::result::Result<")):
        return False
    return sa.rsplit(",", 1)[-1].strip() == sb.rsplit(",", 1)[-1].strip()


def ret_ok_sites(fn):
    out = []
    for bi, b in enumerate(fn.blocks):
        for s in b["stmts"]:
            if s["k"] == "assign" and s["place"]["local"] == 0 and not s["place"]["proj"]:
                rv = s["rv"]
                if rv["k"] == "aggregate" and rv.get("agg") == "adt" and rv["adt"].endswith("result::Result") and rv["variant_name"] == "Ok":
                    out.append((bi, s))
    return out


def self_paths(ws, argidx=0):
    """field chains written under argument `argidx`"""
    return sorted({".".join(ch) for (a, ch) in ws if a == argidx})


def fmt_ws(fn, ws):
    return sorted(fn.arg_name(a + 1) + "".join("." + x for x in ch) for a, ch in ws)


def tested_on_path(fn, G, R, at_bb, call_bb):
    """the outcome of the call issued in block call_bb (or of an adaptor applied to its result) was tested on every path
    to at_bb"""
    for f in G.at_entry(at_bb) | G.before_term(at_bb):
        if f[0] == "hist":
            hb = f[2]
            if hb == call_bb:
                return True
            t = fn.blocks[hb]["term"]
            if t["k"] == "call" and mentions_call_at(R.call_expr(hb, t), call_bb, fn, R):
                return True
    return False


def mentions_call_at(e, bb, fn=None, R=None, depth=0):
    """expression tree contains the call issued in block bb (possibly through a reference to the local holding its result)"""
    if not isinstance(e, (tuple, frozenset)) or depth > 14:
        return False
    if isinstance(e, tuple) and e and e[0] == "call" and len(e) > 4 and e[4] == bb:
        return True
    if isinstance(e, tuple) and len(e) == 2 and e[0] == "loc" and isinstance(e[1], int) and fn is not None:
        ds = fn.defs().get(e[1], [])
        if len(ds) == 1 and ds[0][1] == "term" and ds[0][0] == bb:
            return True
    return any(mentions_call_at(x, bb, fn, R, depth + 1) for x in e if isinstance(x, (tuple, frozenset)))



def residual_errors(fn, R, local, depth=0, seen=None):
    """variants of the Err(..) values that can flow (through moves, Try::branch and Break payload reads) into `local`;
    None when some source is not understood"""
    seen = seen if seen is not None else set()
    if local in seen or depth > 10:
        return set()
    seen.add(local)
    out = set()
    defs = fn.defs().get(local, [])
    if not defs:
        return None
    for (bi, si, st) in defs:
        if si == "term":
            d = st["callee"].get("def") or ""
            if d.endswith("ops::Try::branch") and st["args"] and st["args"][0].get("k") in ("move", "copy") and not st["args"][0]["place"]["proj"]:
                r = residual_errors(fn, R, st["args"][0]["place"]["local"], depth + 1, seen)
                if r is None:
                    return None
                out |= r
                continue
            return None
        if st.get("k") != "assign" or st["place"]["proj"]:
            return None
        rv = st["rv"]
        if rv["k"] == "aggregate" and (rv.get("adt") or "").endswith("result::Result"):
            if rv.get("variant_name") == "Err":
                v = err_value_variant(strip_bb(R.op(rv["ops"][0])))
                if v is None:
                    return None
                out.add(v)
            continue
        if rv["k"] == "use" and rv["op"].get("k") in ("move", "copy"):
            r = residual_errors(fn, R, rv["op"]["place"]["local"], depth + 1, seen)
            if r is None:
                return None
            out |= r
            continue
        return None
    return out
