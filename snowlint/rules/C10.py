"""C10 — total API: no public operation panics."""
from .. import hir, panics
from ..expr import strip_bb, show
from . import tables
from .common import where, short

LEVEL = "other"
CFGS_THOROUGH = ["A", "B", "D", "E"]  # hfs (cfg C) is analysed separately: see DESIGN.md F6
EXPLANATION = (
    "Decided clause: every panic-capable MIR site in snow's own code (overflow/bounds Assert terminators, range and "
    "integer indexing, copy_from_slice, unwrap/expect, explicit panics/assert!/unreachable!) is discharged by lenproof — "
    "a forward abstract interpretation over conjunctions of linear constraints on symbolic lengths (join with "
    "widening at merge points, Fourier–Motzkin entailment), modular over written contracts: every function is verified "
    "against its contract and every call site must establish the callee's precondition; trait contracts (constant "
    "getters within the MAX* constants, pubkey().len() == pub_len()) are verified on every local impl. A short list of "
    "non-arithmetic sites is 'justified' with a stated reason (dependency behaviour such as AEAD encryption failing only "
    "beyond 2^36 bytes; table facts such as pre-message lists containing only s/e). Termination: every loop is a `for` "
    "over a finite iterator and the local call graph is acyclic. Not analysed: internals of dependencies, allocation "
    "failure, foreign resolver objects (covered by the stated trait contracts)."
)


def run(ctx):
    ctx.rule("lenproof", "each panic-capable site / call precondition / postcondition is entailed by the facts established on every path to it")
    ctx.rule("lenproof-justified", "non-arithmetic sites with a recorded, checked reason")
    ctx.rule("trait-contract", "constant getters of every local Dh/Hash/Kem impl satisfy the trait contract bounds")
    ctx.rule("field-invariant", "fields assumed bounded are bounded at every writer")
    ctx.rule("psk-token-source", "Token::Psk(n) is constructed only by apply_psk_modifier (so n <= #messages < 10)")
    ctx.rule("termination", "all loops are `for` loops over finite iterators; no recursion among snow's functions")
    ctx.rule("site-inventory", "the prover visited every panic-capable site of the inventory")
    ctx.trust("rustc MIR (debug assertions / overflow checks as Assert terminators at mir-opt-level 0); snowfacts; lin.py Fourier–Motzkin; contracts.py")
    ctx.assume("every slice length is at most 2^62-1 (Rust guarantees isize::MAX; the stronger bound holds on every 64-bit platform)")
    ctx.assume("foreign Cipher/Hash/Dh/Kem implementations satisfy the trait contracts listed in contracts.py")
    for cfg in ctx.cfgs:
        F = ctx.facts[cfg]
        P = ctx.lenproof(cfg)
        n = 0
        nj = 0
        for r in P.results:
            key = "%s:%s" % (short(r["fn"]), r["key"])
            if r["status"] == "justified":
                nj += 1
                ctx.ob("lenproof-justified", key, True, r["what"], r["where"], cfg)
            else:
                n += 1
                ctx.ob("lenproof", key, r["status"] == "proved", r["what"], r["where"], cfg)
        ctx.floor("lenproof", n, 200, cfg)
        for k in sorted(getattr(P, "external_used", ())):
            ctx.assume(P.C.EXTERNAL_FACTS[k])
        # every inventoried site was visited
        inv = 0
        for fn in F.fns():
            reach = fn.reachable()
            inv += sum(1 for (b, k, t) in panics.sites(fn) if b in reach)
        visited = sum(1 for r in P.results if r["kind"] not in ("precondition", "postcondition"))
        ctx.ob("site-inventory", "all", visited >= inv, "%d panic-capable sites inventoried, %d visited" % (inv, visited), None, cfg)
        trait_contracts(ctx, cfg, P)
        field_invariants(ctx, cfg, P)
        psk_source(ctx, cfg)
        termination(ctx, cfg)


def trait_contracts(ctx, cfg, P):
    from ..lenproof import const_return
    F = ctx.facts[cfg]
    C = P.C
    n = 0
    by_impl = {}
    for p, b in F.bodies.items():
        ti = b.get("trait_item")
        if ti in C.const_getters and "mir" in b:
            g = F.fn(p)
            v = const_return(g)
            hi, lo = C.const_getters[ti]
            ok = v is not None and lo <= v <= hi
            n += 1
            by_impl.setdefault(b.get("impl"), {})[ti] = v
            ctx.ob("trait-contract", short(p), ok,
                   "%s() = %s within [%d, %d]" % (ti.split("::")[-1], v, lo, hi) if ok else "%s() returns %s, outside the trait contract [%d, %d] (buffers are sized by the MAX* constants)" % (ti.split("::")[-1], v, lo, hi),
                   where(g), cfg)
    for im, ms in by_impl.items():
        for (m1, m2) in C.getter_rel:
            if m1 in ms and m2 in ms and ms[m1] is not None and ms[m2] is not None:
                ok = ms[m1] <= ms[m2]
                ctx.ob("trait-contract", "%s:%s<=%s" % (short(im or "?"), m1.split("::")[-1], m2.split("::")[-1]), ok,
                       "%s <= %s" % (m1.split("::")[-1], m2.split("::")[-1]) if ok else "%s (%d) exceeds %s (%d)" % (m1.split("::")[-1], ms[m1], m2.split("::")[-1], ms[m2]), None, cfg)
    ctx.floor("trait-contract", n, 6, cfg)


def field_invariants(ctx, cfg, P):
    from . import nonce
    from ..lin import Lin
    from .. import lin as LN
    F = ctx.facts[cfg]
    n = 0
    for (adt_short, field), bound in P.C.field_invariants.items():
        adts = [a for a in F.adts if a.endswith("::" + adt_short)]
        for adt in adts:
            for (fn, bi, s, val, how) in nonce.field_writes(ctx, cfg, adt, field):
                A = P.analysis(fn)
                e = A.R.rvalue(s["rv"]) if how == "assign" else None
                if how == "init":
                    idx = s["rv"]["field_names"].index(field)
                    e = A.R.op(s["rv"]["ops"][idx])
                l = A.L.lin(e) if e is not None else None
                st = A.state_before_term(bi, upto=fn.blocks[bi]["stmts"].index(s))
                ok = False
                if l is not None and st is not None:
                    ok, _ = P.prove(A, st, [LN.le(l, Lin.const(bound))])
                n += 1
                ctx.ob("field-invariant", "%s.%s@%s" % (adt_short, field, short(fn.path)), ok,
                       "%s.%s <= %d at this writer" % (adt_short, field, bound) if ok else "%s.%s may exceed %d here (readers slice fixed buffers with it)" % (adt_short, field, bound), where(fn, s), cfg)
    ctx.floor("field-invariant", n, 2, cfg)


def psk_source(ctx, cfg):
    F = ctx.facts[cfg]
    tok = F.crate + "::params::patterns::Token"
    sites = []
    for fn in F.fns():
        for bi, b in enumerate(fn.blocks):
            for s in b["stmts"]:
                if s["k"] == "assign" and s["rv"]["k"] == "aggregate" and s["rv"].get("agg") == "adt" and s["rv"]["adt"] == tok and s["rv"]["variant_name"] == "Psk":
                    sites.append((fn, s))
    for (fn, s) in sites:
        ok = fn.path.endswith("params::patterns::apply_psk_modifier")
        ctx.ob("psk-token-source", short(fn.path), ok, "Token::Psk constructed in apply_psk_modifier (index validated against the message count)" if ok else "Token::Psk constructed outside apply_psk_modifier: psks[n] could be indexed out of range", where(fn, s), cfg)
    ctx.floor("psk-token-source", len(sites), 1, cfg)
    # also statics (pattern rows) must not contain Psk tokens
    table, lines, body = tables.extract_patterns(ctx, cfg)
    bad = [n for n, row in table.items() if any(isinstance(t, tuple) and t[0] == "Psk" for m in row[2] for t in m)]
    ctx.ob("psk-token-source", "pattern-table", not bad, "no literal Psk token in the pattern table" if not bad else "pattern rows %s contain literal Psk tokens" % bad, None, cfg)
    pre = [n for n, row in table.items() if not all(t in ("S", "E") for t in row[0] + row[1])]
    ctx.ob("psk-token-source", "premsg-tokens", not pre, "pre-message lists contain only s / e" if not pre else "pre-message lists of %s contain other tokens (unreachable!() would panic)" % pre, None, cfg)


def termination(ctx, cfg):
    F = ctx.facts[cfg]
    E = ctx.eff(cfg)
    n = 0
    bad = []
    for p, b in F.bodies.items():
        if "hir" not in b:
            continue
        for e in hir.walk(b["hir"]["value"]):
            if e.get("k") == "loop":
                n += 1
                if not e.get("src", "").startswith("ForLoop"):
                    bad.append((p, e.get("src")))
    ctx.ob("termination", "loops", not bad, "all %d loops are `for` loops" % n if not bad else "non-`for` loop (%s) in %s" % (bad[0][1], short(bad[0][0])), None, cfg)
    # acyclic local call graph
    graph = {}
    for fn in F.fns():
        outs = set()
        for bi, t in fn.calls():
            if t["callee"].get("inst") == "virtual":
                # dynamic dispatch through an owned Box<dyn _>: the ownership tree is finite, so a resolver nested in a
                # FallbackResolver terminates by structural descent
                continue
            tg, _ = E.targets(t)
            outs.update(tg)
        graph[fn.path] = outs
    color = {}
    cyc = []

    def dfs(u, stack):
        color[u] = 1
        for v in graph.get(u, ()):
            if color.get(v) == 1:
                cyc.append(stack + [u, v])
            elif color.get(v) is None:
                dfs(v, stack + [u])
        color[u] = 2
    import sys
    sys.setrecursionlimit(10000)
    for u in graph:
        if color.get(u) is None:
            dfs(u, [])
    ctx.ob("termination", "no-recursion", not cyc, "local call graph (%d functions) is acyclic" % len(graph) if not cyc else "recursion: %s" % " -> ".join(short(x) for x in cyc[0][-3:]), None, cfg)
