"""C19 — a rejected message never leaks decrypted plaintext."""
from ..template import actual_events
from . import aead, coverage, spec_templates
from .common import where, short

LEVEL = "other"
EXPLANATION = (
    "Decided for snow's own code: (1) who-may-call — inside every local Cipher impl only the audited AEAD entry points of "
    "the backends are called (detached verify-then-decrypt of RustCrypto, open_in_place of ring); any raw keystream/block "
    "primitive would be a violation; (2) ordering in each wrapper — before the backend call only ciphertext bytes are "
    "copied into the caller's output buffer, and after it the output buffer is written only with data that exists on the "
    "call's success path (ring's small-buffer path copies from the verified temporary); (3) between the wrappers and the "
    "public API nothing else writes the output buffer: CipherState/SymmetricState decrypt paths write `out` only through "
    "Cipher::decrypt, or — without a key — copy the (unencrypted) input itself. Assumed and recorded: the backends' own "
    "verify-before-decrypt ordering and ring's zeroing of in_out on failure (dependency behaviour at the Cargo.lock "
    "versions)."
)


def run(ctx):
    ctx.rule("verify-then-decrypt-only", "only AEAD entry points of the backends are called from Cipher impls")
    ctx.rule("aead-no-leak", "output buffer receives only ciphertext before, and only verified data after, the AEAD call")
    ctx.rule("out-writers", "no other write to the caller's output buffer on the decrypt paths")
    ctx.rule("aead-error", "verification failure is an error")
    ctx.trust("rustc MIR; snowfacts")
    ctx.assume("RustCrypto aead 0.5 decrypt_in_place_detached verifies the tag before applying the keystream; ring 0.17 open_in_place does not expose plaintext on failure")
    for cfg in ctx.cfgs:
        F = ctx.facts[cfg]
        E = ctx.eff(cfg)
        ctx.floor("verify-then-decrypt-only", coverage.raw_primitive_calls(ctx, cfg), 8 if cfg != "D" else 4, cfg)
        aead.check_wrappers(ctx, cfg, {"no-leak": 1, "error": 1})
        # decrypt paths above the wrappers: the only events touching `out`
        for name, outp, allowed in (
            ("cipherstate::CipherState::decrypt_ad", 4, {"Cipher::decrypt"}),
            ("cipherstate::StatelessCipherState::decrypt_ad", 5, {"Cipher::decrypt"}),
            ("cipherstate::CipherState::decrypt", 3, {"CipherState::decrypt_ad"}),
            ("cipherstate::StatelessCipherState::decrypt", 4, {"StatelessCipherState::decrypt_ad"}),
            ("symmetricstate::SymmetricState::decrypt_and_mix_hash", 3, {"CipherState::decrypt_ad", "copy_from_slice"}),
            ("handshakestate::HandshakeState::_read_message", 3, {"SymmetricState::decrypt_and_mix_hash"}),
            ("handshakestate::HandshakeState::read_message", 3, {"HandshakeState::_read_message"}),
            ("transportstate::TransportState::read_message", 3, {"CipherState::decrypt"}),
            ("stateless_transportstate::StatelessTransportState::read_message", 4, {"StatelessCipherState::decrypt"}),
        ):
            fn = F.one_fn(name)
            pts = E.pts[fn.path]
            bad = []
            n = 0
            for bi, t in fn.calls():
                writes_out = False
                for a in t["args"]:
                    ty = E._op_ty(fn, a)
                    if ty is not None and ty["k"] in ("refmut",):
                        if any(r == ("ext", outp) for r, p in (pts._val_pts(a) or set())):
                            writes_out = True
                if writes_out:
                    n += 1
                    from .tokens import norm_callee
                    nc = norm_callee(t["callee"].get("def") or "")
                    if nc in ("IndexMut::index_mut", "Index::index", "slice::len", "DerefMut::deref_mut"):
                        n -= 1
                        continue  # re-slicing writes nothing
                    if nc not in allowed:
                        bad.append(nc)
                    elif nc == "copy_from_slice":
                        # only the no-key branch may copy, and only the input itself
                        evs = [e for e in actual_events(ctx, cfg, fn, {"copy_from_slice"}) if e[0] == "call" and e[4] == bi]
                        if not evs or evs[0][3] != {"has_key": False} or evs[0][2][1] != ("param", 2):
                            bad.append("copy_from_slice of %s under %s" % (evs[0][2][1] if evs else "?", evs[0][3] if evs else "?"))
            if name.endswith("HandshakeState::_read_message") and n != 1:
                # exactly one decrypt may target the caller's buffer: the payload itself, last; key fields decrypt into the session
                bad.append("%d calls write into the payload buffer (only the final payload decryption may)" % n)
            ctx.ob("out-writers", short(fn.path), not bad and n >= 1, "the output buffer is written only through %s" % sorted(allowed) if not bad and n >= 1 else "output buffer also written by %s" % bad, where(fn), cfg)
