"""Nonce discipline rules shared by C05, C06, C09."""
from ..expr import Resolver, show, strip_bb
from ..flow import fields_only, is_result_ty
from .common import U64MAX, where, short, cipher_calls, ret_err_sites, ret_ok_sites, err_variant, calls_to


# ------------------------------------------------------------------ tiny interval sets over u64
def full():
    return [(0, U64MAX)]


def inter(a, b):
    out = []
    for (l1, h1) in a:
        for (l2, h2) in b:
            l, h = max(l1, l2), min(h1, h2)
            if l <= h:
                out.append((l, h))
    return out


def cmp_set(op, c, truth):
    """values v with (v op c) == truth"""
    if not truth:
        op = {"Eq": "Ne", "Ne": "Eq", "Lt": "Ge", "Ge": "Lt", "Gt": "Le", "Le": "Gt"}[op]
    if op == "Eq":
        return [(c, c)] if 0 <= c <= U64MAX else []
    if op == "Ne":
        r = []
        if c > 0:
            r.append((0, min(c - 1, U64MAX)))
        if c < U64MAX:
            r.append((max(c + 1, 0), U64MAX))
        return r
    if op == "Lt":
        return [(0, c - 1)] if c > 0 else []
    if op == "Le":
        return [(0, min(c, U64MAX))] if c >= 0 else []
    if op == "Gt":
        return [(c + 1, U64MAX)] if c < U64MAX else []
    if op == "Ge":
        return [(max(c, 0), U64MAX)] if c <= U64MAX else []
    return full()


FLIP = {"Eq": "Eq", "Ne": "Ne", "Lt": "Gt", "Gt": "Lt", "Le": "Ge", "Ge": "Le"}


def var_set(facts, var):
    """interval set of `var` implied by comparison facts; (set, unmodelled:list)"""
    s = full()
    unm = []
    for f in facts:
        if f[0] == "cmp":
            _, op, a, b, truth = f
            if a == var and b[0] == "const":
                s = inter(s, cmp_set(op, b[1], truth))
            elif b == var and a[0] == "const":
                s = inter(s, cmp_set(FLIP[op], a[1], truth))
            elif mentions(a, var) or mentions(b, var):
                unm.append(f)
        elif mentions(f, var):
            unm.append(f)
    return s, unm


def mentions(e, var):
    if e == var:
        return True
    if isinstance(e, tuple):
        return any(mentions(x, var) for x in e if isinstance(x, tuple))
    return False


def set_contains(s, v):
    return any(l <= v <= h for l, h in s)


# ------------------------------------------------------------------ validators
def find_validators(ctx, cfg):
    """local fns (u64) -> Result<(), Error>: candidates for the nonce validation function.
    Returns {path: True/False (shape ok)} and records obligations."""
    F = ctx.facts[cfg]
    res = {}
    for fn in F.fns():
        if fn.argc != 1 or fn.local_ty(1)["s"] != "u64":
            continue
        if not is_result_ty(fn.local_ty_s(0)) or "error::Error" not in fn.local_ty_s(0):
            continue
        G = ctx.guards(cfg, fn)
        R = G.R
        var = ("arg", 1)
        ok = True
        why = []
        errs = ret_err_sites(fn, R)
        oks = ret_ok_sites(fn)
        if not errs or not oks:
            continue
        err_union = []
        for (bi, variant, s) in errs:
            facts = G.before_term(bi) if False else G.at_entry(bi)
            st, unm = var_set(facts, var)
            if unm:
                raise_inconclusive(ctx, "validator %s: unmodelled condition %s" % (fn.path, unm[0]))
            err_union += st
            if variant != ("State", "Exhausted"):
                ok = False
                why.append("error exit returns %s, expected State(Exhausted)" % (variant,))
        ok_union = []
        for (bi, s) in oks:
            st, unm = var_set(G.at_entry(bi), var)
            if unm:
                raise_inconclusive(ctx, "validator %s: unmodelled condition %s" % (fn.path, unm[0]))
            ok_union += st
        rejected_exactly_max = sorted(set(err_union)) == [(U64MAX, U64MAX)]
        accepted_excludes_max = not set_contains(ok_union, U64MAX)
        accepts_rest = inter(ok_union, [(0, U64MAX - 1)])
        covers = sum(h - l + 1 for l, h in set(accepts_rest)) == U64MAX
        if not rejected_exactly_max:
            ok = False
            why.append("rejected set is %s, expected exactly {2^64-1}" % fmt_set(err_union))
        if not accepted_excludes_max:
            ok = False
            why.append("accepting path reachable with nonce 2^64-1")
        if not covers:
            ok = False
            why.append("accepted set %s does not cover 0..2^64-2" % fmt_set(ok_union))
        res[fn.path] = ok
        ctx.ob("validate-shape", short(fn.path), ok,
               "nonce validator rejects exactly 2^64-1 with State(Exhausted)" if ok else "; ".join(why),
               where(fn), cfg)
    return res


def fmt_set(s):
    return "{" + ", ".join(("%d" % l if l == h else "%d..=%d" % (l, h)) for l, h in sorted(set(s))) + "}"


def raise_inconclusive(ctx, msg):
    from ..facts import Inconclusive
    raise Inconclusive(msg)


# ------------------------------------------------------------------ guarded cipher calls
def check_guarded_cipher_calls(ctx, cfg, validators, rule="nonce-guard"):
    F = ctx.facts[cfg]
    sites = cipher_calls(F)
    rekey_default = F.crate + "::types::Cipher::rekey"
    n_guarded = 0
    n_rekey = 0
    for (fn, bi, t, kind) in sites:
        G = ctx.guards(cfg, fn)
        R = G.R
        nonce = strip_bb(R.op(t["args"][1]))
        key = "%s:%s" % (short(fn.path), kind)
        if fn.path == rekey_default or fn.body.get("trait_item") == rekey_default:
            n_rekey += 1
            okc = nonce == ("const", U64MAX)
            ctx.ob("rekey-reserved-nonce", key, okc,
                   "Cipher::rekey encrypts under the reserved nonce 2^64-1" if okc else "Cipher::rekey uses nonce %s, REKEY requires 2^64-1" % show(nonce, fn),
                   where(fn, t), cfg)
            continue
        # every other call: nonce must not be the reserved constant, and must be validated
        if nonce[0] == "const":
            ctx.ob(rule, key, False, "cipher call with constant nonce %d outside Cipher::rekey" % nonce[1], where(fn, t), cfg)
            continue
        facts = G.before_term(bi)
        ok = False
        for f in facts:
            if f[0] == "ok" and f[1][0] == "call" and validators.get(f[1][2] or f[1][1]) and f[1][3] and f[1][3][0] == nonce:
                ok = True
            if f[0] == "cmp":
                st, unm = var_set([f], nonce)
                if not unm and not set_contains(st, U64MAX):
                    ok = True
        n_guarded += 1
        ctx.ob(rule, key, ok,
               "Cipher::%s(nonce=%s) is dominated by successful validation of that same nonce" % (kind, show(nonce, fn)) if ok
               else "Cipher::%s(nonce=%s) is reachable without a successful validation of that nonce (2^64-1 not excluded)" % (kind, show(nonce, fn)),
               where(fn, t), cfg)
    return n_guarded, n_rekey


def check_rekey_not_overridden(ctx, cfg):
    F = ctx.facts[cfg]
    tr = F.crate + "::types::Cipher"
    n = 0
    for im in F.impls:
        if im.get("trait") == tr:
            n += 1
            names = [i["name"] for i in im["items"]]
            ok = "rekey" not in names
            ctx.ob("rekey-not-overridden", im["self_s"], ok,
                   "impl Cipher for %s uses the default REKEY" % im["self_s"] if ok else "impl Cipher for %s overrides rekey()" % im["self_s"],
                   "%s:%d" % (im["span"]["f"], im["span"]["l"]), cfg)
    return n


# ------------------------------------------------------------------ writers of CipherState.n
def n_field_writes(ctx, cfg):
    """all direct writes (assignments / struct literals) to field `n` of cipherstate::CipherState"""
    F = ctx.facts[cfg]
    return field_writes(ctx, cfg, F.crate + "::cipherstate::CipherState", "n")


def field_writes(ctx, cfg, cs, field):
    """all direct writes (assignments / struct literals) to `field` of ADT `cs` in the crate:
    [(fn, bb, stmt, value-expr, 'assign'|'init')]"""
    F = ctx.facts[cfg]
    out = []
    for fn in F.fns():
        R = None
        for bi, b in enumerate(fn.blocks):
            for s in b["stmts"]:
                if s["k"] != "assign":
                    continue
                pl = s["place"]
                # field write: ... .n where the parent type is CipherState
                if pl["proj"] and pl["proj"][-1]["k"] == "field" and pl["proj"][-1].get("name") == field:
                    # parent type: check via the type of the place one level up
                    parent_ty = place_parent_ty(F, fn, pl)
                    if parent_ty and parent_ty.get("adt") == cs:
                        R = R or ctx.guards(cfg, fn).R
                        out.append((fn, bi, s, strip_bb(R.rvalue(s["rv"])), "assign"))
                rv = s["rv"]
                if rv["k"] == "aggregate" and rv.get("agg") == "adt" and rv["adt"] == cs:
                    R = R or ctx.guards(cfg, fn).R
                    idx = rv["field_names"].index(field)
                    out.append((fn, bi, s, strip_bb(R.op(rv["ops"][idx])), "init"))
    return out


def place_parent_ty(F, fn, pl):
    proj = pl["proj"]
    if len(proj) >= 2:
        for e in reversed(proj[:-1]):
            if e["k"] == "field":
                return F.types[e["ty"]]
            if e["k"] == "deref":
                break
    # base local (maybe through deref)
    t = fn.local_ty(pl["local"])
    derefs = sum(1 for e in proj[:-1] if e["k"] == "deref")
    nonfield = [e for e in proj[:-1] if e["k"] == "field"]
    if not nonfield:
        while derefs and t["k"] in ("ref", "refmut"):
            t = F.types[t["inner"]]
            derefs -= 1
        return t
    return None


def check_n_writers(ctx, cfg):
    """complete inventory of writes to CipherState.n with their value and guard"""
    F = ctx.facts[cfg]
    ws = n_field_writes(ctx, cfg)
    for (fn, bi, s, val, how) in ws:
        key = "%s:%s" % (short(fn.path), how)
        G = ctx.guards(cfg, fn)
        if how == "init":
            ok = val == ("const", 0)
            ctx.ob("n-writers", key, ok, "CipherState constructed with n = %s%s" % (show(val, fn), "" if ok else " (must start at 0)"), where(fn, s), cfg)
            continue
        if val[0] == "arg":
            # a setter: value is a parameter; callers are checked separately
            ctx.ob("n-writers", key, True, "n := parameter %s (callers audited by n-set-callers)" % show(val, fn), where(fn, s), cfg)
            continue
        if val[0] == "bin" and val[1] == "Add" and val[3] == ("const", 1) and val[2][0] == "place":
            # increment: must follow a cipher call on its success path
            sites = [(f2, b2, t2, k2) for (f2, b2, t2, k2) in cipher_calls(F) if f2.path == fn.path]
            dominated = False
            kind = None
            for (_, cb, t2, k2) in sites:
                if not fn.dominates(cb, bi) or cb == bi:
                    continue
                if k2 == "encrypt":
                    dominated = True
                    kind = k2
                else:
                    facts = G.at_entry(bi)
                    for f in facts:
                        if f[0] == "ok" and f[1][0] == "call" and f[1][1] == t2["callee"]["def"]:
                            dominated = True
                            kind = k2
            ctx.ob("n-writers", key, dominated,
                   "n += 1 only after a successful Cipher::%s" % kind if dominated else "n += 1 is not confined to the success path of the cipher call",
                   where(fn, s), cfg)
            continue
        # a helper computing the next value: every return of the helper must be `argument + 1`
        if val[0] == "call" and len(val[3]) == 1 and val[3][0][0] == "place" and F.fn(val[2] or val[1]) is not None:
            g = F.fn(val[2] or val[1])
            R2 = ctx.guards(cfg, g).R
            rets = []
            for b2 in g.blocks:
                for st in b2["stmts"]:
                    if st["k"] == "assign" and st["place"]["local"] == 0 and not st["place"]["proj"]:
                        rets.append(strip_bb(R2.rvalue(st["rv"])))
            bad = [r for r in rets if r != ("bin", "Add", ("arg", 1), ("const", 1))]
            okh = bool(rets) and not bad
            ctx.ob("n-writers", key, okh, "n := %s(n), which returns n + 1 on every path" % short(g.path) if okh
                   else "n := %s(n) can return %s instead of n + 1 (the counter would not advance by exactly one)" % (short(g.path), show(bad[0], g) if bad else "?"), where(fn, s), cfg)
            continue
        ctx.ob("n-writers", key, False, "unexpected write n := %s" % show(val, fn), where(fn, s), cfg)
    return len(ws)


def check_n_setter_callers(ctx, cfg):
    """who may call the functions that assign n from a parameter"""
    F = ctx.facts[cfg]
    ws = n_field_writes(ctx, cfg)
    setters = {}
    for (fn, bi, s, val, how) in ws:
        if how == "assign" and val[0] == "arg":
            setters[fn.path] = val[1] - 1
    count = 0
    for sp, argi in setters.items():
        sfn = F.fn(sp)
        also_key = any(True for _ in [0]) and len(E_w(ctx, cfg, sp)) > 1
        for (fn, bi, t) in calls_to(F, {sp}):
            R = ctx.guards(cfg, fn).R
            v = strip_bb(R.op(t["args"][argi]))
            key = "%s->%s" % (short(fn.path), short(sp))
            count += 1
            rollback = False
            if also_key and v[0] == "place" and len(v[1]) == 1:
                (root, proj) = next(iter(v[1]))
                sm = ctx.eff(cfg).sums.get(fn.path)
                if root[0] == "loc" and 1 <= root[1] <= fn.argc and fn.local_ty(root[1])["k"] not in ("ref", "refmut") and sm and sm.assign_whole:
                    rollback = True
            if rollback:
                ctx.ob("n-set-callers", key, True,
                       "roll-back: re-installs key and nonce from a by-value checkpoint (audited by rule cipher-rollback)", where(fn, t), cfg)
            elif also_key:
                # key change (+ nonce): nonce must be the constant 0
                ok = v == ("const", 0)
                ctx.ob("n-set-callers", key, ok,
                       "key change sets n = 0" if ok else "key change sets n = %s (must be 0)" % show(v, fn), where(fn, t), cfg)
            else:
                # pure nonce setter: only the explicit receiving-nonce API may call it, on the receiving index
                okc = fn.body.get("reachable") and fn.path.endswith("TransportState::set_receiving_nonce")
                ctx.ob("n-set-callers", key, bool(okc),
                       "explicit nonce setter called from %s" % short(fn.path) if okc else "nonce setter called from unexpected function %s" % short(fn.path),
                       where(fn, t), cfg)
    return count


def E_w(ctx, cfg, path):
    s = ctx.eff(cfg).sums.get(path)
    return {ch for (a, ch) in (s.w_ok | s.w_err) if a == 0} if s else set()
