"""C02 — honest sessions complete, agree, deliver (mirror symmetry)."""
from ..expr import strip_bb
from . import tokens, roles, errpath, spec_templates, nonce
from .common import where, short

LEVEL = "other"
EXPLANATION = (
    "Agreement for every random ephemeral and payload is a runtime statement; decided is the mirror symmetry it needs: "
    "for every token the read arm's effect trace equals the write arm's with EncryptAndHash<->DecryptAndHash and own "
    "key<->received key exchanged (both compared with §5.3 and with each other); both epilogues Split() under the same "
    "condition into the same fields; EncryptAndHash and DecryptAndHash both mix the *ciphertext*; progress counters "
    "advance by one on Ok only, so both sides count the same messages; for every transport operation the initiator's "
    "write index equals the responder's read index (complementarity, stateful and stateless); both conversions move "
    "cipherstates/initiator/has_key unchanged; generate_keypair returns the generated private key with its public key."
)

MIRROR = {"SymmetricState::encrypt_and_mix_hash": "SymmetricState::decrypt_and_mix_hash"}


def run(ctx):
    from spec import processing as SP
    from spec import roles as SR
    ctx.rule("token-trace", "both arms equal the specification's trace")
    ctx.rule("mirror", "read arm = write arm with Encrypt<->Decrypt and own<->received key")
    ctx.rule("dataflow-template", "Encrypt/DecryptAndHash mix the ciphertext; Split writes (c1, c2)")
    ctx.rule("progress-on-ok", "pattern_position += 1 and turn flip only on Ok")
    ctx.rule("role-complement", "initiator write index == responder read index for every operation")
    ctx.rule("conversion-moves", "conversions keep the cipher pair, role and key flags")
    ctx.rule("keypair", "generate_keypair returns the generated key pair")
    ctx.rule("limit-exact", "every payload up to the maximum is accepted: the 65535-byte limit is applied exactly on both sides")
    ctx.trust("rustc MIR; snowfacts; spec/processing.py")
    ctx.rule("context-binding", "HandshakeState::new: initialize(name); mix_hash(prologue); pre-message keys by role, initiator's list first — identical on both sides")
    for cfg in ctx.cfgs:
        F = ctx.facts[cfg]
        n1, tw = tokens.compare(ctx, cfg, "handshakestate::HandshakeState::_write_message", SP.WRITE, SP.SEMANTIC, "token-trace")
        n2, tr = tokens.compare(ctx, cfg, "handshakestate::HandshakeState::_read_message", SP.READ, SP.SEMANTIC, "token-trace")
        # sibling comparison independent of the spec tables: SymmetricState call names per arm
        for arm in sorted(set(tw) & set(tr)):
            w = [MIRROR.get(e[0], e[0]) for e in tw[arm] if e[0].startswith("SymmetricState::")]
            r = [e[0] for e in tr[arm] if e[0].startswith("SymmetricState::")]
            gw = [e[2] for e in tw[arm] if e[0].startswith("SymmetricState::")]
            gr = [e[2] for e in tr[arm] if e[0].startswith("SymmetricState::")]
            ok = w == r and gw == gr
            ctx.ob("mirror", arm, ok, "%s: writer and reader perform %s under the same conditions" % (arm, [x.split("::")[-1] for x in r]) if ok
                   else "%s: writer does %s %s, reader does %s %s" % (arm, [x.split("::")[-1] for x in w], gw, [x.split("::")[-1] for x in r], gr), None, cfg)
        ctx.floor("mirror", len(set(tw) & set(tr)), 5, cfg)
        spec_templates.run_templates(ctx, cfg, names=("encrypt_and_mix_hash", "decrypt_and_mix_hash", "SymmetricState::split", "split_raw"))
        # both parties must start from the same h: name, prologue and pre-message keys hashed in the same (initiator-first) order
        from . import hsnew
        hsnew.check_new(ctx, cfg)
        ctx.floor("progress-on-ok", errpath.check_progress_writes(ctx, cfg), 6, cfg)
        # complementarity from the extracted role tables
        k = 0
        for ty in ("transportstate::TransportState", "stateless_transportstate::StatelessTransportState"):
            tabs = {}
            for op in ("write_message", "read_message", "rekey_outgoing", "rekey_incoming"):
                fn = F.one_fn("%s::%s" % (ty, op))
                tabs[op] = roles.role_table(ctx, cfg, fn)
            for a, b in (("write_message", "read_message"), ("rekey_outgoing", "rekey_incoming")):
                for role in (True, False):
                    ia = tabs[a].get(role, set()) | tabs[a].get(None, set())
                    ib = tabs[b].get(not role, set()) | tabs[b].get(None, set())
                    ok = ia == ib and len(ia) == 1
                    k += 1
                    ctx.ob("role-complement", "%s:%s/%s:%s" % (ty.split("::")[-1], a, b, "initiator" if role else "responder"), ok,
                           "%s as %s uses the index %s uses as the peer" % (a, "initiator" if role else "responder", b) if ok else "%s (%s) uses %s but the peer's %s uses %s" % (a, "initiator" if role else "responder", sorted(ia), b, sorted(ib)),
                           None, cfg)
        ctx.floor("role-complement", k, 8, cfg)
        conversions(ctx, cfg)
        keypair(ctx, cfg)
        from .C14 import limit_exact
        limit_exact(ctx, cfg)


def conversions(ctx, cfg):
    F = ctx.facts[cfg]
    for ty, fields in (("transportstate::TransportState", ("cipherstates", "initiator", "rs")), ("stateless_transportstate::StatelessTransportState", ("cipherstates", "initiator", "rs"))):
        adt = F.crate + "::" + ty
        fn = F.one_fn(ty + "::new")
        for fld in fields:
            ws = nonce.field_writes(ctx, cfg, adt, fld)
            ok = len(ws) == 1 and ws[0][4] == "init"
            if ok:
                v = ws[0][3]
                src = None
                if v[0] == "place":
                    src = {tuple(x[1] for x in p if x[0] == "f") for r, p in v[1] if r == ("loc", 1)}
                elif v[0] == "field" and v[1] == ("arg", 1):
                    src = {(v[2],)}
                elif v[0] == "call" and (v[1] or "").endswith("Into::into") and v[3] and v[3][0][0] in ("place", "field"):
                    x = v[3][0]
                    src = {tuple(y[1] for y in p if y[0] == "f") for r, p in x[1] if r == ("loc", 1)} if x[0] == "place" else {(x[2],)}
                ok = src == {(fld,)}
            ctx.ob("conversion-moves", "%s.%s" % (ty.split("::")[-1], fld), ok, "%s is taken from the handshake state unchanged" % fld if ok else "%s of the transport state is not the handshake's %s" % (fld, fld), where(fn), cfg)
    # StatelessCipherStates: From keeps order (0 -> 0, 1 -> 1)
    for p in F.bodies:
        if p.endswith("::from") and "StatelessCipherStates" in p and "CipherStates>" in p:
            fn = F.fn(p)
            R = ctx.guards(cfg, fn).R
            e = strip_bb(R.local(0))
            ok = e[0] == "agg" and len(e[3]) == 2
            if ok:
                idx = []
                for a in e[3]:
                    s = repr(a)
                    idx.append("0" if "('f', '0')" in s or "'0'" in s.split("Into")[-1] else "1" if "'1'" in s else "?")
                ok = idx == ["0", "1"]
            ctx.ob("conversion-moves", "StatelessCipherStates::from", ok, "the cipher pair keeps its order" if ok else "conversion swaps or duplicates the cipher pair", where(fn), cfg)


def keypair(ctx, cfg):
    from ..template import actual_events
    F = ctx.facts[cfg]
    fn = F.one_fn("builder::Builder::<'builder>::generate_keypair")
    evs = [e for e in actual_events(ctx, cfg, fn, {"Dh::generate", "Dh::privkey", "Dh::pubkey", "Dh::set", "copy_from_slice"}) if e[0] == "call"]
    gen = [e for e in evs if e[1] == "Dh::generate"]
    cps = [e for e in evs if e[1] == "copy_from_slice"]
    ok = len(gen) == 1 and len(cps) == 2
    if ok:
        dh = gen[0][2][0]
        srcs = sorted(repr(c[2][1]) for c in cps)
        ok = any(c[2][1] == ("call", "Dh::privkey", dh) for c in cps) and any(c[2][1] == ("call", "Dh::pubkey", dh) for c in cps) and all(fn.dominates(gen[0][4], c[4]) for c in cps)
    ctx.ob("keypair", "generate_keypair", ok, "private and public key are copied from the same freshly generated DH object" if ok else "generate_keypair does not return (privkey, pubkey) of one generated key", where(fn), cfg)
