"""Dataflow analyses over exported MIR.

* `Pts`   — intraprocedural, flow-insensitive reference provenance ("roots"): for every local that
            holds a reference / pointer / box the set of access paths its pointee may be.
* `Effects` — interprocedural write-set summaries, split by outcome (Ok / Err) with pending-outcome
            tracking for `Result`-returning callees, and restore-from-snapshot kills.

Access path: (root, proj) with root = ('ext', i) — the pointee of reference argument i, or the by-value
argument i itself — or ('loc', i) for storage owned by the function; proj a tuple of elements:
  ('f', name)   field (name is the field name, or the index for tuples)
  ('*',)        deref of a pointer stored in memory (Box / reference field)
  ('[]',)       some element / sub-slice
  ('as', name)  enum downcast
"""
from collections import defaultdict

from .facts import place_key, callee_name

MAXDEPTH = 6


def is_result_ty(s):
    return s.startswith("std::result::Result<") or s.startswith("std::result::Result<")


def is_cf_ty(s):
    return s.startswith("std::ops::ControlFlow<") or s.startswith("std::ops::ControlFlow<")


def proj_of(place):
    out = []
    for e in place["proj"]:
        k = e["k"]
        if k == "deref":
            out.append(("*",))
        elif k == "field":
            out.append(("f", e["name"] if e.get("name") is not None else str(e["i"])))
        elif k in ("index", "constindex", "subslice"):
            out.append(("[]",))
        elif k == "downcast":
            out.append(("as", e.get("name")))
        else:
            out.append(("?",))
    return out


def path_str(p, fn=None):
    root, proj = p
    if root[0] == "ext":
        s = fn.arg_name(root[1]) if (fn is not None and isinstance(root[1], int)) else "arg%s" % (root[1],)
    elif root[0] == "loc":
        s = (fn.names.get(root[1]) if fn is not None else None) or "_%d" % root[1]
    else:
        s = "%s%s" % (root[0], root[1] if len(root) > 1 else "")
    for e in proj:
        if e[0] == "f":
            s += "." + str(e[1])
        elif e[0] == "*":
            s += ".*"
        elif e[0] == "[]":
            s += "[..]"
        elif e[0] == "as":
            s += "<%s>" % e[1]
        else:
            s += ".?"
    return s


def norm_proj(proj):
    """drop downcasts/derefs-of-box for comparison purposes; cap depth"""
    out = tuple(e for e in proj if e[0] in ("f", "[]"))
    return out[:MAXDEPTH]


def fields_only(proj):
    return tuple(e[1] for e in proj if e[0] == "f")


def overlaps(p, q):
    """two field chains overlap if one is a prefix of the other"""
    n = min(len(p), len(q))
    return p[:n] == q[:n]


CALL_SAME_ROOT = (
    "std::ops::Index::index",
    "std::ops::IndexMut::index_mut",
    "std::ops::Index::index",
    "std::ops::IndexMut::index_mut",
)
CALL_DEREF = ("std::ops::Deref::deref", "std::ops::DerefMut::deref_mut", "std::ops::Deref::deref", "std::ops::DerefMut::deref_mut")


# std accessors that take `&mut` only to hand out a (sub-)reference or to inspect: they do not modify their argument
NONWRITING_STD = (
    "::get_mut", "::as_mut", "ops::IndexMut::index_mut", "ops::DerefMut::deref_mut", "::iter_mut", "::as_mut_slice",
    "::split_at_mut", "::first_mut", "::last_mut", "::as_deref_mut", "borrow::BorrowMut::borrow_mut", "convert::AsMut::as_mut",
    "ops::Try::branch", "::ok_or", "::ok_or_else", "iter::IntoIterator::into_iter", "::len", "::is_empty",
)


class Pts:
    def __init__(self, fn, ret_alias=None):
        """ret_alias: callable(callee_path) -> set of (argidx, proj) the returned reference may point
        into, or None when unknown"""
        self.fn = fn
        self.F = fn.facts
        self.ret_alias = ret_alias or (lambda p: None)
        self.pts = defaultdict(set)
        self.fpts = defaultdict(set)  # (local, field index) -> pts, for tuple/struct aggregates of references
        self.slice_sites = {}  # ('[]' produced at call bb) -> bb
        self._run()

    def _is_refish(self, l):
        t = self.fn.local_ty(l)
        return t["k"] in ("ref", "refmut", "ptr", "ptrmut") or (t["k"] == "adt" and t.get("adt", "").endswith("boxed::Box"))

    def resolve_place(self, place):
        """set of access paths the place may denote"""
        local = place["local"]
        cur = {(("loc", local), ())}
        first = True
        for e in place["proj"]:
            k = e["k"]
            nxt = set()
            if k == "deref":
                for root, proj in cur:
                    if root[0] == "loc" and not proj:
                        tgt = self.pts.get(root[1])
                        if tgt:
                            nxt |= tgt
                        else:
                            nxt.add((("unk", root[1]), ()))
                    else:
                        nxt.add((root, proj + (("*",),)))
            else:
                el = proj_of({"proj": [e]})[0]
                for root, proj in cur:
                    if len(proj) < 12:
                        nxt.add((root, proj + (el,)))
                    else:
                        nxt.add((root, proj))
            cur = nxt
            first = False
        return cur

    def op_pts(self, op):
        """points-to of the reference value denoted by an operand"""
        if op["k"] == "const":
            if "promoted" in op:
                return {(("promoted", op["promoted"]), ())}
            return {(("const",), ())}
        place = op["place"]
        if not place["proj"]:
            return set(self.pts.get(place["local"], ()))
        # a reference/box loaded from memory, or a field of an aggregate of references
        base = place["local"]
        onlyfields = all(e["k"] in ("field", "downcast") for e in place["proj"])
        if onlyfields and base in self.pts and self.pts[base]:
            # collapsed aggregate of references (Option<&T>, tuples, Box internals)
            return set(self.pts[base])
        res = set()
        for root, proj in self.resolve_place(place):
            res.add((root, proj + (("*",),)))
        return res

    def _add(self, l, s):
        before = len(self.pts[l])
        self.pts[l] |= s
        return len(self.pts[l]) != before

    def _run(self):
        fn = self.fn
        # reference-typed arguments point to external storage; by-value args are external roots too
        for i in range(1, fn.argc + 1):
            t = fn.local_ty(i)
            if t["k"] in ("ref", "refmut", "ptr", "ptrmut"):
                self.pts[i].add((("ext", i), ()))
        changed = True
        rounds = 0
        while changed and rounds < 50:
            changed = False
            rounds += 1
            for bi, b in enumerate(fn.blocks):
                for s in b["stmts"]:
                    if s["k"] != "assign":
                        continue
                    dst = s["place"]
                    rv = s["rv"]
                    k = rv["k"]
                    src = None
                    if k in ("ref", "rawptr"):
                        src = self.resolve_place(rv["place"])
                    elif k == "use":
                        if rv["op"]["k"] != "const" or "promoted" in rv["op"]:
                            src = self._val_pts(rv["op"], dst_refish=(not dst["proj"] and self._is_refish(dst["local"])))
                    elif k == "cast":
                        src = self._val_pts(rv["op"])
                    elif k == "copyforderef":
                        src = self._val_pts({"k": "copy", "place": rv["place"]})
                    elif k == "aggregate":
                        src = set()
                        for oi, o in enumerate(rv["ops"]):
                            v = self._val_pts(o)
                            if v:
                                src |= v
                                if not dst["proj"]:
                                    before = len(self.fpts[(dst["local"], oi)])
                                    self.fpts[(dst["local"], oi)] |= v
                                    if len(self.fpts[(dst["local"], oi)]) != before:
                                        changed = True
                    if src:
                        if not dst["proj"]:
                            if self._add(dst["local"], src):
                                changed = True
                        else:
                            # storing a reference into a local aggregate: collapse
                            if all(e["k"] in ("field", "downcast") for e in dst["proj"]):
                                if self._add(dst["local"], src):
                                    changed = True
                t = b["term"]
                if t["k"] == "call":
                    dst = t["dest"]
                    dty = fn.local_ty(dst["local"])
                    if dst["proj"]:
                        continue
                    src = self._call_ret_pts(bi, t)
                    if src and self._add(dst["local"], src):
                        changed = True

    def _val_pts(self, op, dst_refish=False):
        """points-to carried by a value (reference, box, or aggregate containing them)"""
        if op["k"] == "const":
            if "promoted" in op:
                return {(("promoted", op["promoted"]), ())}
            return None
        place = op["place"]
        base = place["local"]
        if not place["proj"]:
            return set(self.pts.get(base, ())) or None
        onlyfields = all(e["k"] in ("field", "downcast") for e in place["proj"])
        if len(place["proj"]) == 1 and place["proj"][0]["k"] == "field" and self.fpts.get((base, place["proj"][0]["i"])):
            return set(self.fpts[(base, place["proj"][0]["i"])])
        if onlyfields and self.pts.get(base):
            return set(self.pts[base])
        # loaded from memory: only meaningful if the loaded type is pointer-like
        ty = self._place_ty(place)
        if dst_refish or ty is not None and (ty["k"] in ("ref", "refmut", "ptr", "ptrmut") or (ty["k"] == "adt" and ty.get("adt", "").endswith("boxed::Box"))):
            res = set()
            for root, proj in self.resolve_place(place):
                res.add((root, proj + (("*",),)))
            return res
        return None

    def _place_ty(self, place):
        # type of the last field projection if available
        for e in reversed(place["proj"]):
            if e["k"] == "field":
                return self.F.types[e["ty"]]
            break
        return None

    def _call_ret_pts(self, bi, t):
        fn = self.fn
        c = t["callee"]
        name = c.get("def") or ""
        resolved = c.get("resolved") or name
        args = t["args"]
        dty = fn.local_ty(t["dest"]["local"])
        s = dty["s"]
        # only track calls that can return references
        if "&" not in s and "*const" not in s and "*mut" not in s and "Box<" not in s:
            return None
        if name in CALL_SAME_ROOT and args:
            base = self._val_pts(args[0]) or set()
            return {(r, p + (("[]",),)) for r, p in base}
        ra = self.ret_alias(resolved) if resolved else None
        if ra is None and name != resolved:
            ra = self.ret_alias(name)
        if ra is not None:
            res = set()
            for ai, proj in ra:
                if ai < len(args):
                    base = self._val_pts(args[ai]) or set()
                    for r, p in base:
                        res.add((r, p + proj))
            return res
        # unknown callee: may return any of its reference arguments (or something reachable from it)
        res = set()
        for a in args:
            v = self._val_pts(a)
            if v:
                for r, p in v:
                    res.add((r, p))
        return res


def ret_alias_summary(fn, pts):
    """which (arg, proj) a returned reference may point into; None if nothing found"""
    res = set()
    for root, proj in pts.pts.get(0, ()):
        if root[0] == "ext":
            res.add((root[1] - 1, proj))
    return res


# --------------------------------------------------------------------------- effects


class Summary:
    __slots__ = ("w_ok", "w_err", "returns_result", "ret_copy", "assign_whole", "known")

    def __init__(self):
        self.w_ok = frozenset()  # (argidx(0-based), fieldchain) written when returning normally / Ok
        self.w_err = frozenset()  # written when returning Err
        self.returns_result = False
        self.ret_copy = {}  # fieldchain of return value ('' whole) -> (argidx, fieldchain) copied from
        self.assign_whole = []  # [((argidx, fieldchain) dst, (argidx, fieldchain) src-by-value)]
        self.known = True

    def key(self):
        return (self.w_ok, self.w_err, self.returns_result, tuple(sorted(self.ret_copy.items())), tuple(self.assign_whole))


class Effects:
    """Whole-crate write-set summaries."""

    def __init__(self, facts, foreign_impls_write_receiver=True):
        self.F = facts
        self.sums = {}
        self.pts = {}
        self.ret_alias = {}
        self.detail = {}  # fn path -> per-exit info for diagnostics
        self.foreign = foreign_impls_write_receiver
        self._compute()

    # -- call target resolution
    def targets(self, t):
        """local bodies a call may execute: list of paths; and flag whether foreign code may run"""
        c = t["callee"]
        if c.get("def") is None:
            return [], True
        inst = c.get("inst")
        if inst == "virtual":
            d = c["def"]
            impls = list(self.F.impls_of(d))
            if self.F.has_default(d):
                impls.append(d)
            local_trait = d.startswith(self.F.crate + "::")
            return impls, True if local_trait else True
        r = c.get("resolved")
        if c.get("closure") and c["closure"] in self.F.bodies:
            return [c["closure"]], False
        if r and c.get("resolved_local") and r in self.F.bodies and "mir" in self.F.bodies[r]:
            return [r], False
        return [], True

    def _compute(self):
        fns = list(self.F.fns())
        for f in fns:
            self.sums[f.path] = Summary()
            self.ret_alias[f.path] = None
        for rounds in range(12):
            changed = False
            for f in fns:
                ra = lambda p: self.ret_alias.get(p)
                pts = Pts(f, ra)
                self.pts[f.path] = pts
                new_ra = ret_alias_summary(f, pts)
                if new_ra != (self.ret_alias[f.path] or set()):
                    self.ret_alias[f.path] = new_ra
                    changed = True
                s = self._summarize(f, pts)
                if s.key() != self.sums[f.path].key():
                    self.sums[f.path] = s
                    changed = True
            if not changed:
                break

    # -- per-function analysis
    def _arg_paths(self, pts, op):
        """external (argidx0, fieldchain) targets of a reference-valued operand"""
        v = pts._val_pts(op)
        res = set()
        if v:
            for root, proj in v:
                if root[0] == "ext":
                    res.add((root[1] - 1, fields_only(proj)))
        return res

    def call_writes(self, f, pts, t):
        """(always, ok, err, is_result, foreign): write sets in caller terms for a call terminator"""
        targets, foreign = self.targets(t)
        c = t["callee"]
        name = c.get("def") or "?"
        args = t["args"]
        dty = f.local_ty_s(t["dest"]["local"])
        is_res = is_result_ty(dty)
        ok = set()
        err = set()
        if targets:
            for tp in targets:
                s = self.sums.get(tp)
                if s is None:
                    continue
                for (ai, ch) in s.w_ok:
                    if ai < len(args):
                        for (bi, bch) in self._arg_paths(pts, args[ai]):
                            ok.add((bi, (bch + ch)[:MAXDEPTH]))
                for (ai, ch) in s.w_err:
                    if ai < len(args):
                        for (bi, bch) in self._arg_paths(pts, args[ai]):
                            err.add((bi, (bch + ch)[:MAXDEPTH]))
        if (not targets) and any(name.endswith(x) for x in NONWRITING_STD):
            return set(), set(), is_res
        if (not targets) or (c.get("inst") == "virtual" and self.foreign):
            # foreign code: writes everything reachable through &mut arguments
            for i, a in enumerate(args):
                aty = self._op_ty(f, a)
                if aty is not None and aty["k"] in ("refmut", "ptrmut"):
                    for p in self._arg_paths(pts, a):
                        ok.add(p)
                        err.add(p)
        if not is_res:
            ok |= err
            err = set()
        return ok, err, is_res

    def _op_ty(self, f, op):
        if op["k"] == "const":
            return self.F.types[op["ty"]]
        pl = op["place"]
        if not pl["proj"]:
            return f.local_ty(pl["local"])
        for e in reversed(pl["proj"]):
            if e["k"] == "field":
                return self.F.types[e["ty"]]
            break
        return None

    def _summarize(self, f, pts):
        A = FnEffects(self, f, pts)
        A.run()
        s = Summary()
        s.returns_result = is_result_ty(f.local_ty_s(0))
        s.w_ok = frozenset(A.w_ok)
        s.w_err = frozenset(A.w_err)
        s.ret_copy = A.ret_copy
        s.assign_whole = A.assign_whole
        self.detail[f.path] = A
        return s


class FnEffects:
    """Forward may-analysis on one body. State = (written, pending)."""

    def __init__(self, E, f, pts):
        self.E = E
        self.f = f
        self.pts = pts
        self.w_ok = set()
        self.w_err = set()
        self.ret_copy = {}
        self.assign_whole = []
        self.exits = []  # (kind, bb, written set, note)
        self.block_in = {}
        self.snap = {}  # local -> (path (argidx, chain), bb) whole-value snapshot of external path
        self.witness = defaultdict(list)  # written path -> list of (bb, what)

    # ---- helpers
    def ext_paths_of_place(self, place):
        res = set()
        for root, proj in self.pts.resolve_place(place):
            if root[0] == "ext":
                res.add((root[1] - 1, fields_only(proj)))
        return res

    def value_src(self, l, depth=0):
        """{field chain of the value held by local l: (argidx, chain) external path it is a copy of}"""
        f = self.f
        if depth > 8:
            return {}
        sd = f.single_def(l)
        if sd is None:
            return {}
        bi, si, st = sd
        if si == "term":
            targets, foreign = self.E.targets(st)
            if len(targets) != 1 or st["callee"].get("inst") == "virtual":
                return {}
            sm = self.E.sums.get(targets[0])
            if not sm or not sm.ret_copy:
                return {}
            out = {}
            for rch, (ai, ch) in sm.ret_copy.items():
                if ai >= len(st["args"]):
                    continue
                ps = self.E._arg_paths(self.pts, st["args"][ai])
                if len(ps) != 1:
                    continue
                (b0, bch) = next(iter(ps))
                out[rch] = ((b0, bch + ch), bi)
            return out
        if st.get("k") != "assign":
            return {}
        rv = st["rv"]
        if rv["k"] == "use" and rv["op"]["k"] in ("copy", "move"):
            pl = rv["op"]["place"]
            if all(e["k"] == "field" for e in pl["proj"]) and not (1 <= pl["local"] <= f.argc and f.local_ty(pl["local"])["k"] in ("ref", "refmut")):
                base = self.value_src(pl["local"], depth + 1)
                chain = tuple(e["name"] if e.get("name") is not None else str(e["i"]) for e in pl["proj"])
                out = {}
                for k, v in base.items():
                    if k[: len(chain)] == chain:
                        out[k[len(chain):]] = v
                if out:
                    return out
            if pl["proj"]:
                eps = self.ext_paths_of_place(pl)
                if len(eps) == 1:
                    return {(): (next(iter(eps)), bi)}
            return {}
        if rv["k"] == "aggregate" and rv.get("agg") in ("adt", "tuple"):
            names = rv.get("field_names") or [str(i) for i in range(len(rv["ops"]))]
            out = {}
            for nm, o in zip(names, rv["ops"]):
                if o["k"] in ("copy", "move") and not o["place"]["proj"]:
                    for k, v in self.value_src(o["place"]["local"], depth + 1).items():
                        out[(nm,) + k] = v
                elif o["k"] in ("copy", "move"):
                    eps = self.ext_paths_of_place(o["place"])
                    if len(eps) == 1:
                        out[(nm,)] = (next(iter(eps)), bi)
            return out
        return {}

    def snapshot_of(self, l):
        """value_src(l) restricted to entries whose source was not yet written when l was defined"""
        src = self.value_src(l)
        out = {}
        for k, (p, bi) in src.items():
            st = self.block_in_live.get(bi)
            written = st[0] if st else frozenset()
            if not any(q[0] == p[0] and overlaps(q[1], p[1]) for q in written):
                out[k] = p
        return out

    def _discr_src(self):
        """local d -> local x for d = discriminant(x)"""
        m = {}
        for bi, b in enumerate(self.f.blocks):
            for s in b["stmts"]:
                if s["k"] == "assign" and s["rv"]["k"] == "discr" and not s["place"]["proj"] and not s["rv"]["place"]["proj"]:
                    m[s["place"]["local"]] = s["rv"]["place"]["local"]
        return m

    def run(self):
        f = self.f
        E = self.E
        discr = self._discr_src()
        nb = len(f.blocks)
        # state per block entry: (frozenset written, frozenset pending (local, callbb), frozenset pendbool)
        IN = {0: (frozenset(), frozenset())}
        self.block_in_live = IN
        work = [0]
        call_info = {}
        edge_out = {}
        iters = 0
        while work:
            iters += 1
            if iters > 20000:
                break
            bi = work.pop()
            written, pend = IN[bi]
            written = set(written)
            pend = set(pend)
            b = f.blocks[bi]
            exit_here = None
            for si, s in enumerate(b["stmts"]):
                if s["k"] == "setdiscr":
                    for p in self.ext_paths_of_place(s["place"]):
                        written.add(p)
                        self.witness[p].append((bi, "set discriminant"))
                    continue
                if s["k"] != "assign":
                    continue
                dst = s["place"]
                rv = s["rv"]
                # direct writes through argument-derived references
                if dst["proj"]:
                    for p in self.ext_paths_of_place(dst):
                        written.add(p)
                        self.witness[p].append((bi, "assign l%d" % s["l"]))
                        self._note_assign_whole(p, rv)
                # pending propagation by move/copy of a whole local
                if not dst["proj"] and rv["k"] == "use" and rv["op"]["k"] in ("copy", "move") and not rv["op"]["place"]["proj"]:
                    src = rv["op"]["place"]["local"]
                    for (l, cb) in list(pend):
                        if l == src:
                            pend.add((dst["local"], cb))
                        elif l == ("res", src):
                            pend.add((("res", dst["local"]), cb))
                    if src in self.snap and dst["local"] not in self.snap:
                        self.snap[dst["local"]] = self.snap[src]
                # snapshot: local = copy of external place (by value)
                if not dst["proj"] and rv["k"] == "use" and rv["op"]["k"] in ("copy", "move") and rv["op"]["place"]["proj"]:
                    eps = self.ext_paths_of_place(rv["op"]["place"])
                    if len(eps) == 1 and len(f.defs().get(dst["local"], [])) == 1:
                        p = next(iter(eps))
                        if not any(q[0] == p[0] and overlaps(q[1], p[1]) for q in written):
                            self.snap[dst["local"]] = (p, bi)
                if dst["local"] == 0 and not dst["proj"]:
                    exit_here = self._classify_ret_assign(rv, pend)
                    if exit_here is not None:
                        self._record_exit(exit_here, bi, written, pend, call_info)
            t = b["term"]
            k = t["k"]
            succ_states = []
            if k == "call":
                ok, err, is_res = E.call_writes(f, self.pts, t)
                c = t["callee"]
                name = c.get("def") or ""
                dest = t["dest"]
                dl = dest["local"] if not dest["proj"] else None
                # writes to *dest place* through external refs
                if dest["proj"]:
                    for p in self.ext_paths_of_place(dest):
                        written.add(p)
                        self.witness[p].append((bi, "call result l%d" % t["l"]))
                inherited = False
                if dl is not None:
                    # polarity-preserving adaptors forward a pending outcome
                    if self._is_adaptor(name) and t["args"]:
                        a0 = t["args"][0]
                        if a0["k"] in ("copy", "move") and not a0["place"]["proj"]:
                            for (l, cb) in list(pend):
                                if l == a0["place"]["local"]:
                                    pend.add((dl, cb))
                                    inherited = True
                                elif l == ("res", a0["place"]["local"]) and name.endswith("Try::branch"):
                                    pend.add((("res", dl), cb))
                # restore-from-snapshot kill
                killed = self._restore_kills(t, written)
                if is_res and dl is not None and not inherited and (ok or err):
                    call_info[bi] = (ok, err, callee_name(t), t["l"])
                    pend.add((dl, bi))
                elif not inherited:
                    for p in ok | err:
                        written.add(p)
                        self.witness[p].append((bi, "call %s l%d" % (callee_name(t), t["l"])))
                for full in killed:
                    for q in list(written):
                        if q[0] == full[0] and q[1][: len(full[1])] == full[1]:
                            written.discard(q)
                # snapshot through a callee that returns a copy of an external path
                if dl is not None:
                    self._note_ret_copy_snapshot(t, dl, bi, written)
                if dl == 0:
                    ex = self._classify_ret_call(t, pend, inherited)
                    self._record_exit(ex, bi, written, pend, call_info)
                if t["target"] is not None:
                    succ_states.append((t["target"], written, pend))
            elif k == "switch":
                d = t["discr"]
                dloc = d["place"]["local"] if d["k"] in ("copy", "move") and not d["place"]["proj"] else None
                x = discr.get(dloc)
                pend_on_x = [(l, cb) for (l, cb) in pend if l == x] if x is not None else []
                seen_targets = set()
                for v, tb in t["targets"]:
                    w2 = set(written)
                    p2 = set(pend)
                    for (l, cb) in pend_on_x:
                        ok, err, cname, cl = call_info[cb]
                        add = ok if v == 0 else err if v == 1 else (ok | err)
                        for p in add:
                            w2.add(p)
                            self.witness[p].append((cb, "call %s l%d (%s edge)" % (cname, cl, "Ok" if v == 0 else "Err")))
                        if v in (0, 1):
                            p2 |= {(("res", l2), "ok" if v == 0 else "err") for (l2, cb2) in p2 if cb2 == cb and not isinstance(l2, tuple)}
                        p2 = {(l2, cb2) for (l2, cb2) in p2 if cb2 != cb}
                    succ_states.append((tb, w2, p2))
                    seen_targets.add(tb)
                # otherwise edge
                ob = t["otherwise"]
                w2 = set(written)
                p2 = set(pend)
                if pend_on_x and f.blocks[ob]["term"]["k"] != "unreachable":
                    known_vals = {v for v, _ in t["targets"]}
                    for (l, cb) in pend_on_x:
                        ok, err, cname, cl = call_info[cb]
                        if known_vals == {0}:
                            add = err
                            p2 |= {(("res", l2), "err") for (l2, cb2) in p2 if cb2 == cb and not isinstance(l2, tuple)}
                        elif known_vals == {1}:
                            add = ok
                            p2 |= {(("res", l2), "ok") for (l2, cb2) in p2 if cb2 == cb and not isinstance(l2, tuple)}
                        else:
                            add = ok | err
                        for p in add:
                            w2.add(p)
                            self.witness[p].append((cb, "call %s l%d (other edge)" % (cname, cl)))
                        p2 = {(l2, cb2) for (l2, cb2) in p2 if cb2 != cb}
                succ_states.append((ob, w2, p2))
            elif k == "return":
                self._record_return(bi, written, pend, call_info)
            else:
                for sb in f.succs(bi):
                    succ_states.append((sb, written, pend))
            for sb, w2, p2 in succ_states:
                new = (frozenset(w2), frozenset(p2))
                old = IN.get(sb)
                if old is None:
                    IN[sb] = new
                    work.append(sb)
                else:
                    mw = old[0] | new[0]
                    mp = old[1] | new[1]
                    if mw != old[0] or mp != old[1]:
                        IN[sb] = (mw, mp)
                        work.append(sb)
        self.block_in = IN
        self.call_info = call_info
        rc = self.value_src(0)
        if rc:
            self.ret_copy = {k: v[0] for k, v in rc.items()}
        self._finish()

    @staticmethod
    def _is_adaptor(name):
        return name in (
            "std::ops::Try::branch",
            "std::ops::Try::branch",
            "std::result::Result::<T, E>::map_err",
            "std::result::Result::<T, E>::map",
            "std::result::Result::<T, E>::or",
            "std::result::Result::<T, E>::map_err",
            "std::result::Result::<T, E>::map",
            "std::result::Result::<T, E>::or",
        )

    def _note_assign_whole(self, p, rv):
        # (*arg).path = by-value argument (or a local copied from it)
        if rv["k"] != "use" or rv["op"]["k"] not in ("copy", "move"):
            return
        pl = rv["op"]["place"]
        l = pl["local"]
        f = self.f
        src_arg = None
        chain = tuple(e["name"] if e.get("name") is not None else str(e["i"]) for e in pl["proj"] if e["k"] == "field")
        if all(e["k"] == "field" for e in pl["proj"]):
            if 1 <= l <= f.argc and f.local_ty(l)["k"] not in ("ref", "refmut"):
                src_arg = l - 1
            else:
                sd = f.single_def(l)
                if sd and sd[2].get("k") == "assign" and sd[2]["rv"]["k"] == "use":
                    o = sd[2]["rv"]["op"]
                    if o["k"] in ("copy", "move") and all(e["k"] == "field" for e in o["place"]["proj"]):
                        l2 = o["place"]["local"]
                        if 1 <= l2 <= f.argc and f.local_ty(l2)["k"] not in ("ref", "refmut"):
                            src_arg = l2 - 1
                            chain = tuple(e["name"] if e.get("name") is not None else str(e["i"]) for e in o["place"]["proj"]) + chain
        if src_arg is not None:
            self.assign_whole.append((p, (src_arg, chain)))

    def _restore_kills(self, t, written):
        """paths that a call certainly re-assigns from a snapshot of their entry value"""
        killed = set()
        targets, foreign = self.E.targets(t)
        if len(targets) != 1 or t["callee"].get("inst") == "virtual":
            return killed
        s = self.E.sums.get(targets[0])
        if not s:
            return killed
        args = t["args"]
        for (dst, src) in s.assign_whole:
            (dai, dch) = dst
            (sai, sch) = src
            if dai >= len(args) or sai >= len(args):
                continue
            dps = self.E._arg_paths(self.pts, args[dai])
            if len(dps) != 1:
                continue
            (bi_, bch) = next(iter(dps))
            full = (bi_, bch + dch)
            a = args[sai]
            if a["k"] not in ("copy", "move") or a["place"]["proj"]:
                continue
            sl = a["place"]["local"]
            snap = self.snapshot_of(sl)
            if snap.get(tuple(sch)) == full:
                killed.add(full)
        return killed

    def _note_ret_copy_snapshot(self, t, dl, bi, written):
        targets, foreign = self.E.targets(t)
        if len(targets) != 1 or t["callee"].get("inst") == "virtual":
            return
        s = self.E.sums.get(targets[0])
        if not s or () not in s.ret_copy:
            return
        (ai, ch) = s.ret_copy[()]
        args = t["args"]
        if ai >= len(args):
            return
        ps = self.E._arg_paths(self.pts, args[ai])
        if len(ps) != 1:
            return
        (bi_, bch) = next(iter(ps))
        full = (bi_, bch + ch)
        if any(q[0] == full[0] and overlaps(q[1], full[1]) for q in written):
            return
        if len(self.f.defs().get(dl, [])) == 1:
            self.snap[dl] = (full, bi)

    def _classify_ret_assign(self, rv, pend):
        if rv["k"] == "aggregate" and rv.get("agg") == "adt" and rv["adt"].endswith("result::Result"):
            return "err" if rv["variant_name"] == "Err" else "ok"
        if rv["k"] == "use" and rv["op"]["k"] in ("copy", "move"):
            pl = rv["op"]["place"]
            if not pl["proj"]:
                for (l, cb) in pend:
                    if l == pl["local"]:
                        return ("pend", cb)
                # the outcome of the call that produced this value was already tested on the way here
                res = {cb for (l, cb) in pend if l == ("res", pl["local"])}
                if res == {"err"}:
                    return "err"
                if res == {"ok"}:
                    return "ok"
            # return value copied from an external place: ret_copy summary
            eps = self.ext_paths_of_place(pl) if pl["proj"] else set()
            if len(eps) == 1:
                self.ret_copy[()] = next(iter(eps))
            return "plain"
        return "plain"

    def _classify_ret_call(self, t, pend, inherited):
        name = t["callee"].get("def") or ""
        if name.endswith("FromResidual::from_residual"):
            return "err"
        dl = 0
        for (l, cb) in pend:
            if l == dl:
                return ("pend", cb)
        return "plain"

    def _record_exit(self, kind, bi, written, pend, call_info):
        self.exits.append((kind, bi, frozenset(written), frozenset(pend)))

    def _record_return(self, bi, written, pend, call_info):
        self.exits.append(("return", bi, frozenset(written), frozenset(pend)))

    def _finish(self):
        f = self.f
        is_res = is_result_ty(f.local_ty_s(0))
        ci = self.call_info
        ret_states = [e for e in self.exits if e[0] == "return"]
        other = [e for e in self.exits if e[0] != "return"]

        def flush(pend, exclude_cb=None):
            out = set()
            for (l, cb) in pend:
                if cb == exclude_cb or isinstance(l, tuple):
                    continue
                ok, err, cname, cl = ci[cb]
                for p in ok | err:
                    out.add(p)
                    self.witness[p].append((cb, "call %s l%d (outcome not inspected)" % (cname, cl)))
            return out

        # post-exit writes: anything written on the way from an exit block to return is added via the
        # state at the return block (a superset); for precision we add only the difference that is not
        # attributable to other exits, which in practice is empty. We therefore fold conservatively:
        if not is_res:
            for (_, bi, w, pend) in ret_states:
                self.w_ok |= set(w) | flush(pend)
            return
        self.exit_detail = []
        for (kind, bi, w, pend) in other:
            if kind == "err":
                s = set(w) | flush(pend)
                self.w_err |= s
                self.exit_detail.append(("err", bi, s))
            elif kind == "ok":
                s = set(w) | flush(pend)
                self.w_ok |= s
                self.exit_detail.append(("ok", bi, s))
            elif isinstance(kind, tuple) and kind[0] == "pend":
                cb = kind[1]
                ok, err, cname, cl = ci[cb]
                base = set(w) | flush(pend, exclude_cb=cb)
                for p in err:
                    self.witness[p].append((cb, "call %s l%d (Err returned to caller)" % (cname, cl)))
                for p in ok:
                    self.witness[p].append((cb, "call %s l%d (Ok returned to caller)" % (cname, cl)))
                self.w_err |= base | err
                self.w_ok |= base | ok
                self.exit_detail.append(("tail:%s" % cname, bi, base | err))
            else:
                # unknown polarity: count for both
                s = set(w) | flush(pend)
                self.w_err |= s
                self.w_ok |= s
                self.exit_detail.append(("plain", bi, s))
        if not other:
            for (_, bi, w, pend) in ret_states:
                s = set(w) | flush(pend)
                self.w_ok |= s
                self.w_err |= s
