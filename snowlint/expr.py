"""Value expressions: resolve MIR operands through single-definition temporaries into trees.

Expression forms (tuples):
  ('const', int) ('str', s) ('fn', path) ('promoted', i) ('unit',)
  ('arg', i) ('local', i)                     -- opaque local (argument / multiply-defined)
  ('place', frozenset(paths))                 -- memory place read (paths from Pts.resolve_place)
  ('ref', frozenset(paths))                   -- address of a place
  ('bin', op, a, b) ('un', op, a) ('cast', a)
  ('discr', e) ('len', e)
  ('call', def, resolved, (args...), bb)
  ('agg', adt, variant_name, (args...))
  ('field', e, name)
"""
from .flow import Pts, path_str

LEN_FNS = ("std::slice::<impl [T]>::len", "std::str::<impl str>::len", "std::vec::Vec::<T, A>::len", "std::vec::Vec::<T, A>::len")


SAME_LEN_VIEWS = ("str::<impl str>::as_bytes", "String::as_bytes", "String::as_str", "Vec::<T, A>::as_slice", "<impl [T]>::as_ref")


def _same_len(e):
    """len(s.as_bytes()) is len(s): byte views have the length of what they view"""
    for _ in range(3):
        if isinstance(e, tuple) and e and e[0] == "call" and isinstance(e[1], str) and e[1].endswith(SAME_LEN_VIEWS) and len(e[3]) == 1:
            e = e[3][0]
        else:
            break
    return e


def fold(e):
    """constant-fold ('bin', op, const, const)"""
    if e[0] == "bin" and e[2][0] == "const" and e[3][0] == "const":
        a, b = e[2][1], e[3][1]
        op = e[1]
        if op == "Add":
            return ("const", a + b)
        if op == "Sub" and a >= b:
            return ("const", a - b)
        if op == "Mul":
            return ("const", a * b)
    return e


class Resolver:
    def __init__(self, fn, pts=None):
        self.fn = fn
        self.pts = pts or Pts(fn)
        self._memo = {}
        # locals whose storage is mutably borrowed: their value may change behind the single definition
        self.mut_borrowed = set()
        for b in fn.blocks:
            for s in b["stmts"]:
                if s["k"] == "assign" and s["rv"]["k"] in ("ref", "rawptr") and s["rv"].get("mut"):
                    pl = s["rv"]["place"]
                    if not any(e["k"] == "deref" for e in pl["proj"]):
                        self.mut_borrowed.add(pl["local"])

    def op(self, o, depth=0):
        k = o["k"]
        if k == "const":
            if "val" in o:
                return ("const", o["val"])
            if "str" in o:
                return ("str", o["str"])
            if "fn" in o:
                return ("fn", o["fn"])
            if "promoted" in o:
                return ("promoted", o["promoted"])
            if "uneval" in o:
                return ("constitem", o["uneval"])
            if "static" in o:
                return ("static", o["static"])
            return ("unit",)
        return self.place(o["place"], depth)

    def place(self, pl, depth=0):
        l = pl["local"]
        proj = pl["proj"]
        if not proj:
            return self.local(l, depth)
        if l in self.mut_borrowed and not any(e["k"] == "deref" for e in proj):
            return ("place", frozenset(self.pts.resolve_place(pl)))
        # (_x.0) of a checked arithmetic pair
        if len(proj) == 1 and proj[0]["k"] == "field":
            sd = self.fn.single_def(l)
            if sd and sd[2].get("k") == "assign":
                rv = sd[2]["rv"]
                if rv["k"] == "binop" and rv["op"].endswith("WithOverflow") and proj[0]["i"] == 0:
                    return fold(("bin", rv["op"][: -len("WithOverflow")], self.op(rv["a"], depth + 1), self.op(rv["b"], depth + 1)))
                if rv["k"] == "aggregate" and proj[0]["i"] < len(rv["ops"]) and rv.get("agg") in ("tuple", "adt"):
                    return self.op(rv["ops"][proj[0]["i"]], depth + 1)
        # downcast + field of a local holding a call result etc.
        if all(e["k"] in ("field", "downcast") for e in proj):
            base = self.local(l, depth + 1)
            if base[0] == "place" and base[1]:
                # a component of a value that was copied out of memory: the same component of that memory
                ext = tuple(("f", p.get("name") if p.get("name") is not None else str(p["i"])) if p["k"] == "field" else ("as", p.get("name")) for p in proj)
                return ("place", frozenset((root, tuple(pr) + ext) for (root, pr) in base[1]))
            if base[0] not in ("local", "arg"):
                e = base
                for p in proj:
                    if p["k"] == "field":
                        # a field of a value built by an aggregate expression is that operand
                        if e[0] == "agg" and isinstance(e[3], tuple) and p["i"] < len(e[3]) and (e[1] is None or not str(e[1]).endswith(("result::Result", "option::Option"))):
                            e = e[3][p["i"]]
                            continue
                        nm = p.get("name") if p.get("name") is not None else str(p["i"])
                        # (Some(x) as Some).0 is x, (Ok(x) as Ok).0 is x, ...
                        if e[0] == "field" and isinstance(e[2], str) and e[2].startswith("as ") and e[1][0] == "agg" and e[1][2] == e[2][3:] and isinstance(e[1][3], tuple) and p["i"] < len(e[1][3]):
                            e = e[1][3][p["i"]]
                            continue
                        # ((Try::branch(Ok(x))) as Continue).0 is x; ((Try::branch(Err(e))) as Break).0 is Err(e)
                        if nm == "0" and e[0] == "field" and e[2] in ("as Continue", "as Break") and e[1][0] == "call" and (e[1][1] or "").endswith("ops::Try::branch") and e[1][3]:
                            inner = e[1][3][0]
                            if inner[0] == "agg" and str(inner[1]).endswith("result::Result") and inner[3]:
                                if e[2] == "as Continue" and inner[2] == "Ok":
                                    e = inner[3][0]
                                    continue
                                if e[2] == "as Break" and inner[2] == "Err":
                                    e = inner
                                    continue
                        e = ("field", e, nm)
                    else:
                        e = ("field", e, "as " + str(p.get("name")))
                return e
        paths = frozenset(self.pts.resolve_place(pl))
        if len(paths) == 1 and depth < 30:
            (root, pr) = next(iter(paths))
            # a read through a reference to a whole local that is never mutably borrowed: the local's value
            if root[0] == "loc" and not pr and root[1] != l and root[1] not in self.mut_borrowed and any(e["k"] == "deref" for e in proj):
                return self.local(root[1], depth + 1)
        return ("place", paths)

    def local(self, l, depth=0):
        if depth > 40:
            return ("local", l)
        if l in self._memo:
            return self._memo[l]
        fn = self.fn
        res = None
        if l in self.mut_borrowed:
            res = ("arg", l) if 1 <= l <= fn.argc else ("local", l)
        elif 1 <= l <= fn.argc:
            res = ("arg", l)
        else:
            sd = fn.single_def(l)
            if sd is None:
                res = ("local", l)
            else:
                bi, si, s = sd
                if si == "term":
                    res = self.call_expr(bi, s, depth)
                elif s["k"] == "assign":
                    res = self.rvalue(s["rv"], depth)
                else:
                    res = ("local", l)
        self._memo[l] = res
        return res

    def init_expr(self, l):
        """expression of the (single) initialiser of local l, even if l is later mutably borrowed"""
        sd = self.fn.single_def(l)
        if sd is None:
            return ("local", l)
        bi, si, s = sd
        if si == "term":
            return self.call_expr(bi, s, 0)
        if s.get("k") == "assign":
            return self.rvalue(s["rv"], 0)
        return ("local", l)

    def call_expr(self, bi, t, depth=0):
        c = t["callee"]
        d = c.get("def")
        args = tuple(self.op(a, depth + 1) for a in t["args"])
        if d in LEN_FNS and args:
            return ("len", _same_len(args[0]))
        return ("call", d, c.get("resolved"), args, bi)

    def rvalue(self, rv, depth=0):
        k = rv["k"]
        if k == "use":
            return self.op(rv["op"], depth + 1)
        if k == "binop":
            return fold(("bin", rv["op"], self.op(rv["a"], depth + 1), self.op(rv["b"], depth + 1)))
        if k == "unop":
            if rv["op"] == "PtrMetadata":
                return ("len", _same_len(self.op(rv["a"], depth + 1)))
            return ("un", rv["op"], self.op(rv["a"], depth + 1))
        if k == "cast":
            inner = self.op(rv["op"], depth + 1)
            if rv["cast"].startswith("PointerCoercion") or rv["cast"] == "Transmute":
                return inner
            return ("cast", inner)
        if k in ("ref", "rawptr"):
            pl = rv["place"]
            # &(*_x) reborrow of a whole reference local: same value
            if len(pl["proj"]) == 1 and pl["proj"][0]["k"] == "deref":
                inner = self.local(pl["local"], depth + 1)
                if inner[0] in ("ref", "call", "arg", "promoted", "len", "field", "static"):
                    return inner
            return ("ref", frozenset(self.pts.resolve_place(pl)))
        if k == "discr":
            return ("discr", self.place(rv["place"], depth + 1))
        if k == "aggregate":
            args = tuple(self.op(o, depth + 1) for o in rv["ops"])
            if rv.get("agg") == "adt":
                return ("agg", rv["adt"], rv["variant_name"], args)
            return ("agg", rv.get("agg"), rv.get("def"), args)
        if k == "repeat":
            return ("repeat", self.op(rv["op"], depth + 1), rv.get("n"))
        if k == "copyforderef":
            return self.place(rv["place"], depth + 1)
        return ("unknown", k)


def show(e, fn=None, depth=0):
    if depth > 8:
        return "…"
    k = e[0]
    if k == "const":
        return str(e[1])
    if k == "str":
        return repr(e[1])
    if k in ("arg",):
        return fn.arg_name(e[1]) if (fn and isinstance(e[1], int)) else "arg%s" % (e[1],)
    if k == "local":
        return (fn.names.get(e[1]) if fn else None) or "_%d" % e[1]
    if k in ("place", "ref"):
        s = "|".join(sorted(path_str(p, fn) for p in e[1]))
        return ("&" if k == "ref" else "") + s
    if k == "bin":
        return "(%s %s %s)" % (show(e[2], fn, depth + 1), e[1], show(e[3], fn, depth + 1))
    if k == "un":
        return "%s(%s)" % (e[1], show(e[2], fn, depth + 1))
    if k == "cast":
        return "cast(%s)" % show(e[1], fn, depth + 1)
    if k == "len":
        return "len(%s)" % show(e[1], fn, depth + 1)
    if k == "discr":
        return "discr(%s)" % show(e[1], fn, depth + 1)
    if k == "call":
        return "%s(%s)" % ((e[1] or "?").split("::")[-1], ", ".join(show(a, fn, depth + 1) for a in e[3]))
    if k == "agg":
        return "%s::%s{%s}" % ((e[1] or "").split("::")[-1], e[2], ", ".join(show(a, fn, depth + 1) for a in e[3]))
    if k == "field":
        return "%s.%s" % (show(e[1], fn, depth + 1), e[2])
    if k == "fn":
        return "fn " + e[1]
    return str(e)


def strip_bb(e):
    """structural form without call-site block ids (for equality of values)"""
    if not isinstance(e, tuple):
        return e
    if e and e[0] == "call":
        return ("call", e[1], e[2], tuple(strip_bb(a) for a in e[3]))
    return tuple(strip_bb(x) if isinstance(x, tuple) else x for x in e)
