"""Modular length prover: verifies every panic-capable site of snow's MIR bodies under contracts."""
from fractions import Fraction

from . import lin as LN
from . import panics
from .contracts import Contracts, Ctx, JUSTIFIED
from .expr import strip_bb, show
from .flow import fields_only, is_result_ty
from .guards import expr_paths
from .lenflow import FnAnalysis, State, LEN_MAX, U64MAX, range_of, is_index_call, int_bound, is_intish, is_sliceish, callres
from .lin import Lin


def norm_place_paths(paths, extra=()):
    out = set()
    for (root, proj) in paths:
        out.add((root, tuple(("f", n) for n in fields_only(proj)) + tuple(("f", c) for c in extra)))
    return frozenset(out)


class BodyCtx(Ctx):
    def __init__(self, P, fn):
        super().__init__(P.C.K)
        self.P = P
        self.fn = fn
        self.R = None

    def len(self, i):
        l = i + 1
        t = self.fn.local_ty(l)
        from .lexpr import LResolver
        n = LResolver(self.fn, self.P.E.pts[self.fn.path]).static_len_ty(t)
        if n is not None:
            return Lin.const(n)
        return Lin.atom(("len", ("arg", l)))

    def num(self, i):
        return Lin.atom(("arg", i + 1))

    def getter(self, method, i, chain=()):
        return Lin.atom(("getter", method, frozenset({(("ext", i + 1), tuple(chain))})))

    def b01(self, i, chain):
        return Lin.atom(("b01", ("place", frozenset({(("ext", i + 1), tuple(("f", c) for c in chain))}))))

    def place(self, i, chain):
        return Lin.atom(("place", frozenset({(("ext", i + 1), tuple(("f", c) for c in chain))})))

    def len_place(self, i, chain):
        return Lin.atom(("len", ("ref", frozenset({(("ext", i + 1), tuple(("f", c) for c in chain))}))))

    def ret(self):
        return Lin.atom(("RET",))


class CallCtx(Ctx):
    def __init__(self, P, A, t, ret_atom=None):
        super().__init__(P.C.K)
        self.P = P
        self.A = A
        self.t = t
        self.ea = [A.ex(a) for a in t["args"]]
        self.ret_atom = ret_atom
        self.failed = False

    def len(self, i):
        l = self.A.L.len_of(self.ea[i])
        if l is None:
            self.failed = True
            return Lin.atom(("unknown-len", i))
        return l

    def num(self, i):
        l = self.A.L.lin(self.ea[i])
        if l is None:
            self.failed = True
            return Lin.atom(("unknown-num", i))
        return l

    def _paths(self, i):
        e = self.ea[i]
        ps = expr_paths(e)
        if not ps and e[0] == "arg":
            ps = {(("ext", e[1]), ())}
        if not ps and e[0] == "local":
            ps = {(("loc", e[1]), ())}
        return ps

    def getter(self, method, i, chain=()):
        ps = self._paths(i)
        if not ps:
            self.failed = True
            return Lin.atom(("unknown-getter", method, i))
        rk = frozenset((r, fields_only(p) + tuple(chain)) for r, p in ps)
        return Lin.atom(("getter", method, rk))

    def b01(self, i, chain):
        ps = self._paths(i)
        if not ps:
            self.failed = True
            return Lin.atom(("unknown-b01", i))
        return Lin.atom(("b01", ("place", norm_place_paths(ps, chain))))

    def place(self, i, chain):
        ps = self._paths(i)
        if not ps:
            self.failed = True
            return Lin.atom(("unknown-place", i))
        return Lin.atom(("place", norm_place_paths(ps, chain)))

    def len_place(self, i, chain):
        ps = self._paths(i)
        if not ps:
            self.failed = True
            return Lin.atom(("unknown-place", i))
        return Lin.atom(("len", ("ref", norm_place_paths(ps, chain))))

    def ret(self):
        return Lin.atom(self.ret_atom)


class Prover:
    def __init__(self, F, E, tables=None):
        self.F = F
        self.E = E
        self.C = Contracts(F)
        self.analyses = {}
        self.tables = tables or {}
        self.results = []  # dicts: fn, key, kind, status ('proved'|'justified'|'violation'), what, where
        self._self_consts = {}
        self.inferred = {}  # private contract-less fn path -> [goal over parameter atoms] (inferred preconditions)

    # ------------------------------------------------------------------ analysis per function
    def analysis(self, fn, assumed=None):
        if fn.path in self.analyses and assumed is None:
            return self.analyses[fn.path]
        con = self.C.contract_for(fn.path)
        entry = []
        bools = []
        if con:
            X = BodyCtx(self, fn)
            for r in con["requires"](X):
                if r[0] == "clause":
                    bools.append(("clause", tuple(LN.ccanon(l) for l in r[1])))
                else:
                    entry.append(r)
        A = FnAnalysis(self, fn, entry, bools, assumed)
        self.analyses[fn.path] = A
        return A

    # ------------------------------------------------------------------ ensures at call sites
    def instantiate_ensures(self, A, bb, t, ok_edge):
        con = self.C.contract_for(t)
        if not con:
            return [], []
        ce = A.R.call_expr(bb, t)
        if ce[0] != "call":
            return [], []
        ce = callres(ce)
        if ok_edge:
            X = CallCtx(self, A, t, ("okval", ce))
            cons = con["ensures_ok"](X)
        else:
            X = CallCtx(self, A, t, ce)
            cons = con["ensures"](X)
        if X.failed:
            return [], []
        return [c for c in cons if c[0] != "clause"], []

    # ------------------------------------------------------------------ entailment with axioms
    def self_getter_consts(self, fn):
        """{getter method: constant} for the impl a body belongs to (self-receiver getters)"""
        im = fn.body.get("impl")
        if not im:
            return {}
        if im in self._self_consts:
            return self._self_consts[im]
        out = {}
        for p, b in self.F.bodies.items():
            if b.get("impl") == im and b.get("trait_item") in self.C.const_getters and "mir" in b:
                g = self.F.fn(p)
                v = const_return(g)
                if v is not None:
                    out[b["trait_item"]] = v
        # default dh_len() = pub_len()
        T = self.F.crate + "::types::"
        if T + "Dh::pub_len" in out and T + "Dh::dh_len" not in out:
            out[T + "Dh::dh_len"] = out[T + "Dh::pub_len"]
        self._self_consts[im] = out
        return out

    def axioms_for(self, A, atoms):
        cons = []
        getters = {}
        for a in atoms:
            if not isinstance(a, tuple) or not a:
                continue
            k = a[0]
            if k == "len":
                cons.append(LN.ge(Lin.atom(a)))
                cons.append(LN.le(Lin.atom(a), Lin.const(LEN_MAX)))
                x = a[1]
                # pubkey()/privkey() lengths are getters of the same receiver
                if x[0] == "call" and x[1] in self.C.len_getters and x[3]:
                    rk = A.recv_key(x[3][0])
                    if rk is not None:
                        cons.append(LN.eq(Lin.atom(a) - Lin.atom(("getter", self.C.len_getters[x[1]], rk))))
            elif k == "getter":
                hi, lo = self.C.const_getters[a[1]]
                cons.append(LN.le(Lin.const(lo), Lin.atom(a)))
                cons.append(LN.le(Lin.atom(a), Lin.const(hi)))
                getters.setdefault(a[2], {})[a[1]] = a
                if a[2] == frozenset({(("ext", 1), ())}):
                    sc = self.self_getter_consts(A.fn)
                    if a[1] in sc:
                        cons.append(LN.eq(Lin.atom(a) - Lin.const(sc[a[1]])))
            elif k == "b01":
                cons.append(LN.ge(Lin.atom(a)))
                cons.append(LN.le(Lin.atom(a), Lin.const(1)))
            elif k in ("local", "arg"):
                t = A.fn.local_ty(a[1])
                if t["k"] in ("uint", "bool"):
                    cons.append(LN.ge(Lin.atom(a)))
                    b = int_bound(t)
                    if b is not None:
                        cons.append(LN.le(Lin.atom(a), Lin.const(b)))
            elif k == "okval":
                cons.append(LN.ge(Lin.atom(a)))
                rng = self.iter_range(A, a)
                if rng is not None:
                    lo, hi_excl = rng
                    if lo is not None:
                        cons.append(LN.le(lo, Lin.atom(a)))
                    if hi_excl is not None:
                        cons.append(LN.lt(Lin.atom(a), hi_excl))
            elif k == "place":
                cons.append(LN.ge(Lin.atom(a)))
                fb = self.field_bound(A, a)
                if fb is not None:
                    cons.append(LN.le(Lin.atom(a), Lin.const(fb)))
            elif k in ("call", "field", "bin", "cast", "discr", "callres"):
                cons.append(LN.ge(Lin.atom(a)))
                if k == "field":
                    eb = self.enumerate_bound(A, a)
                    if eb is not None:
                        cons.append(LN.lt(Lin.atom(a), eb))
        for rk, ms in getters.items():
            for (m1, m2) in self.C.getter_rel:
                if m1 in ms and m2 in ms:
                    cons.append(LN.le(Lin.atom(ms[m1]), Lin.atom(ms[m2])))
        return cons

    def field_bound(self, A, a):
        st = A.fn.body.get("self_ty")
        if st is None and A.fn.body.get("parent"):
            pb = self.F.bodies.get(A.fn.body["parent"])
            st = pb.get("self_ty") if pb else None
        if not st:
            return None
        for (root, proj) in a[1]:
            ch = fields_only(proj)
            if not ch:
                return None
            key = (st.split("::")[-1], ch[-1])
            if key in self.C.field_invariants:
                return self.C.field_invariants[key]
        return None

    def iter_range(self, A, a):
        """bounds of a value produced by Iterator::next on a (reversed / inclusive) integer range"""
        call = a[1]
        if call[0] != "callres" or not (call[1] or "").endswith("Iterator::next"):
            return None
        tt = A.fn.blocks[call[2]]["term"]
        if tt["k"] != "call" or not tt["args"]:
            return None
        it = A.R.op(tt["args"][0])
        # iterator local -> its initialiser
        paths = expr_paths(it)
        locs = [r[1] for r, p in paths if r[0] == "loc"]
        if len(locs) != 1:
            return None
        e = A.R.init_expr(locs[0])
        # peel into_iter / rev / moves
        for _ in range(6):
            if e[0] == "call" and ((e[1] or "").endswith("IntoIterator::into_iter") or (e[1] or "").endswith("Iterator::rev")) and e[3]:
                e = e[3][0]
            else:
                break
        r = range_of(e)
        if r is None:
            return None
        if r[0] == "range":
            lo, hi = A.L.lin(r[1]), A.L.lin(r[2])
            return (lo, hi)
        if r[0] == "incl":
            lo, hi = A.L.lin(r[1]), A.L.lin(r[2])
            return (lo, hi + Lin.const(1) if hi is not None else None)
        return None

    def enumerate_bound(self, A, a):
        """`(i, x)` produced by slice.iter().enumerate(): i < len(slice)"""
        # a = ('field', ('okval', call next(&iter)), '0')
        if a[2] != "0" or a[1][0] != "okval":
            return None
        call = a[1][1]
        if call[0] != "call" or not (call[2] or "").startswith("<std::iter::Enumerate<") or not call[3]:
            return None
        locs = [r[1] for r, p in expr_paths(call[3][0]) if r[0] == "loc"]
        if len(locs) != 1:
            return None
        e = A.R.init_expr(locs[0])
        for _ in range(8):
            if e[0] == "call" and e[3] and any((e[1] or "").endswith(x) for x in ("IntoIterator::into_iter", "Iterator::enumerate", "slice::<impl [T]>::iter")):
                e = e[3][0]
            else:
                break
        return A.L.len_of(e)

    def entails_state(self, A, st, goal, extra=()):
        cons = self.state_cons(A, st, [goal], extra)
        atoms = set(goal[1].atoms())
        cons = LN.relevant(cons, atoms)
        return LN.entails(cons, goal)

    def state_cons(self, A, st, goals, extra=()):
        cons = [LN.from_canon(c) for c in st.lin] + list(extra)
        nes = []
        clauses = []
        for f in st.bools:
            if f[0] == "bool" and isinstance(f[1], tuple):
                cons.append(LN.eq(Lin.atom(("b01", self.norm_b(f[1]))) - Lin.const(1 if f[2] else 0)))
            elif f[0] == "ne":
                nes.append(LN.from_canon(f[1])[1])
            elif f[0] == "clause":
                clauses.append([LN.from_canon(l) for l in f[1]])
        atoms = set()
        for (k, l) in cons:
            atoms |= l.atoms()
        for g in goals:
            atoms |= g[1].atoms()
        for n in nes:
            atoms |= n.atoms()
        for cl in clauses:
            for (k, l) in cl:
                atoms |= l.atoms()
        ax = self.axioms_for(A, atoms)
        # second round for atoms introduced by axioms
        a2 = set()
        for (k, l) in ax:
            a2 |= l.atoms()
        ax += self.axioms_for(A, a2 - atoms)
        cons += ax
        # disequalities: L != 0 with L >= 0 entailed gives L >= 1 (and symmetrically)
        for n in nes:
            rel = LN.relevant(cons, n.atoms())
            if LN.entails(rel, LN.ge(n)):
                cons.append(LN.ge(n - Lin.const(1)))
            elif LN.entails(rel, LN.ge(-n)):
                cons.append(LN.ge((-n) - Lin.const(1)))
        # clauses: unit resolution
        for cl in clauses:
            alive = []
            for lit in cl:
                if not self.refuted(cons, nes, lit):
                    alive.append(lit)
            if len(alive) == 1:
                cons.append(alive[0])
        return cons

    @staticmethod
    def norm_b(e):
        if e[0] == "place":
            return ("place", norm_place_paths(e[1]))
        return e

    def refuted(self, cons, nes, lit):
        kind, l = lit
        rel = LN.relevant(cons, l.atoms())
        if kind == "eq":
            for n in nes:
                if LN.ccanon(("eq", n)) == LN.ccanon(("eq", l)):
                    return True
            return LN.entails(rel, LN.ge(l - Lin.const(1))) or LN.entails(rel, LN.ge((-l) - Lin.const(1)))
        return LN.entails(rel, LN.ge((-l) - Lin.const(1)))

    def prove(self, A, st, goals, extra=()):
        """all goals entailed? returns (ok, first failing goal)"""
        if st is None:
            return True, None  # unreachable block
        cons = self.state_cons(A, st, goals, extra)
        for g in goals:
            rel = LN.relevant(cons, g[1].atoms())
            if not LN.entails(rel, g):
                return False, g
        return True, None

    def infeasible(self, A, st):
        if st is None:
            return True
        cons = self.state_cons(A, st, [])
        return LN.infeasible(cons)

    def check_all(self, fns):
        fns = list(fns)
        for fn in fns:
            self.check_fn(fn)
        # inferred preconditions of private helpers are checked at their call sites (two rounds for nested helpers)
        done = set()
        for rnd in range(2):
            todo = {p: gs for p, gs in self.inferred.items() if (p, len(gs)) not in done}
            if not todo:
                break
            for p, gs in todo.items():
                done.add((p, len(gs)))
            for fn in fns:
                self._check_inferred_calls(fn, todo)

    def _check_inferred_calls(self, fn, todo):
        A = self.analyses.get(fn.path) or self.analysis(fn)
        n = 0
        for bi, t in fn.calls():
            r = t["callee"].get("resolved") or t["callee"].get("def")
            if r not in todo:
                continue
            st = A.state_before_term(bi)
            if st is None:
                continue
            X = CallCtx(self, A, t)
            self._cur_block = bi
            for g in todo[r]:
                n += 1
                kind, l = g
                inst = Lin.const(l.k)
                ok_inst = True
                for a, v in l.c.items():
                    if a[0] == "arg":
                        term = X.num(a[1] - 1)
                    elif a[0] == "len":
                        term = X.len(a[1][1] - 1)
                    else:
                        ok_inst = False
                        break
                    inst = inst + term.scale(v)
                key = "pre-inferred:%s#%d" % (r.split("::")[-1], n)
                if not ok_inst or X.failed:
                    self.record(fn, key, "precondition", "violation", "inferred precondition of %s not expressible at this call" % r.split("::")[-1], t)
                    continue
                self._oblige(A, fn, t, st, [(kind, inst)], key, "precondition-inferred", "requirement of helper %s" % r.split("::")[-1], bi)

    # ------------------------------------------------------------------ obligations
    def record(self, fn, key, kind, status, what, t=None, detail=None):
        self.results.append({"fn": fn.path, "key": key, "kind": kind, "status": status, "what": what,
                             "where": "%s:%d" % (fn.file, t["l"]) if t is not None and "l" in t else "%s:%d" % (fn.file, fn.line), "detail": detail})

    def check_fn(self, fn):
        """verify one body; a failed obligation is reported once and then *assumed* for the rest of the body
        (assume-after-assert), so that one root cause yields one report instead of a cascade"""
        assumed = {}
        reported = {}
        for rnd in range(4):
            start = len(self.results)
            self._failed_goals = []
            self._check_fn_once(fn, assumed if assumed else None)
            new = self.results[start:]
            fails = [r for r in new if r["status"] == "violation"]
            extra = [g for g in self._failed_goals if g[0] not in assumed or g[1] not in assumed[g[0]]]
            if not extra or rnd == 3:
                break
            for (bi, goal) in extra:
                assumed.setdefault(bi, []).append(goal)
            del self.results[start:]
        self._failed_goals = []

    def _check_fn_once(self, fn, assumed):
        A = self.analysis(fn, assumed)
        F = self.F
        counters = {}

        def key_for(kind, t, extra=""):
            base = kind + (":" + extra if extra else "")
            counters[base] = counters.get(base, 0) + 1
            return "%s#%d" % (base, counters[base])

        for bi in sorted(fn.reachable()):
            b = fn.blocks[bi]
            if b["cleanup"]:
                continue
            t = b["term"]
            st = A.state_before_term(bi)
            self._cur_block = bi
            if st is None:
                continue
            if t["k"] == "assert":
                self._check_assert(A, fn, bi, t, st, key_for)
            elif t["k"] == "call":
                kind = panics.classify_call(t)
                if kind == "index":
                    self._check_index(A, fn, bi, t, st, key_for)
                elif kind == "copy_from_slice":
                    self._check_copy(A, fn, bi, t, st, key_for)
                elif kind == "unwrap":
                    self._check_unwrap(A, fn, bi, t, st, key_for)
                elif kind == "panic":
                    self._check_panic(A, fn, bi, t, st, key_for)
                con = self.C.contract_for(t)
                if con:
                    self._check_requires(A, fn, bi, t, st, con, key_for)
        self._cur_block = None
        self._check_ensures(A, fn)

    def _fmt_goal(self, A, g):
        kind, l = g
        pos = Lin({a: v for a, v in l.c.items() if v > 0}, l.k if l.k > 0 else 0)
        neg = Lin({a: -v for a, v in l.c.items() if v < 0}, -l.k if l.k < 0 else 0)
        return "%s %s %s" % (fmt_lin(A, pos), ">=" if kind == "ge" else "==", fmt_lin(A, neg))

    def _have(self, A, st, g, limit=4):
        """facts of the state that share atoms with the goal (for diagnostics)"""
        atoms = g[1].atoms()
        out = []
        for cc in st.lin:
            k, l = LN.from_canon(cc)
            if l.atoms() & atoms:
                out.append(self._fmt_goal(A, (k, l)))
        return sorted(out, key=len)[:limit]

    def _param_only(self, fn, goal):
        for a in goal[1].atoms():
            if a[0] == "arg" and 1 <= a[1] <= fn.argc:
                continue
            if a[0] == "len" and a[1][0] == "arg":
                continue
            return False
        return True

    def _is_private_helper(self, fn):
        b = fn.body
        if b.get("kind") != "Fn" and b.get("kind") != "AssocFn":
            return False
        if b.get("trait_item") or b.get("in_trait"):
            return False
        if b.get("pub") and b.get("reachable"):
            return False
        return self.C.contract_for(fn.path) is None

    def _oblige(self, A, fn, t, st, goals, key, kind, desc, bi=None):
        ok, bad = self.prove(A, st, goals)
        if not ok and self._is_private_helper(fn) and all(self._param_only(fn, g) for g in goals) and kind != "precondition-inferred":
            # a private helper without a contract: the obligation becomes an inferred precondition checked at every call site
            self.inferred.setdefault(fn.path, [])
            for g in goals:
                if LN.ccanon(g) not in [LN.ccanon(x) for x in self.inferred[fn.path]]:
                    self.inferred[fn.path].append(g)
            self.record(fn, key, kind, "proved", desc + " (required of every caller: inferred precondition)", t)
            if bi is None:
                bi = self._cur_block
            if bi is not None and hasattr(self, "_failed_goals"):
                for g in goals:
                    self._failed_goals.append((bi, g))
            return
        if ok:
            self.record(fn, key, kind, "proved", desc, t)
        else:
            if bi is None:
                bi = self._cur_block
            if bi is not None and hasattr(self, "_failed_goals"):
                for g in goals:
                    self._failed_goals.append((bi, g))
            self.record(fn, key, kind, "violation", "%s: need %s; have %s" % (desc, self._fmt_goal(A, bad), "; ".join(self._have(A, st, bad)) or "nothing relevant"), t)

    def _check_assert(self, A, fn, bi, t, st, key_for):
        msg = t["msg"]
        ops = [A.ex(o) for o in t["ops"]]
        if msg.startswith("overflow_") and len(ops) == 2:
            a, b = A.L.lin(ops[0]), A.L.lin(ops[1])
            ty = A.R.op_ty(t["ops"][0])
            mx = int_bound(ty) or U64MAX
            key = key_for("assert", t, msg)
            if a is None or b is None:
                self.record(fn, key, msg, "violation", "arithmetic operands not linear: %s, %s" % (show(ops[0], fn), show(ops[1], fn)), t)
                return
            if msg == "overflow_add":
                self._oblige(A, fn, t, st, [LN.le(a + b, Lin.const(mx))], key, msg, "%s + %s cannot overflow" % (show(ops[0], fn), show(ops[1], fn)))
            elif msg == "overflow_sub":
                self._oblige(A, fn, t, st, [LN.le(b, a)], key, msg, "%s - %s cannot underflow" % (show(ops[0], fn), show(ops[1], fn)))
            else:
                self.record(fn, key, msg, "violation", "unmodelled checked operation %s" % msg, t)
        elif msg == "bounds" and len(ops) == 2:
            ln, idx = ops
            l = A.L.lin(ln)
            i = A.L.lin(idx)
            key = key_for("assert", t, "bounds")
            j = self.justify_bounds(A, fn, bi, t, idx)
            if j:
                self.record(fn, key, "bounds", "justified", j, t)
                return
            if l is None or i is None:
                self.record(fn, key, "bounds", "violation", "index not linear", t)
                return
            self._oblige(A, fn, t, st, [LN.lt(i, l)], key, "bounds", "index %s within length %s" % (show(idx, fn), show(ln, fn)))
        else:
            self.record(fn, key_for("assert", t, msg), msg, "violation", "unmodelled assertion %s" % msg, t)

    def _check_index(self, A, fn, bi, t, st, key_for):
        base = A.ex(t["args"][0])
        rng = A.ex(t["args"][1])
        key = key_for("index", t)
        lb = A.L.len_of(base)
        r = range_of(rng)
        is_str = self.base_is_str(A, t)
        if r is None:
            # integer index (Vec<T>[usize]) or an unmodelled range form
            i = A.L.lin(rng)
            if i is not None and lb is not None and self.arg_is_int(A, t["args"][1]):
                self._oblige(A, fn, t, st, [LN.lt(i, lb)], key, "index", "index %s within %s" % (show(rng, fn), show(base, fn)))
            else:
                self.record(fn, key, "index", "violation", "unmodelled index expression %s" % show(rng, fn), t)
            return
        goals = []
        desc = "%s[%s] within bounds" % (show(base, fn), r[0])
        pts = []
        if r[0] == "to":
            e = A.L.lin(r[1])
            goals = [LN.le(e, lb)] if e is not None and lb is not None else None
            pts = [r[1]]
        elif r[0] == "from":
            s = A.L.lin(r[1])
            goals = [LN.le(s, lb)] if s is not None and lb is not None else None
            pts = [r[1]]
        elif r[0] == "range":
            s, e = A.L.lin(r[1]), A.L.lin(r[2])
            goals = [LN.le(s, e), LN.le(e, lb)] if None not in (s, e, lb) else None
            pts = [r[1], r[2]]
        elif r[0] == "toinc":
            e = A.L.lin(r[1])
            goals = [LN.lt(e, lb)] if e is not None and lb is not None else None
        elif r[0] == "full":
            goals = []
        if goals is None:
            self.record(fn, key, "index", "violation", "range bounds not linear: %s" % show(rng, fn), t)
            return
        if is_str and r[0] != "full":
            okb, why = self.str_boundaries(A, st, base, pts, lb)
            if not okb:
                self.record(fn, key, "index", "violation", "string slice at %s: %s" % (show(rng, fn), why), t)
                return
            if why == "implied":
                self.record(fn, key, "index", "proved", desc + " (prefix test implies length and char boundary)", t)
                return
        self._oblige(A, fn, t, st, goals, key, "index", desc)

    def arg_is_int(self, A, op):
        return is_intish(A.R.op_ty(op))

    def base_is_str(self, A, t):
        ty = A.R.op_ty(t["args"][0])
        if ty is None:
            return False
        F = self.F
        while ty["k"] in ("ref", "refmut"):
            ty = F.types[ty["inner"]]
        return ty["k"] == "str"

    def str_boundaries(self, A, st, base, pts, lb):
        """every slice point of a &str must be a char boundary: established by is_char_boundary() == true on the same
        string and index, by being 0, or by starts_with(<literal>) with the index equal to the literal's length"""
        for p in pts:
            if p == ("const", 0):
                continue
            ok = False
            for f in st.bools:
                if f[0] == "bool" and f[2] is True and f[1][0] == "call":
                    c = f[1]
                    d = c[1] or ""
                    if d.endswith("is_char_boundary") and len(c[3]) == 2 and c[3][1] == strip_bb(p) and same_str(c[3][0], base):
                        ok = True
                    if d.endswith("starts_with") and len(c[3]) == 2 and same_str(c[3][0], base):
                        lit = c[3][1]
                        if lit[0] == "str" and strip_bb(p) == ("const", len(lit[1].encode())):
                            return True, "implied"
            if not ok:
                return False, "no char-boundary fact for index %s" % (show(p, A.fn),)
        return True, ""

    def _check_copy(self, A, fn, bi, t, st, key_for):
        dst = A.ex(t["args"][0])
        src = A.ex(t["args"][1])
        key = key_for("copy_from_slice", t)
        ld, ls = A.L.len_of(dst), A.L.len_of(src)
        if ld is None or ls is None:
            self.record(fn, key, "copy_from_slice", "violation", "lengths not linear", t)
            return
        j = self.justify_copy(A, fn, t, dst, src)
        if j:
            self.record(fn, key, "copy_from_slice", "justified", j, t)
            return
        self._oblige(A, fn, t, st, [LN.eq(ld - ls)], key, "copy_from_slice", "copy_from_slice lengths equal (%s vs %s)" % (show(dst, fn), show(src, fn)))

    def _check_unwrap(self, A, fn, bi, t, st, key_for):
        key = key_for("unwrap", t)
        arg = A.ex(t["args"][0])
        for (suffix, kind, callee, why) in JUSTIFIED:
            if kind == "unwrap" and fn.path.endswith(suffix):
                self.record(fn, key, "unwrap", "justified", why, t)
                return
        # unwrap of try_into on a fixed-size slice
        self.record(fn, key, "unwrap", "violation", "unwrap/expect on %s can panic (no justification recorded)" % show(arg, fn), t)

    def _check_panic(self, A, fn, bi, t, st, key_for):
        key = key_for("panic", t)
        j = self.justify_panic(A, fn, bi, t, st)
        if j:
            self.record(fn, key, "panic", "justified", j, t)
            return
        if self.infeasible(A, st):
            self.record(fn, key, "panic", "proved", "panic branch is unreachable (its guard contradicts the established facts)", t)
        else:
            self.record(fn, key, "panic", "violation", "explicit panic is reachable", t)

    def _check_requires(self, A, fn, bi, t, st, con, key_for):
        X = CallCtx(self, A, t)
        reqs = con["requires"](X)
        name = (t["callee"].get("def") or "?").split("::")[-1]
        for i, r in enumerate(reqs):
            key = key_for("pre", t, name)
            if X.failed:
                self.record(fn, key, "precondition", "violation", "arguments of %s not understood" % name, t)
                continue
            if r[0] == "clause":
                ok = False
                for lit in r[1]:
                    o, _ = self.prove(A, st, [lit])
                    if o:
                        ok = True
                        break
                if ok:
                    self.record(fn, key, "precondition", "proved", "precondition of %s" % name, t)
                else:
                    self.record(fn, key, "precondition", "violation", "precondition of %s: none of %s holds" % (name, " | ".join(self._fmt_goal(A, l) for l in r[1])), t)
            else:
                self._oblige(A, fn, t, st, [r], key, "precondition", "precondition of %s" % name)

    def _check_ensures(self, A, fn):
        con = self.C.contract_for(fn.path)
        if not con:
            return
        X = BodyCtx(self, fn)
        is_res = is_result_ty(fn.local_ty_s(0))
        ens = con["ensures_ok"](X) if is_res else con["ensures"](X)
        if not ens:
            return
        RET = ("RET",)
        n = 0
        for bi in sorted(fn.reachable()):
            b = fn.blocks[bi]
            for si, s in enumerate(b["stmts"]):
                if s["k"] == "assign" and s["place"]["local"] == 0 and not s["place"]["proj"]:
                    rv = s["rv"]
                    if is_res:
                        if rv["k"] == "aggregate" and rv.get("variant_name") == "Ok":
                            val = A.L.lin(A.ex(rv["ops"][0]))
                            st = A.state_before_term(bi, upto=si)
                            self._ens(A, fn, s, st, ens, RET, val, n)
                            n += 1
                        elif rv["k"] == "use" and rv["op"]["k"] in ("copy", "move"):
                            # `_0 = move _r` where _r is a call result
                            e = A.ex(rv["op"])
                            if e[0] == "call":
                                # the callee's Ok-postcondition holds of okval(_r) on every path (it only speaks of the Ok payload)
                                tdef = None
                                if not rv["op"]["place"]["proj"]:
                                    sd = fn.single_def(rv["op"]["place"]["local"])
                                    if sd and sd[1] == "term":
                                        tdef = sd[2]
                                self._ens_tail(A, fn, s, A.state_before_term(bi, upto=si), ens, RET, e, n, tdef)
                                n += 1
                    else:
                        val = A.L.lin(A.R.rvalue(rv))
                        st = A.state_before_term(bi, upto=si)
                        self._ens(A, fn, s, st, ens, RET, val, n)
                        n += 1
            t = b["term"]
            if t["k"] == "call" and t["dest"]["local"] == 0 and not t["dest"]["proj"]:
                ce = A.R.call_expr(bi, t)
                st = A.state_before_term(bi)
                if is_res:
                    if (t["callee"].get("def") or "").endswith("FromResidual::from_residual"):
                        continue
                    self._ens_tail(A, fn, t, st, ens, RET, ce, n, t)
                else:
                    st2 = A._term_transfer(st, bi, t)
                    self._ens(A, fn, t, st2, ens, RET, A.L.lin(ce), n)
                n += 1

    def _ens(self, A, fn, where_t, st, ens, RET, val, n):
        key = "post#%d" % (n + 1)
        if val is None and not any(RET in l.c for (k, l) in ens):
            val = Lin.const(0)
        if val is None:
            self.record(fn, key, "postcondition", "violation", "returned value not linear", where_t)
            return
        goals = [(k, l.subst(RET, val)) for (k, l) in ens]
        ok, bad = self.prove(A, st, goals)
        if ok:
            self.record(fn, key, "postcondition", "proved", "postcondition holds at this return", where_t)
        else:
            self.record(fn, key, "postcondition", "violation", "postcondition at return: need %s; have %s" % (self._fmt_goal(A, bad), "; ".join(self._have(A, st, bad)) or "nothing relevant"), where_t)

    def _ens_tail(self, A, fn, where_t, st, ens, RET, callexpr, n, t=None):
        """`return g(..)` for Result-returning g: f's Ok-postcondition must follow from g's"""
        key = "post#%d" % (n + 1)
        extra = []
        # Result adaptors: x.map_err(f) keeps the Ok payload; x.map(|_| captured) replaces it by the captured value
        ce = callexpr
        mapped = None
        for _ in range(4):
            d = ce[1] or "" if ce[0] == "call" else ""
            if d.endswith("Result::<T, E>::map_err") and ce[3]:
                ce = ce[3][0]
                continue
            if d.endswith("Result::<T, E>::map") and len(ce[3]) == 2:
                mapped = self.closure_capture_value(A, ce[3][1])
                if mapped is None and self.closure_returns_len_of_arg(ce[3][1]):
                    # x.map(|s| s.len()): the Ok payload is the length of x's Ok payload
                    mapped = ("len", ("okval", ce[3][0]))
                ce = ce[3][0]
                continue
            break
        if mapped is not None:
            val = A.L.lin(mapped)
            if val is not None and st is not None:
                goals = [(k, l.subst(RET, val)) for (k, l) in ens]
                ok, bad = self.prove(A, st, goals)
                if ok:
                    self.record(fn, key, "postcondition", "proved", "postcondition holds for the value produced by the map closure", where_t)
                else:
                    self.record(fn, key, "postcondition", "violation", "postcondition at tail return: need %s; have %s" % (self._fmt_goal(A, bad), "; ".join(self._have(A, st, bad))), where_t)
                return
        if t is not None:
            con = self.C.contract_for(t)
            if con:
                X = CallCtx(self, A, t, ("okval", callres(callexpr)))
                extra = [c for c in con["ensures_ok"](X) if c[0] != "clause"] if not X.failed else []
        val = Lin.atom(("okval", callres(callexpr)))
        goals = [(k, l.subst(RET, val)) for (k, l) in ens]
        if st is None:
            return
        cons_ok, bad = True, None
        for g in goals:
            cons = self.state_cons(A, st, [g], extra)
            rel = LN.relevant(cons, g[1].atoms())
            if not LN.entails(rel, g):
                cons_ok, bad = False, g
                break
        if cons_ok:
            self.record(fn, key, "postcondition", "proved", "postcondition follows from the callee's at this tail return", where_t)
        else:
            self.record(fn, key, "postcondition", "violation", "postcondition at tail return: need %s" % self._fmt_goal(A, bad), where_t)

    def closure_returns_len_of_arg(self, cexpr):
        """`|s| s.len()` — the closure returns the length of its (slice) argument"""
        if cexpr[0] != "agg" or cexpr[1] != "closure" or not cexpr[2]:
            return False
        g = self.F.fn(cexpr[2])
        if g is None or g.argc != 2:
            return False
        try:
            from .lexpr import LResolver
            R2 = LResolver(g, self.E.pts[g.path])
            e = strip_bb(R2.local(0))
        except Exception:
            return False
        if e[0] == "len":
            x = e[1]
            while x[0] in ("unsize", "sized") or (x[0] in ("ref", "place") and False):
                x = x[1]
            if x == ("arg", 2):
                return True
            if x[0] in ("ref", "place", "aref") and all(r == ("ext", 2) or r == ("loc", 2) for r, p in x[1]):
                return True
        return False

    def closure_capture_value(self, A, cexpr):
        """for `|..| captured_var`: the caller-side expression of the captured value, else None"""
        if cexpr[0] != "agg" or cexpr[1] != "closure" or not cexpr[2]:
            return None
        g = self.F.fn(cexpr[2])
        if g is None:
            return None
        # closure body returns capture k (possibly through a reference)
        k = None
        try:
            from .lexpr import LResolver
            R2 = LResolver(g, self.E.pts[g.path])
            e = R2.local(0)
            if e[0] == "place" and len(e[1]) == 1:
                (root, proj) = next(iter(e[1]))
                if root == ("loc", 1) and proj and proj[0][0] == "f" and all(x[0] in ("f", "*") for x in proj) and sum(1 for x in proj if x[0] == "f") == 1:
                    k = int(proj[0][1])
        except Exception:
            k = None
        if k is None or k >= len(cexpr[3]):
            return None
        cap = cexpr[3][k]
        if cap[0] in ("ref", "aref"):
            locs = [r[1] for r, p in cap[1] if r[0] == "loc" and not p]
            if len(locs) == 1:
                return A.R.local(locs[0])
            return None
        return cap

    # ------------------------------------------------------------------ non-arithmetic justifications (checked)
    def justify_bounds(self, A, fn, bi, t, idx):
        """psks[usize::from(n)] where n comes from a Token::Psk(n): n <= number of messages <= 4 < 10"""
        tb = self.tables
        if idx[0] == "cast" and idx[1][0] in ("field", "place"):
            if tb.get("psk_token_bound") is not None and self._from_token_psk(A, idx[1]):
                return "psk index comes from a Token::Psk(n) created only by apply_psk_modifier with n <= #messages = %d < 10 (tables fact)" % tb["psk_token_bound"]
        return None

    def _from_token_psk(self, A, e):
        s = repr(e)
        return "Psk" in s

    def justify_copy(self, A, fn, t, dst, src):
        return None

    def justify_panic(self, A, fn, bi, t, st):
        tb = self.tables
        if fn.path.endswith("handshakestate::HandshakeState::new") and tb.get("premsg_only_s_e"):
            # unreachable!() in the pre-message loops: reached only for tokens other than S / E
            if any(f[0] == "notvariant" or f[0] == "variant" for f in st.bools):
                return "pre-message lists contain only S and E tokens in all %d extracted pattern rows (tables fact), so the `_ => unreachable!()` arm is dead" % tb["premsg_only_s_e"]
        return None


def same_str(a, b):
    return canon_strref(strip_bb(a)) == canon_strref(strip_bb(b))


def canon_strref(e):
    """`&*s` through a by-reference binding of an argument/local is the same string as s"""
    if e[0] == "ref" and len(e[1]) == 1:
        (root, proj) = next(iter(e[1]))
        if root[0] == "loc" and all(x == ("*",) for x in proj):
            return ("var", root[1])
    if e[0] in ("arg", "local"):
        return ("var", e[1])
    return e


def strip_refs(e):
    return e


def const_return(fn):
    """the constant a trivial getter returns, or None"""
    vals = set()
    for bi, b in enumerate(fn.blocks):
        for s in b["stmts"]:
            if s["k"] == "assign" and s["place"]["local"] == 0 and not s["place"]["proj"]:
                rv = s["rv"]
                if rv["k"] == "use" and rv["op"]["k"] == "const" and "val" in rv["op"]:
                    vals.add(rv["op"]["val"])
                else:
                    return None
        t = b["term"]
        if t["k"] == "call" and t["dest"]["local"] == 0:
            return None
    if len(vals) == 1:
        return next(iter(vals))
    return None


def fmt_lin(A, l):
    parts = []
    for a, v in sorted(l.c.items(), key=lambda x: repr(x[0])):
        s = fmt_atom(A, a)
        parts.append(s if v == 1 else "%s*%s" % (v, s))
    if l.k != 0 or not parts:
        parts.append(str(l.k))
    return " + ".join(parts)


def fmt_atom(A, a):
    fn = A.fn
    if a[0] == "len":
        return "len(%s)" % show(a[1], fn)
    if a[0] == "getter":
        recv = "|".join(sorted(".".join(ch) or "self" for (r, ch) in a[2]))
        return "%s(%s)" % (a[1].split("::")[-1], recv)
    if a[0] == "b01":
        return "[%s]" % show(a[1], fn)
    if a[0] == "okval":
        return "ok(%s)" % show(a[1], fn)
    return show(a, fn)
