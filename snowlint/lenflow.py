"""lenproof — forward abstract interpretation of a MIR body over conjunctions of linear constraints on
symbolic lengths/integers (+ boolean facts), with modular contracts. See DESIGN.md A.3.

State at a program point: (lin: frozenset of canonical linear constraints, bools: frozenset of boolean facts).
Atoms of linear constraints are expression trees (lexpr.LResolver) — lengths of slices, integer locals with
several definitions (program variables), results of calls, stable getter symbols, 0/1 symbols b01(e).
"""
from fractions import Fraction

from . import lin as LN
from .lin import Lin
from .lexpr import LResolver
from .expr import strip_bb, show
from .flow import fields_only, overlaps
from .guards import expr_paths, expr_locals, TRY_BRANCH, CMP

LEN_MAX = (1 << 62) - 1
U64MAX = (1 << 64) - 1


def is_intish(t):
    return t is not None and t["k"] in ("uint", "int", "bool", "char")


def int_bound(t):
    if t is None:
        return None
    if t["k"] == "bool":
        return 1
    if t["k"] == "uint":
        return {"u8": 255, "u16": 65535, "u32": (1 << 32) - 1, "u64": U64MAX, "usize": U64MAX, "u128": (1 << 128) - 1}.get(t.get("w"))
    return None


def is_sliceish(t, F):
    if t is None:
        return False
    if t["k"] in ("ref", "refmut", "ptr", "ptrmut"):
        inner = F.types[t["inner"]]
        return inner["k"] in ("slice", "str")
    return False


RANGE_KINDS = {
    "std::ops::RangeTo": "to", "std::ops::RangeTo": "to",
    "std::ops::RangeFrom": "from", "std::ops::RangeFrom": "from",
    "std::ops::Range": "range", "std::ops::Range": "range",
    "std::ops::RangeToInclusive": "toinc", "std::ops::RangeToInclusive": "toinc",
    "std::ops::RangeFull": "full", "std::ops::RangeFull": "full",
}


def range_of(e):
    """('to', end) | ('from', start) | ('range', start, end) | ('toinc', end) | ('full',) | ('incl', start, end) | None"""
    if e[0] == "agg" and e[1] in RANGE_KINDS:
        k = RANGE_KINDS[e[1]]
        return (k,) + tuple(e[3])
    if e[0] == "call" and (e[1] or "").endswith("RangeInclusive::<Idx>::new") and len(e[3]) == 2:
        return ("incl", e[3][0], e[3][1])
    if e[0] == "agg" and (e[1] or "").endswith("ops::RangeInclusive") and len(e[3]) >= 2:
        return ("incl", e[3][0], e[3][1])
    return None


INDEX_FNS = ("ops::Index::index", "ops::IndexMut::index_mut")


def is_index_call(e):
    return e[0] == "call" and any((e[1] or "").endswith(x) for x in INDEX_FNS) and len(e[3]) == 2


def norm_paths(paths, extra=()):
    return frozenset((root, tuple(("f", n) for n in fields_only(proj)) + tuple(("f", c) for c in extra)) for (root, proj) in paths)


def callres(e):
    """identity of a call result: the call site (never invalidated by later memory writes)"""
    if e[0] == "call" and len(e) >= 5:
        return ("callres", e[1], e[4])
    return strip_bb(e)


def norm_len_base(x):
    """identity of a slice value for len atoms: references to places by normalised path, call results by site"""
    if x[0] in ("ref", "place", "aref"):
        return ("ref", norm_paths(x[1]))
    if x[0] == "call" and len(x) >= 5:
        return callres(x)
    if x[0] == "okval":
        return ("okval", callres(x[1]))
    return strip_bb(x)


class Linearizer:
    """expression tree -> Lin over atoms; knows stable getters, lengths of sub-slices, typenum arrays"""

    def __init__(self, A):
        self.A = A  # the FnAnalysis
        self.pending = []  # side constraints generated while linearising (definitional equalities)

    def lin(self, e):
        k = e[0]
        if k == "const":
            return Lin.const(e[1])
        if k == "bin":
            op, a, b = e[1], e[2], e[3]
            if op in ("Add", "AddUnchecked"):
                la, lb = self.lin(a), self.lin(b)
                return la + lb if la is not None and lb is not None else None
            if op in ("Sub", "SubUnchecked"):
                la, lb = self.lin(a), self.lin(b)
                return la - lb if la is not None and lb is not None else None
            if op in ("Mul", "MulUnchecked"):
                la, lb = self.lin(a), self.lin(b)
                if la is not None and lb is not None:
                    if la.is_const():
                        return lb.scale(la.k)
                    if lb.is_const():
                        return la.scale(lb.k)
                return Lin.atom(self.atom(e))
            return Lin.atom(self.atom(e))
        if k == "cast":
            return self.lin(e[1])
        if k == "len":
            return self.len_of(e[1])
        if k == "call":
            d = e[1] or ""
            # usize::from(u8) etc.
            if d.endswith("convert::From::from") or d.endswith("convert::Into::into"):
                if e[3] and self.A.expr_is_int(e[3][0]):
                    return self.lin(e[3][0])
            if d.endswith("::saturating_sub") and len(e[3]) == 2:
                return Lin.atom(self.atom(e))
            g = self.A.getter_atom(e)
            if g is not None:
                return Lin.atom(g)
            inl = self.A.inline_getter(e)
            if inl is not None:
                return self.lin(inl)
            fw = self.A.forwarded_getter(e)
            if fw is not None:
                return Lin.atom(fw)
            return Lin.atom(callres(e))
        if k == "okval":
            return Lin.atom(("okval", callres(e[1])))
        if k == "sized":
            return self.lin(e[1])
        if k == "place":
            return Lin.atom(("place", norm_paths(e[1])))
        if k in ("local", "arg", "field", "discr"):
            return Lin.atom(self.atom(strip_bb(e)))
        if k == "b01":
            return Lin.atom(e)
        return None

    def atom(self, e):
        return e

    def len_of(self, x):
        """Lin for the length of slice-valued expression x"""
        k = x[0]
        if k == "unsize":
            return Lin.const(x[2])
        if k == "aref":
            return Lin.const(x[2])
        if is_index_call(x):
            base, rng = x[3]
            r = range_of(rng)
            lb = self.len_of(base)
            if r is None or lb is None:
                return Lin.atom(("len", norm_len_base(x)))
            if r[0] == "to":
                return self.lin(r[1])
            if r[0] == "from":
                s = self.lin(r[1])
                return lb - s if s is not None else None
            if r[0] == "range":
                s, t = self.lin(r[1]), self.lin(r[2])
                return t - s if s is not None and t is not None else None
            if r[0] == "toinc":
                t = self.lin(r[1])
                return t + Lin.const(1) if t is not None else None
            if r[0] == "full":
                return lb
            return Lin.atom(("len", norm_len_base(x)))
        if k == "call":
            d = x[1] or ""
            # trait contract: pubkey().len() == pub_len()
            lg = self.A.P.C.len_getters.get(d)
            if lg is not None:
                g = self.A.getter_atom(("call", lg, None, x[3]))
                if g is not None:
                    return Lin.atom(g)
            if d.endswith("str::<impl str>::as_bytes") or d.endswith("::as_ref") and False:
                return self.len_of(x[3][0])
            if d.endswith("Deref::deref") or d.endswith("DerefMut::deref_mut") or d.endswith("::as_slice") or d.endswith("::as_mut_slice") or d.endswith("AsRef::as_ref") or d.endswith("Borrow::borrow"):
                n = self.A.static_len_of_type_of(x)
                if n is not None:
                    return Lin.const(n)
                inner = x[3][0] if x[3] else None
                if inner is not None and (d.endswith("::as_slice") or d.endswith("::as_mut_slice")):
                    return Lin.atom(("len", x))
            ext = self.A.external_len(x)
            if ext is not None:
                return ext
            return Lin.atom(("len", norm_len_base(x)))
        if k == "sized":
            return Lin.const(x[2])
        if k == "okval":
            ext = self.A.external_len(x)
            if ext is not None:
                return ext
        if k in ("arg", "local", "okval", "place", "ref", "field", "promoted"):
            n = self.A.static_len_of_type_of(x)
            if n is not None:
                return Lin.const(n)
            return Lin.atom(("len", norm_len_base(x)))
        return Lin.atom(("len", norm_len_base(x)))


class State:
    __slots__ = ("lin", "bools")

    def __init__(self, lin=frozenset(), bools=frozenset()):
        self.lin = lin
        self.bools = bools

    def key(self):
        return (self.lin, self.bools)


# =====================================================================================================
class FnAnalysis:
    """One body: fixpoint of State per block; then obligations are proved against the states."""

    def __init__(self, P, fn, entry_facts=(), entry_bools=(), assumed=None):
        self.assumed = assumed or {}  # block -> [constraints] assumed to hold after the terminator (assume-after-assert)
        self.P = P
        self.F = P.F
        self.E = P.E
        self.fn = fn
        self.pts = P.E.pts[fn.path]
        self.R = LResolver(fn, self.pts)
        self.L = Linearizer(self)
        self.entry = State(frozenset(LN.ccanon(c) for c in entry_facts), frozenset(entry_bools))
        self.IN = {}
        self.multi_int = []
        self.multi_slice = []
        self.slice_params = []
        self._classify_locals()
        self._solve()

    # ---------------------------------------------------------------- helpers on expressions
    def ex(self, op):
        return self.R.op(op)

    def expr_is_int(self, e):
        return True

    def recv_key(self, e):
        ps = expr_paths(e)
        if ps:
            return frozenset((r, fields_only(p)) for r, p in ps)
        if e[0] == "arg":
            return frozenset({(("ext", e[1]), ())})
        if e[0] == "local":
            return frozenset({(("loc", e[1]), ())})
        return None

    def getter_atom(self, e):
        d = e[1] or ""
        info = self.P.C.const_getters.get(d)
        if info is None or not e[3]:
            return None
        rk = self.recv_key(e[3][0])
        if rk is None:
            return None
        return ("getter", d, rk)

    def inline_getter(self, e):
        """local field getter call -> the place it reads, in caller terms"""
        r = e[2] or e[1]
        sm = self.E.sums.get(r)
        if not sm or () not in sm.ret_copy or (sm.w_ok or sm.w_err):
            return None
        (ai, chain) = sm.ret_copy[()]
        if ai >= len(e[3]):
            return None
        a = e[3][ai]
        ps = expr_paths(a)
        if not ps and a[0] == "arg":
            ps = {(("ext", a[1]), ())}
        if not ps:
            return None
        out = set()
        for (root, proj) in ps:
            out.add((root, tuple(proj) + tuple(("f", c) for c in chain)))
        return ("place", frozenset(out))

    def forwarded_getter(self, e):
        """local fn whose result is a constant getter of an object reachable from one of its arguments"""
        r = e[2] or e[1]
        g = self.F.fn(r) if r else None
        if g is None or len(g.blocks) > 6:
            return None
        key = ("fw", r)
        cache = self.P.__dict__.setdefault("_fwcache", {})
        if key not in cache:
            res = None
            try:
                R2 = LResolver(g, self.E.pts[g.path])
                ret = R2.local(0)
                if ret[0] == "call" and ret[1] in self.P.C.const_getters and ret[3]:
                    ps = expr_paths(ret[3][0])
                    if ps and all(root[0] == "ext" for root, _ in ps):
                        res = (ret[1], [(root[1] - 1, fields_only(proj)) for root, proj in ps])
            except Exception:
                res = None
            cache[key] = res
        res = cache[key]
        if res is None:
            return None
        method, rel = res
        rk = set()
        for (ai, chain) in rel:
            if ai >= len(e[3]):
                return None
            a = e[3][ai]
            ps = expr_paths(a)
            if not ps and a[0] == "arg":
                ps = {(("ext", a[1]), ())}
            if not ps:
                return None
            for (root, proj) in ps:
                rk.add((root, fields_only(proj) + tuple(chain)))
        return ("getter", method, frozenset(rk))

    def static_len_of_type_of(self, x):
        if x[0] == "sized":
            return x[2]
        if x[0] in ("arg", "local"):
            return self.R.static_len_ty(self.fn.local_ty(x[1]))
        if x[0] == "call" and x[3]:
            d = x[1] or ""
            if d.endswith("Deref::deref") or d.endswith("DerefMut::deref_mut") or d.endswith("::as_slice") or d.endswith("::as_mut_slice") or d.endswith("AsRef::as_ref") or d.endswith("::as_bytes"):
                a = x[3][0]
                if a[0] in ("sized", "aref", "unsize"):
                    return a[2]
                if a[0] in ("arg", "local"):
                    return self.R.static_len_ty(self.fn.local_ty(a[1]))
        return None

    def external_len(self, x):
        return self.P.C.external_len(self, x)

    def norm_bool(self, e):
        if e[0] == "call":
            inl = self.inline_getter(e)
            if inl is not None:
                return inl
        return e

    # ---------------------------------------------------------------- locals
    def _classify_locals(self):
        fn = self.fn
        F = self.F
        for l in range(len(fn.locals)):
            t = fn.local_ty(l)
            nd = len(fn.defs().get(l, []))
            is_arg = 1 <= l <= fn.argc
            multi = (nd > 1) or (is_arg and nd > 0)
            if is_arg and is_sliceish(t, F):
                self.slice_params.append(l)
            if not multi:
                continue
            if is_intish(t):
                self.multi_int.append(l)
            elif is_sliceish(t, F):
                self.multi_slice.append(l)

    def var_atom(self, l):
        return ("arg", l) if 1 <= l <= self.fn.argc else ("local", l)

    # ---------------------------------------------------------------- kill / substitution
    def _mentions_local(self, cc_or_fact, l):
        va = self.var_atom(l)

        def rec(e):
            if e == va:
                return True
            if isinstance(e, tuple):
                return any(rec(x) for x in e if isinstance(x, (tuple, frozenset)))
            if isinstance(e, frozenset):
                return any(rec(x) for x in e)
            return False
        return rec(cc_or_fact)

    def _kill_local(self, st, l):
        lin = frozenset(c for c in st.lin if not self._mentions_local(c, l))
        bools = frozenset(b for b in st.bools if not self._mentions_local(b, l))
        return State(lin, bools)

    def _kill_paths(self, st, ext):
        """drop facts mentioning memory overlapping any written path in ext: set((root, fieldchain))"""
        if not ext:
            return st

        def hit(x):
            for (root, proj) in expr_paths(x):
                ch = fields_only(proj)
                for (r2, ch2) in ext:
                    if r2 == root and overlaps(ch, ch2):
                        return True
            return False
        lin = frozenset(c for c in st.lin if not hit(c))
        bools = frozenset(b for b in st.bools if b[0] == "hist" or not hit(b))
        return State(lin, bools)

    @staticmethod
    def _trivial(kind, l):
        """sum of non-negative atoms with non-negative coefficients plus a non-negative constant >= 0"""
        return kind == "ge" and l.k >= 0 and all(v >= 0 for v in l.c.values())

    def _subst_atom(self, st, atom, repl):
        """replace atom by Lin repl in all linear constraints (bools mentioning atom are dropped)"""
        out = set()
        for cc in st.lin:
            kind, l = LN.from_canon(cc)
            if atom in l.c:
                l2 = l.subst(atom, repl)
                if self._trivial(kind, l2):
                    continue
                out.add(LN.ccanon((kind, l2)))
            elif self._atom_inside(cc, atom):
                continue
            else:
                out.add(cc)
        bools = frozenset(b for b in st.bools if not self._atom_inside(b, atom))
        return State(frozenset(out), bools)

    def _atom_inside(self, x, atom):
        def rec(e):
            if e == atom:
                return True
            if isinstance(e, tuple):
                return any(rec(y) for y in e if isinstance(y, (tuple, frozenset)))
            if isinstance(e, frozenset):
                return any(rec(y) for y in e)
            return False
        return rec(x)

    def _add(self, st, cons=(), bools=()):
        lin = set(st.lin)
        for c in cons:
            kind, l = c
            if l.is_const() or self._trivial(kind, l):
                continue
            lin.add(LN.ccanon(c))
        return State(frozenset(lin), st.bools | frozenset(bools))

    # ---------------------------------------------------------------- transfer
    def _stmt_transfer(self, st, bi, si, s):
        fn = self.fn
        if s["k"] == "setdiscr":
            ext = {(r, fields_only(p)) for r, p in self.pts.resolve_place(s["place"])}
            return self._kill_paths(st, ext)
        if s["k"] != "assign":
            return st
        dst = s["place"]
        rv = s["rv"]
        if dst["proj"]:
            ext = {(r, fields_only(p)) for r, p in self.pts.resolve_place(dst)}
            st = self._kill_paths(st, ext)
            if self._base_multi(dst["local"]):
                st = self._kill_local(st, dst["local"])
            return st
        l = dst["local"]
        if l in self.multi_int:
            e = self.R.rvalue(rv)
            le = self.L.lin(e) if e is not None else None
            va = self.var_atom(l)
            if le is not None and le.c.get(va) == 1:
                d = Lin(dict((a, v) for a, v in le.c.items() if a != va), le.k)
                if not any(self._atom_inside(a, va) for a in d.c):
                    # new = old + d  =>  old = new - d
                    return self._subst_atom(st, va, Lin.atom(va) - d)
            st = self._kill_local(st, l)
            if le is not None and not any(a == va or self._atom_inside(a, va) for a in le.c):
                st = self._add(st, [LN.eq(Lin.atom(va) - le)])
            return st
        if l in self.multi_slice:
            e = self.R.rvalue(rv)
            va = self.var_atom(l)
            la = ("len", va)
            if e is not None and is_index_call(e) and e[3][0] == va:
                r = range_of(e[3][1])
                if r is not None and r[0] == "from":
                    k = self.L.lin(r[1])
                    if k is not None and not any(self._atom_inside(a, va) for a in k.c):
                        # len_new = len_old - k  =>  len_old = len_new + k ; other facts on the variable die
                        st2 = self._subst_atom(st, la, Lin.atom(la) + k)
                        lin = frozenset(c for c in st2.lin if not self._mentions_local_nonlen(c, va, la))
                        return State(lin, frozenset(b for b in st2.bools if not self._mentions_local(b, l)))
            ln = self.L.len_of(e) if e is not None else None
            st = self._kill_local(st, l)
            if ln is not None and not any(a == la or self._atom_inside(a, va) for a in ln.c):
                st = self._add(st, [LN.eq(Lin.atom(la) - ln)])
            return st
        if self._base_multi(l):
            return self._kill_local(st, l)
        return st

    def _mentions_local_nonlen(self, cc, va, la):
        """constraint mentions va other than through the atom la = ('len', va)"""
        kind, items, k = cc
        for (a, v) in items:
            if a == la:
                continue
            if a == va or self._atom_inside(a, va):
                return True
        return False

    def _base_multi(self, l):
        fn = self.fn
        nd = len(fn.defs().get(l, []))
        return nd > 1 or (1 <= l <= fn.argc and nd > 0)

    def _term_transfer(self, st, bi, t):
        """state after the terminator's own effect, before edge facts: for calls, kills + ensures"""
        fn = self.fn
        if bi in self.assumed:
            st = self._add(st, self.assumed[bi])
        if t["k"] != "call":
            return st
        ok, err, is_res = self.E.call_writes(fn, self.pts, t)
        ext = set()
        for (ai, ch) in ok | err:
            ext.add((("ext", ai + 1), ch))
        for a in t["args"]:
            if a["k"] in ("copy", "move"):
                ty = self.E._op_ty(fn, a)
                if ty is not None and ty["k"] in ("refmut", "ptrmut"):
                    for root, proj in (self.pts._val_pts(a) or set()):
                        if root[0] == "loc":
                            ext.add((root, fields_only(proj)))
        st = self._kill_paths(st, ext)
        d0 = t["callee"].get("def")
        cr = ("callres", d0, bi)
        if any(self._atom_inside(c, cr) for c in st.lin) or any(self._atom_inside(b, cr) for b in st.bools):
            st = State(frozenset(c for c in st.lin if not self._atom_inside(c, cr)), frozenset(b for b in st.bools if not self._atom_inside(b, cr)))
        dst = t["dest"]
        if not dst["proj"] and self._base_multi(dst["local"]):
            st = self._kill_local(st, dst["local"])
            l = dst["local"]
            ce = self.R.call_expr(bi, t)
            if l in self.multi_int:
                le = self.L.lin(ce)
                va = self.var_atom(l)
                if le is not None and not any(a == va or self._atom_inside(a, va) for a in le.c):
                    st = self._add(st, [LN.eq(Lin.atom(va) - le)])
            elif l in self.multi_slice:
                ln = self.L.len_of(ce)
                va = self.var_atom(l)
                if ln is not None and not any(self._atom_inside(a, va) for a in ln.c):
                    st = self._add(st, [LN.eq(Lin.atom(("len", va)) - ln)])
        elif dst["proj"]:
            st = self._kill_paths(st, {(r, fields_only(p)) for r, p in self.pts.resolve_place(dst)})
        # ensures of non-Result callees hold right after the call
        if not is_res:
            cons, bools = self.P.instantiate_ensures(self, bi, t, ok_edge=False)
            st = self._add(st, cons, bools)
        return st

    def _edge_facts(self, bi, t):
        """{succ: (cons, bools)}"""
        out = {}
        if t["k"] != "switch":
            return out
        raw = self.R.op(t["discr"])
        e = raw
        vals = [v for v, _ in t["targets"]]
        tg = {}
        for v, tb in t["targets"]:
            tg.setdefault(tb, []).append(v)
        ob = t["otherwise"]
        hist_bb = None
        callx = None
        if raw[0] == "discr":
            x = raw[1]
            while x[0] == "call" and x[1] in TRY_BRANCH and x[3]:
                x = x[3][0]
            if x[0] == "call":
                hist_bb = x[4]
                callx = x
        for tb, vs in tg.items():
            if tb == ob or len(vs) != 1:
                continue
            out[tb] = self._facts_for(e, vs[0], False, vals, hist_bb, callx)
        if ob not in tg:
            out[ob] = self._facts_for(e, None, True, vals, hist_bb, callx)
        return out

    def _facts_for(self, e, v, otherwise, vals, hist_bb, callx):
        cons = []
        bools = []
        neg = False
        while e[0] == "un" and e[1] == "Not":
            e = e[2]
            neg = not neg
        if e[0] == "bin" and e[1] in CMP:
            if not otherwise:
                truth = v != 0
            elif vals == [0]:
                truth = True
            elif vals == [1]:
                truth = False
            else:
                return (cons, bools)
            truth = truth != neg
            a, b = self.L.lin(e[2]), self.L.lin(e[3])
            op = e[1]
            if a is not None and b is not None:
                if not truth:
                    op = {"Eq": "Ne", "Ne": "Eq", "Lt": "Ge", "Ge": "Lt", "Gt": "Le", "Le": "Gt"}[op]
                if op == "Eq":
                    cons.append(LN.eq(a - b))
                elif op == "Ne":
                    bools.append(("ne", LN.ccanon(LN.eq(a - b))))
                    # x != MAX for an unsigned x is x <= MAX - 1; x != 0 is x >= 1
                    for (x, y) in ((a, b), (b, a)):
                        if y.is_const() and not x.is_const():
                            if y.k in (2 ** 64 - 1, 2 ** 32 - 1, 2 ** 16 - 1, 255):
                                cons.append(LN.le(x, Lin.const(y.k - 1)))
                            elif y.k == 0:
                                cons.append(LN.le(Lin.const(1), x))
                elif op == "Lt":
                    cons.append(LN.lt(a, b))
                elif op == "Le":
                    cons.append(LN.le(a, b))
                elif op == "Gt":
                    cons.append(LN.lt(b, a))
                elif op == "Ge":
                    cons.append(LN.le(b, a))
            return (cons, bools)
        if e[0] == "discr":
            x = e[1]
            while x[0] == "call" and x[1] in TRY_BRANCH and x[3]:
                x = x[3][0]
            if x[0] == "call":
                val = v if not otherwise else (1 if vals == [0] else 0 if vals == [1] else None)
                x = strip_bb(x)
                if val == 0:
                    bools.append(("ok", x))
                    if hist_bb is not None:
                        bools.append(("hist", "ok", hist_bb))
                        c2, b2 = self.P.instantiate_ensures(self, hist_bb, self.fn.blocks[hist_bb]["term"], ok_edge=True)
                        cons += c2
                        bools += b2
                elif val == 1:
                    bools.append(("err", x))
                    if hist_bb is not None:
                        bools.append(("hist", "err", hist_bb))
                if val == 1 and x[1] and x[1].endswith("Iterator::next"):
                    pass
            else:
                x = strip_bb(x)
                if not otherwise:
                    bools.append(("variant", x, v))
                else:
                    bools.append(("notvariant", x, tuple(vals)))
            return (cons, bools)
        # integer switch (match on a number)
        if e[0] in ("local", "arg", "place", "okval", "call", "cast", "field") and not otherwise and self._looks_int_switch(vals, v):
            a = self.L.lin(e)
            if a is not None:
                cons.append(LN.eq(a - Lin.const(v)))
                return (cons, bools)
        # boolean
        if not otherwise:
            truth = v != 0
        elif vals == [0]:
            truth = True
        elif vals == [1]:
            truth = False
        else:
            a = self.L.lin(e)
            if a is not None:
                for vv in vals:
                    bools.append(("ne", LN.ccanon(LN.eq(a - Lin.const(vv)))))
            return (cons, bools)
        bools.append(("bool", strip_bb(self.norm_bool(e)), truth != neg))
        return (cons, bools)

    @staticmethod
    def _looks_int_switch(vals, v):
        return any(x > 1 for x in vals)

    # ---------------------------------------------------------------- fixpoint
    def state_before_term(self, bi, upto=None):
        st = self.IN.get(bi)
        if st is None:
            return None
        b = self.fn.blocks[bi]
        for si, s in enumerate(b["stmts"]):
            if upto is not None and si >= upto:
                break
            st = self._stmt_transfer(st, bi, si, s)
        return st

    def _solve(self):
        fn = self.fn
        reach = fn.reachable()
        order = sorted(reach)
        self.IN = {0: self.entry}
        OUT = {}
        self._edge_cache = {}
        for rounds in range(40):
            changed = False
            for b in order:
                if b != 0:
                    incoming = []
                    for p in fn.preds(b):
                        if p in OUT and b in OUT[p]:
                            incoming.append(OUT[p][b])
                    if not incoming:
                        continue
                    new = self._join(b, incoming)
                    old = self.IN.get(b)
                    if old is not None and old.key() == new.key() and b in OUT:
                        continue
                    self.IN[b] = new
                elif b in OUT:
                    continue
                st = self.state_before_term(b)
                t = fn.blocks[b]["term"]
                st = self._term_transfer(st, b, t)
                ef = self._edge_facts(b, t) if t["k"] == "switch" else {}
                outs = {}
                for s in fn.succs(b):
                    s2 = st
                    if s in ef:
                        s2 = self._add(st, ef[s][0], ef[s][1])
                    outs[s] = s2
                if OUT.get(b) is None or any(OUT[b].get(s) is None or OUT[b][s].key() != outs[s].key() for s in outs):
                    OUT[b] = outs
                    changed = True
            if not changed:
                break
        self.OUT = OUT
        self.rounds = rounds

    def _join(self, b, incoming):
        if len(incoming) == 1:
            return incoming[0]
        prev = self.IN.get(b)
        jk = (b, tuple(st.key() for st in incoming), prev.key() if prev is not None else None)
        jc = self.__dict__.setdefault("_join_cache", {})
        if jk in jc:
            return jc[jk]
        res = self._join2(b, incoming, prev)
        jc[jk] = res
        return res

    def _join2(self, b, incoming, prev=None):
        lin = set(incoming[0].lin)
        bools = set(incoming[0].bools)
        for st in incoming[1:]:
            lin &= st.lin
            bools &= st.bools
        # candidates: constraints of any incoming state + templates, kept iff entailed by every incoming state
        # widening: after the first visit of a merge point no new non-template constraint is introduced
        cands = set()
        if prev is None:
            for st in incoming:
                cands |= set(st.lin)
        else:
            cands |= set(prev.lin)
        cands -= lin
        for x in self.multi_int:
            for sp in self.slice_params:
                cands.add(LN.ccanon(LN.le(Lin.atom(self.var_atom(x)), Lin.atom(("len", ("arg", sp))))))
        for p in self.multi_slice:
            for sp in self.slice_params:
                if p != sp:
                    cands.add(LN.ccanon(LN.le(Lin.atom(("len", self.var_atom(p))), Lin.atom(("len", ("arg", sp))))))
        # diamonds: x == c1 under B, x == c2 under not B
        if len(incoming) == 2:
            A, Bst = incoming
            pairs = [f for f in A.bools if f[0] == "bool" and ("bool", f[1], not f[2]) in Bst.bools]
            if pairs:
                for x in self.multi_int:
                    va = self.var_atom(x)
                    sa = self._solutions(A, va)
                    sb = self._solutions(Bst, va)
                    done = False
                    for la in sa:
                        for lb in sb:
                            d = la - lb
                            if d.is_const() and d.k != 0:
                                for f in pairs:
                                    bsym = ("b01", self.P.norm_b(f[1]))
                                    if f[2]:
                                        l = Lin.atom(va) - lb - Lin.atom(bsym).scale(d.k)
                                    else:
                                        l = Lin.atom(va) - la + Lin.atom(bsym).scale(d.k)
                                    cands.add(LN.ccanon(LN.eq(l)))
                                done = True
                                break
                        if done:
                            break
        if len(cands) > 400:
            cands = set(list(cands)[:400])
        for cc in cands:
            goal = LN.from_canon(cc)
            if all(self._ent(st, cc, goal) for st in incoming):
                lin.add(cc)
        return State(frozenset(lin), frozenset(bools))

    def _ent(self, st, cc, goal):
        ec = self.__dict__.setdefault("_ent_cache", {})
        k = (st.key(), cc)
        if k not in ec:
            ec[k] = self.P.entails_state(self, st, goal)
        return ec[k]

    def _solutions(self, st, va):
        """Lin expressions equal to va in state st (direct equalities, and one level of substitution)"""
        eqs = [LN.from_canon(c)[1] for c in st.lin if c[0] == "eq"]
        sols = []
        for l in eqs:
            c = l.c.get(va)
            if c:
                rest = Lin({a: v for a, v in l.c.items() if a != va}, l.k)
                sols.append(rest.scale(Fraction(-1) / c))
        out = list(sols)
        for sol in sols:
            for l in eqs:
                if va in l.c:
                    continue
                for a in list(sol.c):
                    c = l.c.get(a)
                    if c:
                        rest = Lin({b: v for b, v in l.c.items() if b != a}, l.k)
                        out.append(sol.subst(a, rest.scale(Fraction(-1) / c)))
        return out[:12]

    @staticmethod
    def _const_eq(st, va):
        for (kind, items, k) in st.lin:
            if kind == "eq" and len(items) == 1 and items[0][0] == va:
                return -k / items[0][1]
        return None
