"""Resolver extension for the length prover: array lengths, Ok/Some payloads, staleness tracking."""
from .expr import Resolver, strip_bb, fold, LEN_FNS
from .guards import TRY_BRANCH


class LResolver(Resolver):
    def __init__(self, fn, pts=None):
        super().__init__(fn, pts)
        self._reads = {}  # temp local -> frozenset((L, def bb, def idx)) multi-def locals read (transitively)
        self._multi = None

    def multi_def(self, l):
        fn = self.fn
        if 1 <= l <= fn.argc:
            return len(fn.defs().get(l, [])) > 0
        return fn.single_def(l) is None

    # -- types
    def op_ty(self, o):
        F = self.fn.facts
        if o["k"] == "const":
            return F.types[o["ty"]]
        pl = o["place"]
        if not pl["proj"]:
            return self.fn.local_ty(pl["local"])
        for e in reversed(pl["proj"]):
            if e["k"] == "field":
                return F.types[e["ty"]]
            break
        return None

    def array_len_of_ref_ty(self, t):
        F = self.fn.facts
        if t is None:
            return None
        if t["k"] in ("ref", "refmut", "ptr", "ptrmut"):
            inner = F.types[t["inner"]]
            if inner["k"] == "array":
                return inner.get("len")
        if t["k"] == "array":
            return t.get("len")
        return None

    def rvalue(self, rv, depth=0):
        k = rv["k"]
        if k == "cast" and rv["cast"].startswith("PointerCoercion(Unsize"):
            n = self.array_len_of_ref_ty(self.op_ty(rv["op"]))
            inner = self.op(rv["op"], depth + 1)
            if n is not None:
                return ("unsize", inner, n)
            return inner
        if k == "unop" and rv["op"] == "PtrMetadata":
            n = self.array_len_of_ref_ty(self.op_ty(rv["a"]))
            if n is not None:
                return ("const", n)
            inner = self.op(rv["a"], depth + 1)
            if inner[0] == "unsize":
                return ("const", inner[2])
            return ("len", inner)
        if k in ("ref", "rawptr"):
            pl = rv["place"]
            if len(pl["proj"]) == 1 and pl["proj"][0]["k"] == "deref":
                inner = self.local(pl["local"], depth + 1)
                if inner[0] in ("ref", "call", "arg", "promoted", "len", "field", "unsize", "okval", "local", "aref", "static", "sized"):
                    return inner
            # reference to an array-typed place: remember the length
            t = self.place_ty(pl)
            n = self.static_len_ty(t) if t is not None and t["k"] in ("array", "adt") else None
            if n is not None:
                return ("aref", frozenset(self.pts.resolve_place(pl)), n)
            return ("ref", frozenset(self.pts.resolve_place(pl)))
        return super().rvalue(rv, depth)

    def place_ty(self, pl):
        F = self.fn.facts
        t = self.fn.local_ty(pl["local"])
        for e in pl["proj"]:
            k = e["k"]
            if k == "deref":
                if t["k"] in ("ref", "refmut", "ptr", "ptrmut"):
                    t = F.types[t["inner"]]
                elif t["k"] == "adt" and t["adt"].endswith("boxed::Box") and t.get("args"):
                    t = F.types[t["args"][0]]
                else:
                    return None
            elif k == "field":
                t = F.types[e["ty"]]
            elif k in ("index", "constindex"):
                if t["k"] in ("array", "slice"):
                    t = F.types[t["inner"]]
                else:
                    return None
            elif k == "downcast":
                pass
            else:
                return None
        return t

    def static_len_ty(self, t):
        """static element count of an array-like type: [T;N], &[T;N], GenericArray<_, typenum>"""
        F = self.fn.facts
        if t is None:
            return None
        if t["k"] in ("ref", "refmut", "ptr", "ptrmut"):
            return self.static_len_ty(F.types[t["inner"]])
        if t["k"] == "array":
            return t.get("len")
        if t["k"] == "adt" and t.get("adt", "").endswith("generic_array::GenericArray"):
            import re
            bits = re.findall(r"\bB([01])\b", t["s"])
            if bits:
                return int("".join(bits), 2)
        return None

    def call_expr(self, bi, t, depth=0):
        c = t["callee"]
        d = c.get("def")
        args = tuple(self.op(a, depth + 1) for a in t["args"])
        dty = self.fn.local_ty(t["dest"]["local"]) if not t["dest"]["proj"] else None
        if d and (d.endswith("convert::From::from") or d.endswith("convert::Into::into")) and len(args) == 1:
            aty = self.op_ty(t["args"][0])
            if dty is not None and aty is not None and dty["k"] in ("uint", "int") and aty["k"] in ("uint", "int", "bool"):
                return ("cast", args[0])
        n = self.static_len_ty(dty)
        if n is not None and d not in LEN_FNS:
            return ("sized", ("call", d, c.get("resolved"), args, bi), n)
        if d in LEN_FNS and args:
            a0 = args[0]
            if a0[0] == "unsize":
                return ("const", a0[2])
            if a0[0] == "aref":
                return ("const", a0[2])
            n = self.array_len_of_ref_ty(self.op_ty(t["args"][0]))
            if n is not None:
                return ("const", n)
            return ("len", a0)
        return ("call", d, c.get("resolved"), args, bi)

    def place(self, pl, depth=0):
        proj = pl["proj"]
        l = pl["local"]
        # (X as Continue|Ok|Some).0[.f…] of a call result
        if len(proj) >= 2 and proj[0]["k"] == "downcast" and proj[1]["k"] == "field" and proj[1]["i"] == 0 and all(e["k"] == "field" for e in proj[2:]):
            base = self.local(l, depth + 1)
            x = base
            while x[0] == "call" and x[1] in TRY_BRANCH and x[3]:
                x = x[3][0]
            name = proj[0].get("name")
            res = None
            if x[0] == "call" and name in ("Continue", "Ok", "Some"):
                res = ("okval", x)
            elif x[0] == "call" and name in ("Break", "Err"):
                res = ("errval", x)
            if res is not None:
                for e in proj[2:]:
                    res = ("field", res, e.get("name") if e.get("name") is not None else str(e["i"]))
                last = proj[-1]
                n = self.static_len_ty(self.fn.facts.types[last["ty"]]) if "ty" in last else None
                if n is not None:
                    return ("sized", res, n)
                return res
        return super().place(pl, depth)

    # -- staleness: which multi-def locals does an operand's expansion read, and where
    def reads_of_op(self, o):
        if o["k"] == "const":
            return frozenset()
        pl = o["place"]
        return self.reads_of_local_use(pl["local"], bool(pl["proj"]))

    def reads_of_local_use(self, l, projected=False):
        fn = self.fn
        if self.multi_def(l) or (1 <= l <= fn.argc):
            return frozenset()  # direct read of the current value: never stale
        return self._temp_reads(l, 0)

    def _temp_reads(self, t, depth):
        if t in self._reads:
            return self._reads[t]
        if depth > 40:
            return frozenset()
        self._reads[t] = frozenset()
        fn = self.fn
        sd = fn.single_def(t)
        out = set()
        if sd is not None:
            bi, si, s = sd
            idx = len(fn.blocks[bi]["stmts"]) if si == "term" else si
            ops = []
            if si == "term":
                ops = list(s["args"])
            elif s.get("k") == "assign":
                rv = s["rv"]
                for key in ("op", "a", "b"):
                    if isinstance(rv.get(key), dict) and "k" in rv[key] and rv[key]["k"] in ("copy", "move", "const"):
                        ops.append(rv[key])
                for o in rv.get("ops", []) or []:
                    ops.append(o)
                if "place" in rv:
                    ops.append({"k": "copy", "place": rv["place"]})
            for o in ops:
                if o["k"] == "const":
                    continue
                pl = o["place"]
                locs = [pl["local"]] + [e["local"] for e in pl["proj"] if e["k"] == "index"]
                for l2 in locs:
                    if 1 <= l2 <= fn.argc and not fn.defs().get(l2):
                        continue
                    if self.multi_def(l2):
                        out.add((l2, bi, idx))
                    else:
                        out |= self._temp_reads(l2, depth + 1)
        self._reads[t] = frozenset(out)
        return self._reads[t]

    def assign_sites(self, L):
        out = []
        for (bi, si, s) in self.fn.defs().get(L, []):
            out.append((bi, len(self.fn.blocks[bi]["stmts"]) if si == "term" else si))
        return out

    def is_stale(self, reads, ub, ui):
        """could a multi-def local read at (db,di) have been reassigned before the use at (ub,ui)?"""
        fn = self.fn
        for (L, db, di) in reads:
            for (ab, ai) in self.assign_sites(L):
                # assignment strictly after the read ...
                after_read = (ab == db and ai > di) or (ab != db and ab in fn.reachable(db) and self._reach_after(db, ab))
                if not after_read and not (ab == db and ai > di):
                    # may still be after the read via a loop back to ab: handled by reach test below
                    if ab == db:
                        continue
                # ... and before the use, without passing through the read again
                if ab == ub and ai < ui and (ab != db or ai > di):
                    return True
                if ab != ub and ub in fn.reachable(ab, avoid={db} if db != ab else set()) and (ab != db or ai > di):
                    if ab == db or ab in fn.reachable(db):
                        return True
        return False

    def _reach_after(self, a, b):
        return b in self.fn.reachable(a)
