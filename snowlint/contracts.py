"""Contracts for the length prover: trait contracts (verified on every local impl), function contracts
(verified on the body, assumed at call sites), facts about external (dependency / std) functions, and the
short list of non-arithmetic justifications. Every entry carries its reason."""
from . import lin as LN
from .lin import Lin


class Ctx:
    """Builds Lin terms for a contract, either in the callee body (params = its arguments) or at a call site
    (params = actual argument expressions of the caller)."""

    def __init__(self, consts):
        self.K = consts

    # to be provided by subclasses
    def len(self, i):
        raise NotImplementedError

    def num(self, i):
        raise NotImplementedError

    def getter(self, method, i, chain=()):
        raise NotImplementedError

    def b01(self, i, chain):
        raise NotImplementedError

    def ret(self):
        raise NotImplementedError

    def c(self, name_or_int):
        if isinstance(name_or_int, int):
            return Lin.const(name_or_int)
        return Lin.const(self.K[name_or_int])


def ge(a, b):
    return LN.le(b, a)


def le(a, b):
    return LN.le(a, b)


def eq(a, b):
    return LN.eq(a - b)


class Contracts:
    def __init__(self, F):
        self.F = F
        c = F.crate
        self.crate = c
        K = {}
        for name in ("TAGLEN", "MAXMSGLEN", "MAXHASHLEN", "MAXBLOCKLEN", "MAXDHLEN", "CIPHERKEYLEN", "PSKLEN"):
            K[name] = F.const_val("constants::" + name)
        for name in ("MAXKEMPUBLEN", "MAXKEMCTLEN", "MAXKEMSSLEN"):
            try:
                K[name] = F.const_val("constants::" + name)
            except Exception:
                pass
        self.K = K
        T = c + "::types::"
        # constant getters of the primitive traits: method -> (upper bound, lower bound)
        self.const_getters = {
            T + "Dh::pub_len": (K["MAXDHLEN"], 0),
            T + "Dh::priv_len": (K["MAXDHLEN"], 0),
            T + "Dh::dh_len": (K["MAXDHLEN"], 0),
            T + "Hash::hash_len": (K["MAXHASHLEN"], 0),
            T + "Hash::block_len": (K["MAXBLOCKLEN"], K["MAXHASHLEN"]),
        }
        if "MAXKEMPUBLEN" in K:
            self.const_getters[T + "Kem::pub_len"] = (K["MAXKEMPUBLEN"], 0)
            self.const_getters[T + "Kem::ciphertext_len"] = (K["MAXKEMCTLEN"], 0)
            self.const_getters[T + "Kem::shared_secret_len"] = (K["MAXKEMSSLEN"], 0)
        # relations between getters of the same object: (m1, m2): m1 <= m2
        self.getter_rel = [(T + "Hash::hash_len", T + "Hash::block_len")]
        # slice-returning trait methods whose length is a getter of the same receiver
        self.len_getters = {T + "Dh::pubkey": T + "Dh::pub_len", T + "Dh::privkey": T + "Dh::priv_len", T + "Kem::pubkey": T + "Kem::pub_len"}
        self.fn_contracts = self._fn_contracts()
        self.field_invariants = {
            # (adt suffix, field) -> upper bound constant : verified at every writer, assumed at reads
            ("TransportState", "pub_len"): K["MAXDHLEN"],
            ("StatelessTransportState", "pub_len"): K["MAXDHLEN"],
        }

    # ------------------------------------------------------------------ function contracts
    def _fn_contracts(self):
        c = self.crate
        T = c + "::types::"
        HL = T + "Hash::hash_len"
        BL = T + "Hash::block_len"
        C = {}

        def add(path, requires=None, ensures=None, ensures_ok=None, why=""):
            C[path] = {"requires": requires or (lambda X: []), "ensures": ensures or (lambda X: []), "ensures_ok": ensures_ok or (lambda X: []), "why": why}

        # --- Cipher
        add(T + "Cipher::encrypt",
            requires=lambda X: [ge(X.len(4), X.len(3) + X.c("TAGLEN")), le(X.len(3), X.c("MAXMSGLEN"))],
            ensures=lambda X: [eq(X.ret(), X.len(3) + X.c("TAGLEN"))],
            why="spec §4.2 ENCRYPT: ciphertext is plaintext plus a 16-byte tag; Noise messages are at most 65535 bytes")
        add(T + "Cipher::decrypt",
            requires=lambda X: [ge(X.len(3), X.c("TAGLEN")), ge(X.len(4) + X.c("TAGLEN"), X.len(3))],
            ensures_ok=lambda X: [eq(X.ret(), X.len(3) - X.c("TAGLEN"))],
            why="DECRYPT: callers check ciphertext >= tag and the output buffer first")
        # --- Hash
        add(T + "Hash::result", requires=lambda X: [ge(X.len(1), X.getter(HL, 0))], why="digest output is HASHLEN bytes")
        add(T + "Hash::hmac", requires=lambda X: [le(X.len(1), X.getter(BL, 0)), ge(X.len(3), X.getter(HL, 0))], why="HMAC key fits one block; output HASHLEN")
        add(T + "Hash::hkdf",
            requires=lambda X: [le(X.len(1), X.getter(BL, 0)), ge(X.len(4), X.getter(HL, 0)),
                                ("clause", [eq(X.num(3), X.c(1)), ge(X.len(5), X.getter(HL, 0))]),
                                ("clause", [eq(X.num(3), X.c(1)), eq(X.num(3), X.c(2)), ge(X.len(6), X.getter(HL, 0))])],
            why="HKDF writes HASHLEN bytes into each requested output")
        # --- Dh
        add(T + "Dh::set", requires=lambda X: [le(X.len(1), X.getter(T + "Dh::priv_len", 0))], why="private key is copied into a fixed buffer of priv_len bytes")
        add(T + "Dh::dh", requires=lambda X: [ge(X.len(1), X.getter(T + "Dh::pub_len", 0)), ge(X.len(2), X.getter(T + "Dh::dh_len", 0))], why="peer key at least pub_len bytes; output buffer at least dh_len bytes")
        # --- CipherState
        cs = c + "::cipherstate::CipherState::"
        add(cs + "encrypt_ad", requires=lambda X: [ge(X.len(3), X.len(2) + X.c("TAGLEN")), le(X.len(2), X.c("MAXMSGLEN"))],
            ensures_ok=lambda X: [eq(X.ret(), X.len(2) + X.c("TAGLEN"))])
        add(cs + "decrypt_ad", ensures_ok=lambda X: [eq(X.ret(), X.len(2) - X.c("TAGLEN")), ge(X.len(2), X.c("TAGLEN")), ge(X.len(3) + X.c("TAGLEN"), X.len(2))])
        add(cs + "encrypt", requires=lambda X: [ge(X.len(2), X.len(1) + X.c("TAGLEN")), le(X.len(1), X.c("MAXMSGLEN"))],
            ensures_ok=lambda X: [eq(X.ret(), X.len(1) + X.c("TAGLEN"))])
        add(cs + "decrypt", ensures_ok=lambda X: [eq(X.ret(), X.len(1) - X.c("TAGLEN")), ge(X.len(1), X.c("TAGLEN")), ge(X.len(2) + X.c("TAGLEN"), X.len(1))])
        ss = c + "::cipherstate::StatelessCipherState::"
        add(ss + "encrypt_ad", requires=lambda X: [ge(X.len(4), X.len(3) + X.c("TAGLEN")), le(X.len(3), X.c("MAXMSGLEN"))],
            ensures_ok=lambda X: [eq(X.ret(), X.len(3) + X.c("TAGLEN"))])
        add(ss + "decrypt_ad", ensures_ok=lambda X: [eq(X.ret(), X.len(3) - X.c("TAGLEN")), ge(X.len(3), X.c("TAGLEN")), ge(X.len(4) + X.c("TAGLEN"), X.len(3))])
        add(ss + "encrypt", requires=lambda X: [ge(X.len(3), X.len(2) + X.c("TAGLEN")), le(X.len(2), X.c("MAXMSGLEN"))],
            ensures_ok=lambda X: [eq(X.ret(), X.len(2) + X.c("TAGLEN"))])
        add(ss + "decrypt", ensures_ok=lambda X: [eq(X.ret(), X.len(2) - X.c("TAGLEN")), ge(X.len(2), X.c("TAGLEN")), ge(X.len(3) + X.c("TAGLEN"), X.len(2))])
        add(c + "::cipherstate::validate_nonce", ensures_ok=lambda X: [le(X.num(0), X.c((1 << 64) - 2))])
        # --- SymmetricState
        sy = c + "::symmetricstate::SymmetricState::"
        HK = ("inner", "has_key")
        add(sy + "encrypt_and_mix_hash",
            requires=lambda X: [ge(X.len(2), X.len(1) + X.b01(0, HK).scale(X.K["TAGLEN"])), le(X.len(1), X.c("MAXMSGLEN"))],
            ensures_ok=lambda X: [eq(X.ret(), X.len(1) + X.b01(0, HK).scale(X.K["TAGLEN"]))],
            why="EncryptAndHash: ciphertext = plaintext (+ tag when a key is set)")
        add(sy + "decrypt_and_mix_hash",
            ensures_ok=lambda X: [eq(X.ret(), X.len(1) - X.b01(0, HK).scale(X.K["TAGLEN"])), ge(X.len(1), X.b01(0, HK).scale(X.K["TAGLEN"])), le(X.ret(), X.len(2))],
            why="DecryptAndHash: plaintext = ciphertext minus the tag when a key is set; it fits the output buffer")
        add(sy + "split_raw", requires=lambda X: [ge(X.len(1), X.getter(HL, 0, ("hasher",))), ge(X.len(2), X.getter(HL, 0, ("hasher",)))],
            why="Split writes HASHLEN bytes into both outputs")
        # --- handshake / transport (C14 framing postconditions)
        hs = c + "::handshakestate::HandshakeState::"
        PP = ("pattern_position",)
        MP = ("message_patterns",)
        add(hs + "_write_message", ensures_ok=lambda X: [le(X.ret(), X.len(2)), le(X.ret(), X.c("MAXMSGLEN")), le(X.place(0, PP) + X.c(1), X.len_place(0, MP))],
            why="a written handshake message fits the buffer and the 65535-byte limit; it was not past the last pattern")
        add(hs + "write_message", ensures_ok=lambda X: [le(X.ret(), X.len(2)), le(X.ret(), X.c("MAXMSGLEN"))])
        add(hs + "_read_message", ensures_ok=lambda X: [le(X.ret(), X.len(1)), le(X.len(1), X.c("MAXMSGLEN")), le(X.ret(), X.len(2)), le(X.place(0, PP) + X.c(1), X.len_place(0, MP))],
            why="payload is the message minus fixed fields; oversize messages rejected")
        add(hs + "read_message", ensures_ok=lambda X: [le(X.ret(), X.len(1)), le(X.len(1), X.c("MAXMSGLEN")), le(X.ret(), X.len(2))])
        ts = c + "::transportstate::TransportState::"
        add(ts + "write_message", ensures_ok=lambda X: [eq(X.ret(), X.len(1) + X.c("TAGLEN")), le(X.ret(), X.c("MAXMSGLEN")), le(X.ret(), X.len(2))])
        add(ts + "read_message", ensures_ok=lambda X: [eq(X.ret(), X.len(1) - X.c("TAGLEN")), le(X.len(1), X.c("MAXMSGLEN")), le(X.ret(), X.len(2))])
        st = c + "::stateless_transportstate::StatelessTransportState::"
        add(st + "write_message", ensures_ok=lambda X: [eq(X.ret(), X.len(2) + X.c("TAGLEN")), le(X.ret(), X.c("MAXMSGLEN")), le(X.ret(), X.len(3))])
        add(st + "read_message", ensures_ok=lambda X: [eq(X.ret(), X.len(2) - X.c("TAGLEN")), le(X.len(2), X.c("MAXMSGLEN")), le(X.ret(), X.len(3))])
        return C

    def contract_for(self, t_or_path):
        """contract of a call terminator (by declared callee, falling back to the resolved body) or of a body path"""
        if isinstance(t_or_path, str):
            p = t_or_path
            if p in self.fn_contracts:
                return self.fn_contracts[p]
            b = self.F.bodies.get(p)
            if b and b.get("trait_item") in self.fn_contracts:
                return self.fn_contracts[b["trait_item"]]
            return None
        c = t_or_path["callee"]
        for k in (c.get("def"), c.get("resolved")):
            if k and k in self.fn_contracts:
                return self.fn_contracts[k]
        r = c.get("resolved")
        if r:
            b = self.F.bodies.get(r)
            if b and b.get("trait_item") in self.fn_contracts:
                return self.fn_contracts[b["trait_item"]]
        return None

    # ------------------------------------------------------------------ external functions
    EXTERNAL_FACTS = {
        "ring-tag-len": "ring 0.17: aead::Tag::as_ref() is 16 bytes for AES_256_GCM and CHACHA20_POLY1305",
        "ring-open-len": "ring 0.17: LessSafeKey::open_in_place returns Ok(&mut in_out[..in_out.len() - 16]) (ciphertext-and-tag in, plaintext out)",
        "ring-digest-len": "ring 0.17: digest::Context::finish().as_ref() has the algorithm's output length (SHA256: 32, SHA512: 64)",
    }

    def external_len(self, A, x):
        """length of a slice-valued external call, as Lin, or None"""
        d = x[1] or ""
        used = A.P.__dict__.setdefault("external_used", set())
        if x[0] == "okval":
            y = x[1]
            while y[0] == "call" and (y[1] or "").endswith("Result::<T, E>::map_err") and y[3]:
                y = y[3][0]
            if y[0] == "call" and (y[1] or "").endswith("LessSafeKey::open_in_place") and len(y[3]) == 4:
                l = A.L.len_of(y[3][3])
                if l is not None:
                    used.add("ring-open-len")
                    return l - Lin.const(self.K["TAGLEN"])
            return None
        if d.endswith("AsRef::as_ref") and x[3]:
            a = x[3][0]
            ty = None
            if a[0] in ("ref", "aref"):
                locs = [r[1] for r, p in a[1] if r[0] == "loc" and not p]
                if len(locs) == 1:
                    ty = A.fn.local_ty_s(locs[0])
            if ty and ty.endswith("ring::aead::Tag"):
                used.add("ring-tag-len")
                return Lin.const(16)
            if ty and ty.endswith("ring::digest::Digest"):
                n = self.ring_digest_len(A)
                if n is not None:
                    used.add("ring-digest-len")
                    return Lin.const(n)
        if (d.endswith("Deref::deref") or d.endswith("DerefMut::deref_mut")) and x[3] and x[3][0][0] in ("ref", "aref"):
            locs = [r[1] for r, p in x[3][0][1] if r[0] == "loc" and not p]
            if len(locs) == 1:
                e = A.R.init_expr(locs[0])
                if e[0] == "call" and (e[1] or "").endswith("slice::<impl [T]>::to_vec") and e[3]:
                    return A.L.len_of(e[3][0])
        if d.endswith("slice::<impl [T]>::to_vec") and x[3]:
            return A.L.len_of(x[3][0])
        # deref of a Vec local created by vec![elem; n]
        if (d.endswith("Deref::deref") or d.endswith("DerefMut::deref_mut")) and x[3] and x[3][0][0] in ("ref", "aref"):
            locs = [r[1] for r, p in x[3][0][1] if r[0] == "loc" and not p]
            if len(locs) == 1:
                e = A.R.init_expr(locs[0])
                if e[0] == "call" and (e[1] or "").endswith("vec::from_elem") and len(e[3]) == 2:
                    return A.L.lin(e[3][1])
        if d.endswith("Vec::<T, A>::as_mut_slice") or d.endswith("Vec::<T, A>::as_slice"):
            return None
        return None


def _resolve_static(g, op):
    from .expr import Resolver
    return Resolver(g).op(op)


def _ring_digest_len(self, A):
    """every digest::Context::new in the impl this body belongs to names the same algorithm constant"""
    im = A.fn.body.get("impl")
    if not im:
        return None
    algs = set()
    for p, b in self.F.bodies.items():
        if b.get("impl") == im and "mir" in b:
            g = self.F.fn(p)
            for bb, t in g.calls():
                if (t["callee"].get("def") or "").endswith("digest::Context::new"):
                    algs.add(repr(A.P.analysis(g).R.op(t["args"][0])) if False else repr(_resolve_static(g, t["args"][0])))
    # Default impls live in a sibling impl block for the same type
    st = A.fn.body.get("self_ty")
    for p, b in self.F.bodies.items():
        if b.get("self_ty") == st and "mir" in b and b.get("impl") != im:
            g = self.F.fn(p)
            for bb, t in g.calls():
                if (t["callee"].get("def") or "").endswith("digest::Context::new"):
                    algs.add(repr(_resolve_static(g, t["args"][0])))
    names = set()
    for a in algs:
        for nm, n in (("SHA256", 32), ("SHA512", 64), ("SHA384", 48)):
            if "digest::" + nm in a:
                names.add(n)
    if len(names) == 1 and all(any(("digest::" + nm) in a for nm in ("SHA256", "SHA512", "SHA384")) for a in algs):
        return next(iter(names))
    return None


Contracts.ring_digest_len = _ring_digest_len


# Non-arithmetic justifications: (function path suffix, kind, callee suffix or '') -> reason.
# Each hit is counted separately in the evidence. A site not listed here must be proved.
JUSTIFIED = [
    ("Cipher>::encrypt", "unwrap", "", "AEAD encryption (RustCrypto / ring) fails only for inputs longer than the cipher's maximum (>= 2^36 bytes); the verified precondition bounds the plaintext by 65535"),
    ("ring::CipherAESGCM as types::Cipher>::set", "unwrap", "", "UnboundKey::new fails only on a key-length mismatch; the key is a [u8; 32] for a 256-bit algorithm"),
    ("ring::CipherChaChaPoly as types::Cipher>::set", "unwrap", "", "UnboundKey::new fails only on a key-length mismatch; the key is a [u8; 32] for a 256-bit algorithm"),
    ("ring::CipherAESGCM as std::default::Default>::default", "unwrap", "", "constant 32-byte key for a 256-bit algorithm"),
    ("ring::CipherChaChaPoly as std::default::Default>::default", "unwrap", "", "constant 32-byte key for a 256-bit algorithm"),
    ("ring::RingRng as rand_core::RngCore>::fill_bytes", "unwrap", "", "operating-system randomness failure is outside the property's input space"),
]
