"""Dataflow template matching: the specification-level events of a body (calls into chosen interfaces, writes to
argument memory, initialisation / element updates of local arrays) must be exactly the events of a template,
with consistent bindings of the template's variables to local storage. `only-from' semantics come from exactness:
a stray extra event or a different operand is a mismatch."""
from .contracts import Contracts
from .flow import fields_only
from .trace import Describer, body_events
from .rules.tokens import norm_callee, guard_names, validation_facts, brief

ANY = "*"


def V(name):
    return ("$", name)


def unify(pat, val, env, _top=True):
    """returns new env or None"""
    if _top:
        from .trace import canon_slices
        pat, val = canon_slices(pat), canon_slices(val)
    return _unify(pat, val, env)


def _unify(pat, val, env):
    if pat == ANY:
        return env
    if isinstance(pat, tuple) and len(pat) == 2 and pat[0] == "$":
        if pat[1] in env:
            return env if env[pat[1]] == val else None
        # variables bind only to local storage descriptors or values thereof
        e2 = dict(env)
        e2[pat[1]] = val
        return e2
    if isinstance(pat, tuple) and pat and pat[0] == "anyof":
        for p in pat[1]:
            r = _unify(p, val, env)
            if r is not None:
                return r
        return None
    if isinstance(pat, tuple):
        if not isinstance(val, tuple) or len(pat) != len(val):
            return None
        if pat and pat[0] == "+" and val[0] == "+" and len(pat) == 3:
            for perm in ((val[1], val[2]), (val[2], val[1])):
                e = _unify(pat[1], perm[0], env)
                if e is not None:
                    e = _unify(pat[2], perm[1], e)
                    if e is not None:
                        return e
            return None
        e = env
        for p, v in zip(pat, val):
            e = _unify(p, v, e)
            if e is None:
                return None
        return e
    return env if pat == val else None


def norm_guards(g):
    """rename comparison guards on parameters: p4==1 etc."""
    out = {}
    for k, v in g.items():
        if k.startswith("cmp:"):
            import re
            m = re.match(r"cmp:(\w+):\(\('arg', (\d+)\), \('const', (\d+)\)\)", k)
            if m:
                out["p%s%s%s" % (m.group(2), {"Eq": "==", "Ne": "!=", "Lt": "<", "Le": "<=", "Gt": ">", "Ge": ">="}[m.group(1)], m.group(3))] = v
                continue
            m = re.match(r"cmp:(\w+):\(\('len', \('arg', (\d+)\)\), (.*)\)$", k)
            if m and "hash_len" in m.group(3):
                out["len(p%s)%shash_len" % (m.group(2), {"Le": "<=", "Lt": "<", "Gt": ">", "Ge": ">=", "Eq": "==", "Ne": "!="}[m.group(1)])] = v
                continue
        out[k] = v
    return out


def actual_events(ctx, cfg, fn, semantic_calls, keep_getters=()):
    F = ctx.facts[cfg]
    E = ctx.eff(cfg)
    G = ctx.guards(cfg, fn)
    C = Contracts(F)
    D = Describer(fn, E.pts[fn.path], C.const_getters)
    Vf = validation_facts(fn, G)
    out = []
    for ev in body_events(fn, G, D, E.pts[fn.path]):
        # a call is the block's terminator; a store is a statement: its own write must not kill the facts it is guarded by
        fs = G.before_term(ev[3]) if ev[0] == "call" else G.at_entry(ev[3])
        g = norm_guards(guard_names((f for f in fs if f[0] in ("bool", "cmp")), Vf))
        if ev[0] == "call":
            nc = norm_callee(ev[1])
            if nc not in semantic_calls:
                continue
            out.append(("call", nc, tuple(ev[2]), g, ev[3], ev[4]))
        else:
            out.append((ev[0], ev[1], ev[2], g, ev[3], ev[4]))
    return out


def match_events(expected, actual, ordered=lambda e: False):
    """bijection between expected patterns and actual events; ordered-class events keep their relative order.
    returns (ok, problems)"""
    n = len(expected)
    used = [False] * len(actual)
    assign = [None] * n

    def rec(i, env, last_ord):
        if i == n:
            return env
        (ek, en, ep, eg) = expected[i]
        is_ord = ordered(expected[i])
        for j, a in enumerate(actual):
            if used[j]:
                continue
            if a[0] != ek:
                continue
            if is_ord and j < last_ord:
                continue
            e1 = unify(en, a[1], env)
            if e1 is None:
                continue
            e2 = unify(ep, a[2], e1)
            if e2 is None:
                continue
            if eg != ANY and eg != a[3]:
                continue
            used[j] = True
            assign[i] = j
            r = rec(i + 1, e2, j if is_ord else last_ord)
            if r is not None:
                return r
            used[j] = False
            assign[i] = None
        return None

    env = rec(0, {}, -1)
    problems = []
    if env is not None and all(u or actual[j][0] == "init" for j, u in enumerate(used)):
        return True, [], env
    if env is not None:
        extra = [a for j, a in enumerate(actual) if not used[j] and a[0] != "init"]
        for a in extra:
            problems.append("unexpected %s %s %s%s" % (a[0], a[1], brief(a[2]), (" when %s" % a[3]) if a[3] else ""))
        return False, problems, env
    # diagnose: greedy in-order matching to find the first expected event without a counterpart
    env = {}
    used = [False] * len(actual)
    for i, (ek, en, ep, eg) in enumerate(expected):
        hit = None
        for j, a in enumerate(actual):
            if used[j] or a[0] != ek:
                continue
            e1 = unify(en, a[1], env)
            e2 = unify(ep, a[2], e1) if e1 is not None else None
            if e2 is not None and (eg == ANY or eg == a[3]):
                hit = (j, e2)
                break
        if hit is None:
            near = [a for j, a in enumerate(actual) if not used[j] and a[0] == ek and unify(en, a[1], dict(env)) is not None]
            if near:
                a = near[0]
                problems.append("%s %s: have %s%s, the specification requires %s%s" % (ek, a[1], brief(a[2]), (" when %s" % a[3]) if a[3] else "", brief(ep), (" when %s" % eg) if eg and eg != ANY else ""))
            else:
                problems.append("missing %s %s %s" % (ek, en, brief(ep)))
            break
        used[hit[0]] = True
        env = hit[1]
    if not problems:
        extra = [a for j, a in enumerate(actual) if not used[j]]
        for a in extra[:2]:
            problems.append("unexpected %s %s %s" % (a[0], a[1], brief(a[2])))
        if not extra:
            problems.append("events do not match the template (ordering)")
    return False, problems, env


def check_template(ctx, cfg, fn, template, rule, key, semantic_calls, ordered_prefixes=("Hash::",), ignore_assign=lambda chain: False):
    acts = [a for a in actual_events(ctx, cfg, fn, semantic_calls) if not (a[0] == "assign" and ignore_assign(a[1]))]
    # inits of arrays that the template does not mention are bookkeeping only if never used in a semantic event
    mentioned = repr(template)
    exp = [(e[0], e[1], e[2], e[3] if len(e) > 3 else {}) for e in template]

    def ordered(e):
        return e[0] == "call" and isinstance(e[1], str) and e[1].startswith(ordered_prefixes)
    ok, problems, env = match_events(exp, acts, ordered)
    from .rules.common import where
    ctx.ob(rule, key, ok, "%d specification-level events match the template" % len(exp) if ok else "; ".join(problems[:3]), where(fn), cfg)
    return ok
