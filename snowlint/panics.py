"""Inventory of panic-capable MIR sites in the crate."""
PANIC_CALL_SUFFIX = (
    ("ops::Index::index", "index"),
    ("ops::IndexMut::index_mut", "index"),
    ("copy_from_slice", "copy_from_slice"),
    ("clone_from_slice", "copy_from_slice"),
    ("split_at", "split_at"),
    ("split_at_mut", "split_at"),
    ("Option::<T>::unwrap", "unwrap"),
    ("Option::<T>::expect", "unwrap"),
    ("Result::<T, E>::unwrap", "unwrap"),
    ("Result::<T, E>::expect", "unwrap"),
    ("panicking::panic", "panic"),
    ("panicking::panic_fmt", "panic"),
    ("panicking::assert_failed", "panic"),
    ("panicking::unreachable_display", "panic"),
    ("panicking::panic_explicit", "panic"),
    ("rt::begin_panic", "panic"),
    ("std::panicking::panic_display", "panic"),
)


def classify_call(t):
    d = t["callee"].get("def") or ""
    for suf, kind in PANIC_CALL_SUFFIX:
        if d.endswith(suf):
            return kind
    if "panicking::" in d:
        return "panic"
    return None


def sites(fn):
    """[(bb, kind, terminator)] panic-capable sites of one body"""
    out = []
    for bi, b in enumerate(fn.blocks):
        if b["cleanup"]:
            continue
        t = b["term"]
        if t["k"] == "assert":
            out.append((bi, "assert:" + t["msg"], t))
        elif t["k"] == "call":
            k = classify_call(t)
            if k:
                out.append((bi, k, t))
    return out
