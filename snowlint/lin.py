"""Linear expressions over opaque atoms, and exact entailment by Fourier–Motzkin elimination.

LinExpr: (coeffs: dict atom -> Fraction, const: Fraction). Constraint: (kind, LinExpr) meaning
expr >= 0 ('ge') or expr == 0 ('eq'). Atoms are arbitrary hashable values (expression trees);
they range over the integers, and the caller supplies sign/size bounds as ordinary constraints.
"""
from fractions import Fraction


class Lin:
    __slots__ = ("c", "k")

    def __init__(self, c=None, k=0):
        self.c = {a: Fraction(v) for a, v in (c or {}).items() if v != 0}
        self.k = Fraction(k)

    @staticmethod
    def const(k):
        return Lin({}, k)

    @staticmethod
    def atom(a):
        return Lin({a: 1}, 0)

    def __add__(self, o):
        if not isinstance(o, Lin):
            o = Lin.const(o)
        c = dict(self.c)
        for a, v in o.c.items():
            nv = c.get(a, 0) + v
            if nv == 0:
                c.pop(a, None)
            else:
                c[a] = nv
        return Lin(c, self.k + o.k)

    def __neg__(self):
        return Lin({a: -v for a, v in self.c.items()}, -self.k)

    def __sub__(self, o):
        if not isinstance(o, Lin):
            o = Lin.const(o)
        return self + (-o)

    def scale(self, s):
        s = Fraction(s)
        return Lin({a: v * s for a, v in self.c.items()}, self.k * s)

    def is_const(self):
        return not self.c

    def atoms(self):
        return set(self.c)

    def subst(self, atom, repl):
        """replace `atom` by LinExpr repl"""
        if atom not in self.c:
            return self
        v = self.c[atom]
        rest = Lin({a: w for a, w in self.c.items() if a != atom}, self.k)
        return rest + repl.scale(v)

    def key(self):
        return (tuple(sorted(((repr(a), a, v) for a, v in self.c.items()), key=lambda x: x[0])), self.k)

    def canon(self):
        """hashable canonical form (atoms with coeffs, const)"""
        return (tuple(sorted(((a, v) for a, v in self.c.items()), key=lambda x: repr(x[0]))), self.k)

    def __repr__(self):
        parts = []
        for a, v in sorted(self.c.items(), key=lambda x: repr(x[0])):
            parts.append("%s*%s" % (v, short_atom(a)) if v != 1 else short_atom(a))
        if self.k != 0 or not parts:
            parts.append(str(self.k))
        return " + ".join(parts)


def short_atom(a):
    s = repr(a)
    return s if len(s) < 80 else s[:77] + "..."


def ge(l):  # l >= 0
    return ("ge", l)


def eq(l):
    return ("eq", l)


def le(a, b):  # a <= b
    return ("ge", b - a)


def lt(a, b):  # a < b  (integers)  a + 1 <= b
    return ("ge", b - a - Lin.const(1))


def ccanon(c):
    """canonical hashable form of a constraint (normalised scale)"""
    kind, l = c
    coeffs = l.c
    if not coeffs:
        return (kind, (), l.k if kind == "ge" else (0 if l.k == 0 else 1))
    # scale so that the first (by repr) coefficient is +-1 ... keep sign for ge
    items = sorted(coeffs.items(), key=lambda x: repr(x[0]))
    lead = abs(items[0][1])
    s = Fraction(1) / lead
    if kind == "eq" and items[0][1] < 0:
        s = -s
    l2 = l.scale(s)
    return (kind, tuple(sorted(((a, v) for a, v in l2.c.items()), key=lambda x: repr(x[0]))), l2.k)


def from_canon(cc):
    kind, items, k = cc
    return (kind, Lin({a: v for a, v in items}, k))


def _to_ineqs(cons):
    """list of Lin L meaning L >= 0"""
    out = []
    for kind, l in cons:
        if kind == "ge":
            out.append(l)
        else:
            out.append(l)
            out.append(-l)
    return out


def infeasible(cons, max_size=4000):
    """Fourier–Motzkin over the rationals with integer tightening of constants: True if the conjunction of
    constraints has no rational solution (sound for integers as well)."""
    ineqs = []
    seen = set()
    for l in _to_ineqs(cons):
        if l.is_const():
            if l.k < 0:
                return True
            continue
        key = l.canon()
        if key not in seen:
            seen.add(key)
            ineqs.append(l)
    # eliminate atoms one by one, cheapest first
    while True:
        atoms = {}
        for l in ineqs:
            for a, v in l.c.items():
                p, n = atoms.get(a, (0, 0))
                if v > 0:
                    p += 1
                else:
                    n += 1
                atoms[a] = (p, n)
        if not atoms:
            return False
        # pick atom minimising p*n
        a = min(atoms, key=lambda x: (atoms[x][0] * atoms[x][1], repr(x)))
        pos = [l for l in ineqs if l.c.get(a, 0) > 0]
        neg = [l for l in ineqs if l.c.get(a, 0) < 0]
        rest = [l for l in ineqs if a not in l.c]
        new = []
        for p in pos:
            for n in neg:
                # p: cp*a + P >= 0 ; n: -cn*a + N >= 0  => cn*P + cp*N >= 0
                cp = p.c[a]
                cn = -n.c[a]
                comb = p.scale(cn) + n.scale(cp)
                comb.c.pop(a, None)
                if comb.is_const():
                    if comb.k < 0:
                        return True
                    continue
                new.append(comb)
        ineqs = rest
        seen = {l.canon() for l in ineqs}
        for l in new:
            k = l.canon()
            if k not in seen:
                seen.add(k)
                ineqs.append(l)
        if len(ineqs) > max_size:
            return False  # give up (sound: "not proven infeasible")


def entails(cons, goal):
    """cons |= goal ?  (goal: ('ge', L) or ('eq', L)); integers: negation of L >= 0 is L <= -1"""
    kind, l = goal
    if kind == "eq":
        return entails(cons, ("ge", l)) and entails(cons, ("ge", -l))
    neg = ("ge", (-l) - Lin.const(1))
    return infeasible(list(cons) + [neg])


def relevant(cons, goal_atoms, rounds=4):
    """restrict to constraints transitively sharing atoms with the goal (keeps FM small)"""
    cons = list(cons)
    atoms = set(goal_atoms)
    picked = [False] * len(cons)
    for _ in range(rounds):
        changed = False
        for i, (kind, l) in enumerate(cons):
            if picked[i]:
                continue
            la = l.atoms()
            if not la or la & atoms:
                picked[i] = True
                if not la <= atoms:
                    atoms |= la
                    changed = True
        if not changed:
            break
    return [c for i, c in enumerate(cons) if picked[i]]
