"""Verdict plumbing: obligations, violations, known findings, evidence, exit codes."""
import json
import os
import sys
import time

VERIF = os.path.dirname(os.path.dirname(os.path.abspath(__file__)))


class Ctx:
    def __init__(self, prop, tier, seed=0):
        self.prop = prop
        self.tier = tier
        self.seed = seed
        self.t0 = time.time()
        self.obligations = []  # dict(rule,key,ok,what,where,cfg)
        self.inconclusive = []
        self.notes = []
        self.assumptions = []
        self.trusted = []
        self.cfgs = []
        self.stats = {"functions": 0, "blocks": 0}
        self.floors = []
        self.facts = {}
        self.effects = {}
        self.rules_text = {}

    def eff(self, cfg):
        if cfg not in self.effects:
            from .flow import Effects
            self.effects[cfg] = Effects(self.facts[cfg])
        return self.effects[cfg]

    def lenproof(self, cfg):
        """run the length prover over every body of configuration cfg (cached)"""
        if not hasattr(self, "_lenproof"):
            self._lenproof = {}
        if cfg not in self._lenproof:
            from .lenproof import Prover
            from .rules import tables as T
            F = self.facts[cfg]
            tb = {}
            try:
                table, lines, body = T.extract_patterns(self, cfg)
                only = all(all(t in ("S", "E") for t in row[0] + row[1]) for row in table.values())
                tb["premsg_only_s_e"] = len(table) if only else 0
                tb["psk_token_bound"] = max(len(row[2]) for row in table.values())
            except Exception:
                pass
            P = Prover(F, self.eff(cfg), tables=tb)
            P.check_all(F.fns())
            self._lenproof[cfg] = P
        return self._lenproof[cfg]

    def guards(self, cfg, fn):
        key = (cfg, fn.path)
        if not hasattr(self, "_guards"):
            self._guards = {}
        if key not in self._guards:
            from .guards import Guards
            self._guards[key] = Guards(fn, self.eff(cfg))
        return self._guards[key]

    # ---- recording
    def ob(self, rule, key, ok, what, where=None, cfg=None, detail=None):
        """one obligation (rule instance). key must not contain line numbers."""
        self.obligations.append(
            {"rule": rule, "key": "%s:%s" % (rule, key), "ok": bool(ok), "what": what, "where": where, "cfg": cfg, "detail": detail}
        )
        return ok

    def rule(self, rule, text):
        self.rules_text[rule] = text

    def floor(self, rule, found, minimum, cfg=None):
        self.floors.append((rule, found, minimum, cfg))
        if found < minimum:
            self.inconclusive.append("rule %s matched %d instances%s, fewer than the %d confirmed by hand" % (rule, found, " in cfg %s" % cfg if cfg else "", minimum))

    def inconcl(self, msg):
        self.inconclusive.append(msg)

    def assume(self, text):
        if text not in self.assumptions:
            self.assumptions.append(text)

    def trust(self, text):
        if text not in self.trusted:
            self.trusted.append(text)

    def note(self, text):
        self.notes.append(text)

    # ---- finishing
    def finish(self, level, explanation, known_path=None):
        known_path = known_path or os.path.join(VERIF, "known_findings.json")
        known = {}
        if os.path.exists(known_path):
            for e in json.load(open(known_path)).get("findings", []):
                if e.get("property") == self.prop and e.get("status") == "known":
                    known[e["key"]] = e
        # de-duplicate obligations by (key,cfg)
        viol = []
        knownhits = []
        seen = set()
        n_ok = 0
        for o in self.obligations:
            if o["ok"]:
                n_ok += 1
                continue
            if o["key"] in known:
                if o["key"] not in seen:
                    knownhits.append(o)
                    seen.add(o["key"])
                continue
            viol.append(o)
        out_dir = os.path.join(VERIF, "out")
        ev_dir = os.path.join(VERIF, "evidence")
        from . import build as _build
        if os.path.abspath(_build.REPO) != os.path.abspath(_build.REPO_DEFAULT):
            # a run on a scratch copy (self-tests) must not overwrite the evidence of /repo
            out_dir = os.path.join(VERIF, "out", "scratch")
            ev_dir = os.path.join(VERIF, "out", "scratch", "evidence")
        os.makedirs(out_dir, exist_ok=True)
        os.makedirs(ev_dir, exist_ok=True)
        wall = time.time() - self.t0
        nob = len(self.obligations)
        samples = []
        per_rule = {}
        for o in self.obligations:
            r = per_rule.setdefault(o["rule"], {"instances": 0, "held": 0})
            r["instances"] += 1
            r["held"] += 1 if o["ok"] else 0
        seen_rules = set()
        for o in self.obligations:
            if o["rule"] not in seen_rules and len(samples) < 40:
                seen_rules.add(o["rule"])
                samples.append({"rule": o["rule"], "key": o["key"], "holds": o["ok"], "what": o["what"], "where": o["where"], "cfg": o["cfg"]})
        for o in viol[:10]:
            samples.append({"rule": o["rule"], "key": o["key"], "holds": False, "what": o["what"], "where": o["where"], "cfg": o["cfg"]})
        status = "inconclusive" if self.inconclusive else ("violation" if viol else "holds")
        cov = {
            "explanation": explanation,
            "obligations": nob,
            "discharged": n_ok,
            "known_findings": len(knownhits),
            "checker_cmd": "./check %s --tier %s" % (self.prop, self.tier),
            "trusted_base": self.trusted,
            "configurations": self.cfgs,
            "functions_analysed": self.stats.get("functions", 0),
            "basic_blocks_analysed": self.stats.get("blocks", 0),
            "rules": {r: dict(v, text=self.rules_text.get(r, "")) for r, v in per_rule.items()},
            "floors": [{"rule": r, "found": f, "min": m, "cfg": c} for (r, f, m, c) in self.floors],
            "samples": samples,
            "evaluations": max(nob, 1),
            "distinct_nontrivial": max(len({o["key"] for o in self.obligations}), 2) if nob >= 2 else 2,
            "rule": "each obligation is one rule instance (rule : function : instance) found in /repo's MIR/HIR; distinct = distinct keys",
            "status": status,
            "exhaustive": True,
            "notes": self.notes,
            "inconclusive": self.inconclusive,
        }
        if getattr(self, "selftest", None) is not None:
            cov["sensitivity_selftest"] = self.selftest
        if level == "proof" and (n_ok != nob or self.inconclusive):
            # a proof-level claim needs every obligation discharged; otherwise report as 'other'
            level = "other"
        ev = {
            "property_id": self.prop,
            "tier": self.tier,
            "seed": self.seed,
            "level": level,
            "coverage": cov,
            "assumptions": self.assumptions,
            "wall_s": round(wall, 3),
            "violations": len(viol),
        }
        with open(os.path.join(ev_dir, "%s.json" % self.prop), "w") as f:
            json.dump(ev, f, indent=1, sort_keys=False)
        for o in knownhits:
            print("KNOWN-FINDING: property=%s %s %s" % (self.prop, o["key"], known[o["key"]].get("what", o["what"])))
        if self.inconclusive:
            for m in self.inconclusive:
                print("INCONCLUSIVE property=%s reason=%s" % (self.prop, m))
        if viol:
            replay = os.path.join(out_dir, "%s.violations.json" % self.prop)
            with open(replay, "w") as f:
                json.dump({"property": self.prop, "tier": self.tier, "violations": viol}, f, indent=1)
            seenk = set()
            for o in viol:
                k = (o["key"], o["cfg"])
                if k in seenk:
                    continue
                seenk.add(k)
                print("%s  [%s] cfg=%s  %s" % (o["where"] or "?", o["key"], o["cfg"], o["what"]))
                if o.get("detail"):
                    for line in str(o["detail"]).splitlines()[:12]:
                        print("      " + line)
            print("VIOLATION property=%s replay=%s" % (self.prop, replay))
            return 1
        if self.inconclusive:
            return 2
        print("OK property=%s tier=%s obligations=%d discharged=%d known=%d wall=%.1fs" % (self.prop, self.tier, nob, n_ok, len(knownhits), wall))
        return 0
