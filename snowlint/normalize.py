"""Normal form of the exported program, so that rules written against the pinned tree keep applying to
behaviour-preserving refactorings:

  1. rename detection — a crate-local function that is new (not in `baseline_fns.json`) and has the same parent
     item and signature as exactly one baseline function that has disappeared is treated as that function under its
     old name (pure renaming of paths; nothing else changes);
  2. helper inlining — every other new crate-local function (a helper extracted by a refactoring, or added by any
     other change) is inlined at MIR level into its callers, then dropped as a separate body: the analyses see the
     callers' real behaviour, exactly as if the helper's code had been written in place;
  3. jump threading — after inlining, a `?` or `match` on a Result whose variant is known on a predecessor edge
     (the helper's `return Err(..)` / `Ok(..)` sites) is resolved on that edge, so the must-fact analyses are as
     path-sensitive as they were before the helper was extracted.

All three are semantics-preserving program transformations of the analysed MIR; none reads anything but the current
export and the committed list of function names/signatures of the pinned tree (used for naming only, never for a
verdict). A change that breaks a property is still seen: its code is inlined, not ignored."""
import copy
import json
import os

HERE = os.path.dirname(os.path.abspath(__file__))
BASELINE = os.path.join(HERE, "baseline_fns.json")
MAX_INLINE_BLOCKS = 400
MAX_ROUNDS = 6


def fn_sig(F_types, b):
    m = b["mir"]
    return [F_types[m["locals"][i]["ty"]]["s"] for i in range(0, m["argc"] + 1)]


def index_of(d):
    """{path: {"sig": [...], "parent": str}} for crate-local fns with MIR"""
    out = {}
    types = d["types"]
    for b in d["bodies"]:
        if "mir" not in b or b.get("kind") not in ("Fn", "AssocFn"):
            continue
        out[b["path"]] = {"sig": fn_sig(types, b), "parent": b["path"].rsplit("::", 1)[0]}
    return out


def load_baseline():
    if not os.path.exists(BASELINE):
        return None
    with open(BASELINE) as f:
        return json.load(f)


# ------------------------------------------------------------------------------------------------ renames

def detect_renames(cur, base):
    """cur/base: index dicts. returns {new_path: old_path}"""
    new = [p for p in cur if p not in base]
    missing = [p for p in base if p not in cur]
    ren = {}
    taken = set()
    for n in sorted(new):
        c = [k for k in missing if base[k]["parent"] == cur[n]["parent"] and base[k]["sig"] == cur[n]["sig"] and k not in taken]
        if len(c) == 1:
            # the old name must be claimed by exactly one new function
            rivals = [n2 for n2 in new if n2 != n and cur[n2]["parent"] == cur[n]["parent"] and cur[n2]["sig"] == cur[n]["sig"]]
            if not rivals:
                ren[n] = c[0]
                taken.add(c[0])
    return ren


def apply_renames_text(txt, ren):
    for n, k in ren.items():
        txt = txt.replace(json.dumps(n), json.dumps(k))
        txt = txt.replace(json.dumps(n)[:-1] + "::", json.dumps(k)[:-1] + "::")
        # the short name field of the body / callee records
        txt = txt.replace('"name": %s' % json.dumps(n.rsplit("::", 1)[1]), '"name": %s' % json.dumps(k.rsplit("::", 1)[1]))
    return txt


# ------------------------------------------------------------------------------------------------ MIR rewriting

def _map_place(p, lo):
    p["local"] += lo
    for e in p["proj"]:
        if e["k"] == "index":
            e["local"] += lo


def _map_op(o, lo, po):
    k = o.get("k")
    if k in ("copy", "move"):
        _map_place(o["place"], lo)
    elif k == "const" and "promoted" in o:
        o["promoted"] += po


def _map_rv(rv, lo, po):
    k = rv["k"]
    if k in ("use", "repeat", "cast"):
        _map_op(rv["op"], lo, po)
    elif k in ("ref", "rawptr", "discr", "copyforderef"):
        _map_place(rv["place"], lo)
    elif k == "binop":
        _map_op(rv["a"], lo, po)
        _map_op(rv["b"], lo, po)
    elif k == "unop":
        _map_op(rv["a"], lo, po)
    elif k == "aggregate":
        for o in rv["ops"]:
            _map_op(o, lo, po)
    elif "place" in rv:
        _map_place(rv["place"], lo)


def _map_term(t, lo, po, bo):
    k = t["k"]
    for key in ("target", "otherwise", "unwind"):
        if isinstance(t.get(key), int) and not isinstance(t.get(key), bool):
            t[key] += bo
    if k == "switch":
        t["targets"] = [[v, b + bo] for v, b in t["targets"]]
        _map_op(t["discr"], lo, po)
    elif k == "call":
        for a in t["args"]:
            _map_op(a, lo, po)
        if isinstance(t.get("func"), dict):
            _map_op(t["func"], lo, po)
        _map_place(t["dest"], lo)
    elif k == "assert":
        _map_op(t["cond"], lo, po)
        for o in t.get("ops", []):
            _map_op(o, lo, po)
    elif k == "drop":
        _map_place(t["place"], lo)


def _rename_place(p, a, b):
    if p["local"] == a:
        p["local"] = b
    for e in p["proj"]:
        if e["k"] == "index" and e["local"] == a:
            e["local"] = b


def _rename_op(o, a, b):
    if o.get("k") in ("copy", "move"):
        _rename_place(o["place"], a, b)


def _rename_local(blocks, a, b):
    for blk in blocks:
        for s in blk["stmts"]:
            _rename_place(s["place"], a, b)
            if s["k"] == "assign":
                rv = s["rv"]
                for key in ("op", "a", "b"):
                    if isinstance(rv.get(key), dict):
                        _rename_op(rv[key], a, b)
                if isinstance(rv.get("place"), dict):
                    _rename_place(rv["place"], a, b)
                for o in rv.get("ops", []) or []:
                    _rename_op(o, a, b)
        t = blk["term"]
        if t["k"] == "switch":
            _rename_op(t["discr"], a, b)
        elif t["k"] == "call":
            for o in t["args"]:
                _rename_op(o, a, b)
            _rename_place(t["dest"], a, b)
        elif t["k"] == "assert":
            _rename_op(t["cond"], a, b)
            for o in t.get("ops", []):
                _rename_op(o, a, b)
        elif t["k"] == "drop":
            _rename_place(t["place"], a, b)


def _mentions_local(o, l):
    return o.get("k") in ("copy", "move") and (o["place"]["local"] == l or any(e["k"] == "index" and e["local"] == l for e in o["place"]["proj"]))


def _return_slot(km):
    """if the callee's `_0` is defined once, as a whole-local move/copy of a non-argument local X of the same type at
    the end of a block that leads straight to `return`, rename X to `_0` (named return value)"""
    defs = []
    for bi, b in enumerate(km["blocks"]):
        for si, s in enumerate(b["stmts"]):
            if s["place"]["local"] == 0:
                defs.append((bi, si, s))
        if b["term"]["k"] == "call" and b["term"]["dest"]["local"] == 0:
            defs.append((bi, "term", b["term"]))
    if len(defs) != 1 or defs[0][1] == "term":
        return
    bi, si, s = defs[0]
    if s["k"] != "assign" or s["place"]["proj"] or s["rv"]["k"] != "use" or s["rv"]["op"].get("k") not in ("move", "copy") or s["rv"]["op"]["place"]["proj"]:
        return
    x = s["rv"]["op"]["place"]["local"]
    if x <= km["argc"] or km["locals"][x]["ty"] != km["locals"][0]["ty"] or si != len(km["blocks"][bi]["stmts"]) - 1:
        return
    cur = bi
    for _ in range(8):
        t = km["blocks"][cur]["term"]
        if t["k"] == "return":
            break
        if t["k"] != "goto" or (cur != bi and km["blocks"][cur]["stmts"]):
            return
        cur = t["target"]
    else:
        return
    del km["blocks"][bi]["stmts"][si]
    _rename_local(km["blocks"], x, 0)


def inline_call(caller, bi, callee):
    """inline `callee` (body dict) at the call terminating block `bi` of `caller` (body dict)"""
    cm = caller["mir"]
    t = cm["blocks"][bi]["term"]
    km = copy.deepcopy(callee["mir"])
    _return_slot(km)
    lo = len(cm["locals"])
    bo = len(cm["blocks"])
    po = len(caller.get("promoted") or [])
    line = t.get("l", 0)
    if callee.get("promoted"):
        caller.setdefault("promoted", [])
        caller["promoted"].extend(copy.deepcopy(callee["promoted"]))
    cm["locals"].extend(km["locals"])
    for dbg in km.get("dbg", []):
        _map_place(dbg["place"], lo)
        cm["dbg"].append({"name": dbg["name"] + "'", "place": dbg["place"]})
    # continuation
    cont = t.get("target")
    dest = t["dest"]
    join = None
    for b in km["blocks"]:
        for s in b["stmts"]:
            _map_place(s["place"], lo)
            if s["k"] == "assign":
                _map_rv(s["rv"], lo, po)
        _map_term(b["term"], lo, po, bo)
    for b in km["blocks"]:
        if b["term"]["k"] == "return" and not b.get("cleanup"):
            if join is None:
                join = bo + len(km["blocks"])
            b["term"] = {"k": "goto", "target": join, "l": b["term"].get("l", line), "x": False}
    # write the callee's return value directly into the destination when that is a plain local the call cannot alias
    direct = (not dest["proj"] and not any(_mentions_local(a, dest["local"]) for a in t["args"])
              and cm["locals"][dest["local"]]["ty"] == km["locals"][0]["ty"])
    if direct:
        _rename_local(km["blocks"], lo, dest["local"])
    cm["blocks"].extend(km["blocks"])
    if join is not None and direct:
        cm["blocks"].append({"stmts": [], "term": ({"k": "goto", "target": cont, "l": line, "x": False} if cont is not None else {"k": "unreachable", "l": line}), "cleanup": False})
    elif join is not None:
        jb = {"stmts": [{"k": "assign", "place": copy.deepcopy(dest), "rv": {"k": "use", "op": {"k": "move", "place": {"local": lo, "proj": []}}}, "l": line, "x": False}],
              "term": ({"k": "goto", "target": cont, "l": line, "x": False} if cont is not None else {"k": "unreachable", "l": line}), "cleanup": False}
        cm["blocks"].append(jb)
    # the call block: bind the arguments, jump to the callee's entry
    blk = cm["blocks"][bi]
    for j, a in enumerate(t["args"]):
        blk["stmts"].append({"k": "assign", "place": {"local": lo + 1 + j, "proj": []}, "rv": {"k": "use", "op": a}, "l": line, "x": False})
    blk["term"] = {"k": "goto", "target": bo, "l": line, "x": False}
    return join


def _succs(t):
    k = t["k"]
    if k == "goto":
        return [t["target"]]
    if k == "switch":
        return [b for _, b in t["targets"]] + [t["otherwise"]]
    if k in ("call", "drop", "assert"):
        return [t["target"]] if t.get("target") is not None else []
    return []


def _retarget(t, old, new):
    k = t["k"]
    if k == "switch":
        t["targets"] = [[v, (new if b == old else b)] for v, b in t["targets"]]
        if t["otherwise"] == old:
            t["otherwise"] = new
    elif t.get("target") == old:
        t["target"] = new


RESULT = "result::Result"


def _known_variant_at_end(blk, local):
    """variant name ('Ok'/'Err') if the block's last assignment to `local` is a Result aggregate"""
    v = None
    for s in blk["stmts"]:
        if s["place"]["local"] == local:
            if s["k"] == "assign" and not s["place"]["proj"] and s["rv"]["k"] == "aggregate" and (s["rv"].get("adt") or "").endswith(RESULT):
                v = s["rv"].get("variant_name")
            else:
                v = None
    t = blk["term"]
    if t["k"] == "call" and t["dest"]["local"] == local:
        v = None
    return v


def _transfer(blk, st):
    """abstract state {local: variant} through a block; returns the out-state"""
    st = dict(st)
    for s in blk["stmts"]:
        pl = s["place"]
        l = pl["local"]
        if s["k"] == "assign" and not pl["proj"]:
            rv = s["rv"]
            if rv["k"] == "aggregate" and (rv.get("adt") or "").endswith(RESULT) and rv.get("variant_name") in ("Ok", "Err"):
                st[l] = rv["variant_name"]
                continue
            if rv["k"] == "use" and rv["op"].get("k") in ("move", "copy") and not rv["op"]["place"]["proj"] and rv["op"]["place"]["local"] in st:
                st[l] = st[rv["op"]["place"]["local"]]
                continue
        st.pop(l, None)
    t = blk["term"]
    if t["k"] == "call":
        dl = t["dest"]["local"]
        v = None
        if (t["callee"].get("def") or "").endswith("ops::Try::branch") and not t["dest"]["proj"] and t["args"] and t["args"][0].get("k") in ("move", "copy") and not t["args"][0]["place"]["proj"]:
            a = st.get(t["args"][0]["place"]["local"])
            v = {"Ok": "Continue", "Err": "Break"}.get(a)
        if v:
            st[dl] = v
        else:
            st.pop(dl, None)
    return st


DISCR_OF = {"Ok": 0, "Err": 1, "Continue": 0, "Break": 1}


def thread_results(body, joins=None, max_clones=400):
    """Forward jump threading on known Result / ControlFlow variants: trivial blocks reached with different known
    variants are duplicated per variant, and discriminant switches on a known variant become gotos."""
    m = body["mir"]
    blocks = m["blocks"]
    clones = 0
    changed_any = False
    for _ in range(600):
        # forward must-analysis
        n = len(blocks)
        preds = [[] for _ in range(n)]
        for i, b in enumerate(blocks):
            for x in set(_succs(b["term"])):
                preds[x].append(i)
        IN = [None] * n
        OUT = [None] * n
        IN[0] = {}
        work = [0]
        while work:
            i = work.pop()
            o = _transfer(blocks[i], IN[i])
            if OUT[i] is not None and o == OUT[i]:
                continue
            OUT[i] = o
            for x in set(_succs(blocks[i]["term"])):
                if IN[x] is None:
                    IN[x] = dict(o)
                    work.append(x)
                else:
                    meet = {k: v for k, v in IN[x].items() if o.get(k) == v}
                    if meet != IN[x]:
                        IN[x] = meet
                        work.append(x)
        changed = False
        # resolve switches on known discriminants
        for i, b in enumerate(blocks):
            t = b["term"]
            if IN[i] is None or t["k"] != "switch" or t["discr"].get("k") not in ("move", "copy"):
                continue
            dl = t["discr"]["place"]["local"]
            src = None
            st = dict(IN[i])
            for s in b["stmts"]:
                if s["k"] == "assign" and s["place"]["local"] == dl and s["rv"]["k"] == "discr" and not s["rv"]["place"]["proj"]:
                    src = st.get(s["rv"]["place"]["local"])
                st = _transfer({"stmts": [s], "term": {"k": "goto", "target": 0}}, st)
            if src in DISCR_OF:
                val = DISCR_OF[src]
                tgt = next((bb for vv, bb in t["targets"] if vv == val), t["otherwise"])
                b["term"] = {"k": "goto", "target": tgt, "l": t.get("l", 0), "x": False}
                changed = True
        if changed:
            changed_any = True
            continue
        # split trivial join blocks whose predecessors disagree on a known variant
        for i, b in enumerate(blocks):
            if i == 0 or IN[i] is None or len(preds[i]) < 2 or b.get("cleanup") or len(b["stmts"]) > 3:
                continue
            t = b["term"]
            if not (t["k"] in ("goto", "switch") or (t["k"] == "call" and (t["callee"].get("def") or "").endswith("ops::Try::branch"))):
                continue
            rel = _relevant_locals(blocks, i, preds)
            if not rel:
                continue
            groups = {}
            for p in preds[i]:
                if OUT[p] is None:
                    continue
                key = tuple(sorted((k, v) for k, v in OUT[p].items() if k in rel))
                groups.setdefault(key, []).append(p)
            if len(groups) < 2 or not any(k for k in groups):
                continue
            keys = sorted(groups, key=lambda k: -len(groups[k]))
            for k in keys[1:]:
                if clones >= max_clones:
                    break
                ni = len(blocks)
                blocks.append(copy.deepcopy(b))
                clones += 1
                for p in groups[k]:
                    _retarget(blocks[p]["term"], i, ni)
                changed = True
            if changed:
                break
        if not changed:
            break
        changed_any = True
    return changed_any


def _relevant_locals(blocks, i, preds):
    """locals whose Result/ControlFlow variant decides a discriminant switch at the end of the straight-line chain of
    trivial blocks starting at block i"""
    chain = []
    cur = i
    for _ in range(8):
        b = blocks[cur]
        chain.append(cur)
        t = b["term"]
        if t["k"] == "switch":
            break
        nxt = t.get("target") if t["k"] in ("goto", "call") else None
        if nxt is None or len(b["stmts"]) > 3 or len(preds[nxt]) != 1:
            if t["k"] != "switch":
                # the next block has other predecessors: it can still be split in a later round once this one is
                if nxt is not None and len(blocks[nxt]["stmts"]) <= 3:
                    chain.append(nxt)
                    cur = nxt
                    if blocks[nxt]["term"]["k"] == "switch":
                        break
                    continue
            break
        cur = nxt
    last = blocks[chain[-1]]
    if last["term"]["k"] != "switch" or last["term"]["discr"].get("k") not in ("move", "copy"):
        # not (yet) leading to a switch: relevant if it leads to a Try::branch or a trivial goto chain
        pass
    rel = set()
    # backward over the chain
    want = set()
    t = last["term"]
    if t["k"] == "switch" and t["discr"].get("k") in ("move", "copy"):
        want.add(t["discr"]["place"]["local"])
    for ci in reversed(chain):
        b = blocks[ci]
        tt = b["term"]
        if tt["k"] == "call" and tt["dest"]["local"] in want and tt["args"] and tt["args"][0].get("k") in ("move", "copy"):
            want.discard(tt["dest"]["local"])
            want.add(tt["args"][0]["place"]["local"])
        for s in reversed(b["stmts"]):
            if s["k"] != "assign" or s["place"]["proj"]:
                continue
            l = s["place"]["local"]
            if l in want:
                rv = s["rv"]
                if rv["k"] == "discr":
                    want.discard(l)
                    want.add(rv["place"]["local"])
                elif rv["k"] == "use" and rv["op"].get("k") in ("move", "copy") and not rv["op"]["place"]["proj"]:
                    want.discard(l)
                    want.add(rv["op"]["place"]["local"])
                else:
                    want.discard(l)
    return want


def _pred_counts(blocks):
    n = {}
    for b in blocks:
        for s in set(_succs(b["term"])):
            n[s] = n.get(s, 0) + 1
    return n


# ------------------------------------------------------------------------------------------------ driver

def normalize(d, base_idx, log=None):
    """d: parsed facts (renames already applied). Inline every crate-local fn absent from the baseline index."""
    bodies = {b["path"]: b for b in d["bodies"]}
    cur = index_of(d)
    helpers = {p for p in cur if p not in base_idx}
    if not helpers:
        return []
    # callee of a call terminator, if statically resolved to a local body
    def target(t):
        c = t["callee"]
        r = c.get("resolved") or c.get("def")
        if c.get("inst") in ("virtual", "indirect", "unresolved"):
            r = c.get("def") if c.get("inst") == "unresolved" else None
        return r if r in bodies and "mir" in bodies[r] else None

    # recursion check among helpers
    def reaches(src, dst, seen=None):
        seen = seen or set()
        if src in seen:
            return False
        seen.add(src)
        for b in bodies[src]["mir"]["blocks"]:
            t = b["term"]
            if t["k"] == "call":
                r = target(t)
                if r == dst:
                    return True
                if r in helpers and reaches(r, dst, seen):
                    return True
        return False

    overridden = {b.get("trait_item") for b in d["bodies"] if b.get("trait_item")}
    inlinable = {h for h in helpers if not reaches(h, h) and len(bodies[h]["mir"]["blocks"]) <= MAX_INLINE_BLOCKS and h not in overridden}
    done = []
    for _ in range(MAX_ROUNDS):
        any_change = False
        for p, b in list(bodies.items()):
            if "mir" not in b:
                continue
            joins = []
            bi = 0
            while bi < len(b["mir"]["blocks"]):
                blk = b["mir"]["blocks"][bi]
                t = blk["term"]
                if t["k"] == "call" and not blk.get("cleanup"):
                    r = target(t)
                    if r in inlinable and r != p and len(b["mir"]["blocks"]) < 4000:
                        jn = inline_call(b, bi, bodies[r])
                        if jn is not None:
                            joins.append(jn)
                        done.append((p, r))
                        any_change = True
                bi += 1
            if joins:
                thread_results(b, joins)
        if not any_change:
            break
    # drop the helper bodies (and re-parent their closures to a caller, for rules that look at closures of a function)
    callers = {}
    for (p, r) in done:
        callers.setdefault(r, []).append(p)
    keep = []
    for b in d["bodies"]:
        if b["path"] in inlinable and b["path"] in callers:
            continue
        if b.get("kind") == "Closure" and b.get("parent") in inlinable and b.get("parent") in callers:
            ps = [c for c in callers[b["parent"]] if c not in inlinable]
            if ps:
                b["parent"] = ps[0]
        keep.append(b)
    d["bodies"] = keep
    for im in d.get("impls", []):
        im["items"] = [i for i in im["items"] if not (i.get("path") in inlinable and i.get("path") in callers)]
    if log is not None:
        log.extend(done)
    return done
