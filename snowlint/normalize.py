"""Normal form of the exported program, so that rules written against the pinned tree keep applying to
behaviour-preserving refactorings:

  1. rename detection — a crate-local function that is new (not in `baseline_fns.json`) and has the same parent
     item and signature as exactly one baseline function that has disappeared is treated as that function under its
     old name (pure renaming of paths; nothing else changes);
  2. helper inlining — every other new crate-local function (a helper extracted by a refactoring, or added by any
     other change) is inlined at MIR level into its callers, then dropped as a separate body: the analyses see the
     callers' real behaviour, exactly as if the helper's code had been written in place;
  3. jump threading — after inlining, a `?` or `match` on a Result whose variant is known on a predecessor edge
     (the helper's `return Err(..)` / `Ok(..)` sites) is resolved on that edge, so the must-fact analyses are as
     path-sensitive as they were before the helper was extracted.

All three are semantics-preserving program transformations of the analysed MIR; none reads anything but the current
export and the committed list of function names/signatures of the pinned tree (used for naming only, never for a
verdict). A change that breaks a property is still seen: its code is inlined, not ignored."""
import copy
import json
import os

HERE = os.path.dirname(os.path.abspath(__file__))
BASELINE = os.path.join(HERE, "baseline_fns.json")
MAX_INLINE_BLOCKS = 400
MAX_ROUNDS = 6


def fn_sig(F_types, b):
    m = b["mir"]
    return [F_types[m["locals"][i]["ty"]]["s"] for i in range(0, m["argc"] + 1)]


def index_of(d):
    """{path: {"sig": [...], "parent": str, "callers": [...]}} for crate-local fns with MIR"""
    out = {}
    types = d["types"]
    for b in d["bodies"]:
        if "mir" not in b or b.get("kind") not in ("Fn", "AssocFn"):
            continue
        out[b["path"]] = {"sig": fn_sig(types, b), "parent": b["path"].rsplit("::", 1)[0], "callers": []}
    for b in d["bodies"]:
        if "mir" not in b:
            continue
        who = b["path"] if b.get("kind") in ("Fn", "AssocFn") else b.get("parent")
        for blk in b["mir"]["blocks"]:
            t = blk["term"]
            if t["k"] == "call":
                r = t["callee"].get("resolved") or t["callee"].get("def")
                if r in out and who and who not in out[r]["callers"]:
                    out[r]["callers"].append(who)
    for v in out.values():
        v["callers"].sort()
    return out


def adt_index(d):
    """{adt path: [[(field name, field type string), ...] per variant]} for crate-local ADTs"""
    types = d["types"]
    out = {}
    for a in d.get("adts", []):
        if not a["path"].startswith(d["crate"] + "::"):
            continue
        out[a["path"]] = [[[f["name"], types[f["ty"]]["s"]] for f in v["fields"]] for v in a["variants"]]
    return out


def detect_adt_renames(cur, base):
    """renamed crate-local types: a new ADT whose parent module and field list (names and types, up to its own name)
    equal those of exactly one ADT that disappeared"""
    new = [p for p in cur if p not in base]
    missing = [p for p in base if p not in cur]
    ren = {}
    for n in sorted(new):
        nn = n.rsplit("::", 1)[1]
        c = []
        for k in missing:
            if k.rsplit("::", 1)[0] != n.rsplit("::", 1)[0]:
                continue
            kn = k.rsplit("::", 1)[1]
            # same field types in the same order (field names may have been renamed in the same commit)
            a = json.dumps([[t for _, t in v] for v in cur[n]]).replace(nn, "\x00")
            b = json.dumps([[t for _, t in v] for v in base[k]]).replace(kn, "\x00")
            if a == b:
                c.append(k)
        if len(c) == 1 and c[0] not in ren.values():
            ren[n] = c[0]
    return ren


def detect_field_renames(cur, base):
    """{adt path: {new field name: old field name}} for crate-local ADTs that kept their path, field count and field
    types (in order) but changed some field names"""
    out = {}
    for p, vs in cur.items():
        if p not in base or len(base[p]) != len(vs):
            continue
        m = {}
        for v_new, v_old in zip(vs, base[p]):
            if len(v_new) != len(v_old) or [t for _, t in v_new] != [t for _, t in v_old]:
                continue
            if {n for n, _ in v_new} == {n for n, _ in v_old}:
                continue
            for (nn, _), (on, _) in zip(v_new, v_old):
                if nn != on:
                    m[nn] = on
        if m:
            out[p] = m
    return out


def apply_field_renames(d, ren):
    """rename fields of the given ADTs in place projections (owner type tracked along the projection), aggregates,
    ADT tables and typed HIR"""
    types = d["types"]

    def owner_adt(ti):
        seen = 0
        while ti is not None and seen < 6:
            t = types[ti]
            if t["k"] in ("ref", "refmut", "ptr"):
                ti = t.get("inner")
            elif t["k"] == "adt" and t.get("adt", "").endswith("boxed::Box") and t.get("args"):
                ti = t["args"][0]
            else:
                return t.get("adt") if t["k"] == "adt" else None
            seen += 1
        return None

    def fix_place(pl, locals_):
        ti = locals_[pl["local"]]["ty"] if 0 <= pl["local"] < len(locals_) else None
        for e in pl["proj"]:
            k = e["k"]
            if k == "deref":
                t = types[ti] if ti is not None else None
                if t is None:
                    ti = None
                elif t["k"] in ("ref", "refmut", "ptr"):
                    ti = t.get("inner")
                elif t["k"] == "adt" and t.get("args"):
                    ti = t["args"][0]
                else:
                    ti = None
            elif k == "field":
                own = owner_adt(ti) if ti is not None else None
                if own in ren and e.get("name") in ren[own]:
                    e["name"] = ren[own][e["name"]]
                ti = e.get("ty")
            elif k in ("index", "constindex", "subslice"):
                t = types[ti] if ti is not None else None
                ti = t.get("inner") if t is not None and t["k"] in ("array", "slice") and k != "subslice" else (ti if k == "subslice" else None)
            elif k == "downcast":
                pass
            else:
                ti = None

    def walk_mir(x, locals_):
        if isinstance(x, dict):
            if "local" in x and "proj" in x and isinstance(x["proj"], list):
                fix_place(x, locals_)
                return
            if x.get("k") == "aggregate" and x.get("agg") == "adt" and isinstance(x.get("field_names"), list):
                m = ren.get(x.get("adt"))
                if m:
                    x["field_names"] = [m.get(n, n) for n in x["field_names"]]
            for v in x.values():
                walk_mir(v, locals_)
        elif isinstance(x, list):
            for v in x:
                walk_mir(v, locals_)

    def walk_hir(x):
        if isinstance(x, dict):
            if x.get("k") == "field" and isinstance(x.get("a"), dict):
                own = owner_adt(x["a"].get("t")) if x["a"].get("t") is not None else None
                if own in ren and x.get("name") in ren[own]:
                    x["name"] = ren[own][x["name"]]
            if x.get("k") == "struct" and isinstance(x.get("fields"), list):
                own = owner_adt(x.get("t")) if x.get("t") is not None else None
                cands = [own] if own in ren else [a for a in ren if all((f.get("name") in ren[a] or f.get("name") in ren[a].values()) for f in x["fields"] if isinstance(f, dict))]
                if len(cands) == 1 and cands[0] in ren:
                    for f in x["fields"]:
                        if isinstance(f, dict) and f.get("name") in ren[cands[0]]:
                            f["name"] = ren[cands[0]][f["name"]]
            for v in x.values():
                walk_hir(v)
        elif isinstance(x, list):
            for v in x:
                walk_hir(v)

    for b in d["bodies"]:
        if "mir" in b:
            walk_mir(b["mir"]["blocks"], b["mir"]["locals"])
            for dbg in b["mir"].get("dbg", []):
                fix_place(dbg["place"], b["mir"]["locals"])
        for pm in b.get("promoted") or []:
            if isinstance(pm, dict) and "blocks" in pm and "locals" in pm:
                walk_mir(pm["blocks"], pm["locals"])
        if "hir" in b:
            walk_hir(b["hir"])
    for a in d.get("adts", []):
        m = ren.get(a["path"])
        if m:
            for v in a["variants"]:
                for f in v["fields"]:
                    if f["name"] in m:
                        f["name"] = m[f["name"]]


def load_baseline():
    if not os.path.exists(BASELINE):
        return None
    with open(BASELINE) as f:
        return json.load(f)


# ------------------------------------------------------------------------------------------------ renames

def detect_renames(cur, base):
    """cur/base: index dicts. returns {new_path: old_path}"""
    new = [p for p in cur if p not in base]
    missing = [p for p in base if p not in cur]
    ren = {}
    taken = set()
    def stable_callers(idx, p, other):
        # callers that exist under the same name in both trees
        return {c for c in idx[p].get("callers", []) if c in other}

    for n in sorted(new):
        c = [k for k in missing if base[k]["parent"] == cur[n]["parent"] and base[k]["sig"] == cur[n]["sig"] and k not in taken]
        rivals = [n2 for n2 in new if n2 != n and cur[n2]["parent"] == cur[n]["parent"] and cur[n2]["sig"] == cur[n]["sig"]]
        if len(c) > 1 or rivals:
            # several functions of one signature were renamed together: tell them apart by who calls them
            mine = stable_callers(cur, n, base)
            c = [k for k in c if mine and stable_callers(base, k, cur) == mine]
            rivals = [n2 for n2 in rivals if stable_callers(cur, n2, base) == mine]
        if len(c) == 1 and not rivals:
            ren[n] = c[0]
            taken.add(c[0])
    return ren


def apply_type_renames_text(txt, crate, ren):
    """rename crate-local types everywhere they are spelled, with or without the crate prefix (type strings)"""
    import re
    for n, k in ren.items():
        n2 = n[len(crate) + 2:] if n.startswith(crate + "::") else n
        k2 = k[len(crate) + 2:] if k.startswith(crate + "::") else k
        txt = re.sub(r"(?<!\w)" + re.escape(n2) + r"(?!\w)", k2.replace("\\", "\\\\"), txt)
        txt = txt.replace('"name": %s' % json.dumps(n.rsplit("::", 1)[1]), '"name": %s' % json.dumps(k.rsplit("::", 1)[1]))
    return txt


def apply_renames_text(txt, ren):
    for n, k in ren.items():
        txt = txt.replace(json.dumps(n), json.dumps(k))
        txt = txt.replace(json.dumps(n)[:-1] + "::", json.dumps(k)[:-1] + "::")
        # the short name field of the body / callee records
        txt = txt.replace('"name": %s' % json.dumps(n.rsplit("::", 1)[1]), '"name": %s' % json.dumps(k.rsplit("::", 1)[1]))
    return txt


# ------------------------------------------------------------------------------------------------ MIR rewriting

def _map_place(p, lo):
    p["local"] += lo
    for e in p["proj"]:
        if e["k"] == "index":
            e["local"] += lo


def _map_op(o, lo, po):
    k = o.get("k")
    if k in ("copy", "move"):
        _map_place(o["place"], lo)
    elif k == "const" and "promoted" in o:
        o["promoted"] += po


def _map_rv(rv, lo, po):
    k = rv["k"]
    if k in ("use", "repeat", "cast"):
        _map_op(rv["op"], lo, po)
    elif k in ("ref", "rawptr", "discr", "copyforderef"):
        _map_place(rv["place"], lo)
    elif k == "binop":
        _map_op(rv["a"], lo, po)
        _map_op(rv["b"], lo, po)
    elif k == "unop":
        _map_op(rv["a"], lo, po)
    elif k == "aggregate":
        for o in rv["ops"]:
            _map_op(o, lo, po)
    elif "place" in rv:
        _map_place(rv["place"], lo)


def _map_term(t, lo, po, bo):
    k = t["k"]
    for key in ("target", "otherwise", "unwind"):
        if isinstance(t.get(key), int) and not isinstance(t.get(key), bool):
            t[key] += bo
    if k == "switch":
        t["targets"] = [[v, b + bo] for v, b in t["targets"]]
        _map_op(t["discr"], lo, po)
    elif k == "call":
        for a in t["args"]:
            _map_op(a, lo, po)
        if isinstance(t.get("func"), dict):
            _map_op(t["func"], lo, po)
        _map_place(t["dest"], lo)
    elif k == "assert":
        _map_op(t["cond"], lo, po)
        for o in t.get("ops", []):
            _map_op(o, lo, po)
    elif k == "drop":
        _map_place(t["place"], lo)


def _rename_place(p, a, b):
    if p["local"] == a:
        p["local"] = b
    for e in p["proj"]:
        if e["k"] == "index" and e["local"] == a:
            e["local"] = b


def _rename_op(o, a, b):
    if o.get("k") in ("copy", "move"):
        _rename_place(o["place"], a, b)


def _rename_local(blocks, a, b):
    for blk in blocks:
        for s in blk["stmts"]:
            _rename_place(s["place"], a, b)
            if s["k"] == "assign":
                rv = s["rv"]
                for key in ("op", "a", "b"):
                    if isinstance(rv.get(key), dict):
                        _rename_op(rv[key], a, b)
                if isinstance(rv.get("place"), dict):
                    _rename_place(rv["place"], a, b)
                for o in rv.get("ops", []) or []:
                    _rename_op(o, a, b)
        t = blk["term"]
        if t["k"] == "switch":
            _rename_op(t["discr"], a, b)
        elif t["k"] == "call":
            for o in t["args"]:
                _rename_op(o, a, b)
            _rename_place(t["dest"], a, b)
        elif t["k"] == "assert":
            _rename_op(t["cond"], a, b)
            for o in t.get("ops", []):
                _rename_op(o, a, b)
        elif t["k"] == "drop":
            _rename_place(t["place"], a, b)


def _mentions_local(o, l):
    return o.get("k") in ("copy", "move") and (o["place"]["local"] == l or any(e["k"] == "index" and e["local"] == l for e in o["place"]["proj"]))


def _return_slot(km):
    """if the callee's `_0` is defined once, as a whole-local move/copy of a non-argument local X of the same type at
    the end of a block that leads straight to `return`, rename X to `_0` (named return value)"""
    defs = []
    for bi, b in enumerate(km["blocks"]):
        for si, s in enumerate(b["stmts"]):
            if s["place"]["local"] == 0:
                defs.append((bi, si, s))
        if b["term"]["k"] == "call" and b["term"]["dest"]["local"] == 0:
            defs.append((bi, "term", b["term"]))
    if len(defs) != 1 or defs[0][1] == "term":
        return
    bi, si, s = defs[0]
    if s["k"] != "assign" or s["place"]["proj"] or s["rv"]["k"] != "use" or s["rv"]["op"].get("k") not in ("move", "copy") or s["rv"]["op"]["place"]["proj"]:
        return
    x = s["rv"]["op"]["place"]["local"]
    if x <= km["argc"] or km["locals"][x]["ty"] != km["locals"][0]["ty"] or si != len(km["blocks"][bi]["stmts"]) - 1:
        return
    cur = bi
    for _ in range(8):
        t = km["blocks"][cur]["term"]
        if t["k"] == "return":
            break
        if t["k"] != "goto" or (cur != bi and km["blocks"][cur]["stmts"]):
            return
        cur = t["target"]
    else:
        return
    del km["blocks"][bi]["stmts"][si]
    _rename_local(km["blocks"], x, 0)


def inline_call(caller, bi, callee):
    """inline `callee` (body dict) at the call terminating block `bi` of `caller` (body dict)"""
    cm = caller["mir"]
    t = cm["blocks"][bi]["term"]
    km = copy.deepcopy(callee["mir"])
    _return_slot(km)
    lo = len(cm["locals"])
    bo = len(cm["blocks"])
    po = len(caller.get("promoted") or [])
    line = t.get("l", 0)
    if callee.get("promoted"):
        caller.setdefault("promoted", [])
        caller["promoted"].extend(copy.deepcopy(callee["promoted"]))
    cm["locals"].extend(km["locals"])
    for dbg in km.get("dbg", []):
        _map_place(dbg["place"], lo)
        cm["dbg"].append({"name": dbg["name"] + "'", "place": dbg["place"]})
    # continuation
    cont = t.get("target")
    dest = t["dest"]
    join = None
    for b in km["blocks"]:
        for s in b["stmts"]:
            _map_place(s["place"], lo)
            if s["k"] == "assign":
                _map_rv(s["rv"], lo, po)
        _map_term(b["term"], lo, po, bo)
    for b in km["blocks"]:
        if b["term"]["k"] == "return" and not b.get("cleanup"):
            if join is None:
                join = bo + len(km["blocks"])
            b["term"] = {"k": "goto", "target": join, "l": b["term"].get("l", line), "x": False}
    # write the callee's return value directly into the destination when that is a plain local the call cannot alias
    direct = (not dest["proj"] and not any(_mentions_local(a, dest["local"]) for a in t["args"])
              and cm["locals"][dest["local"]]["ty"] == km["locals"][0]["ty"])
    if direct:
        _rename_local(km["blocks"], lo, dest["local"])
    cm["blocks"].extend(km["blocks"])
    if join is not None and direct:
        cm["blocks"].append({"stmts": [], "term": ({"k": "goto", "target": cont, "l": line, "x": False} if cont is not None else {"k": "unreachable", "l": line}), "cleanup": False})
    elif join is not None:
        jb = {"stmts": [{"k": "assign", "place": copy.deepcopy(dest), "rv": {"k": "use", "op": {"k": "move", "place": {"local": lo, "proj": []}}}, "l": line, "x": False}],
              "term": ({"k": "goto", "target": cont, "l": line, "x": False} if cont is not None else {"k": "unreachable", "l": line}), "cleanup": False}
        cm["blocks"].append(jb)
    # the call block: bind the arguments, jump to the callee's entry
    blk = cm["blocks"][bi]
    for j, a in enumerate(t["args"]):
        blk["stmts"].append({"k": "assign", "place": {"local": lo + 1 + j, "proj": []}, "rv": {"k": "use", "op": a}, "l": line, "x": False})
    blk["term"] = {"k": "goto", "target": bo, "l": line, "x": False}
    return join


def _succs(t):
    k = t["k"]
    if k == "goto":
        return [t["target"]]
    if k == "switch":
        return [b for _, b in t["targets"]] + [t["otherwise"]]
    if k in ("call", "drop", "assert"):
        return [t["target"]] if t.get("target") is not None else []
    return []


def _retarget(t, old, new):
    k = t["k"]
    if k == "switch":
        t["targets"] = [[v, (new if b == old else b)] for v, b in t["targets"]]
        if t["otherwise"] == old:
            t["otherwise"] = new
    elif t.get("target") == old:
        t["target"] = new


RESULT = "result::Result"


def _known_variant_at_end(blk, local):
    """variant name ('Ok'/'Err') if the block's last assignment to `local` is a Result aggregate"""
    v = None
    for s in blk["stmts"]:
        if s["place"]["local"] == local:
            if s["k"] == "assign" and not s["place"]["proj"] and s["rv"]["k"] == "aggregate" and (s["rv"].get("adt") or "").endswith(RESULT):
                v = s["rv"].get("variant_name")
            else:
                v = None
    t = blk["term"]
    if t["k"] == "call" and t["dest"]["local"] == local:
        v = None
    return v


VARIANT_NO = {"Ok": 0, "Err": 1}
OPTION_NO = {"None": 0, "Some": 1}


def _transfer(blk, st):
    """abstract state {local: discriminant value} through a block; returns the out-state"""
    st = dict(st)
    for s in blk["stmts"]:
        pl = s["place"]
        l = pl["local"]
        if s["k"] == "assign" and not pl["proj"]:
            rv = s["rv"]
            if rv["k"] == "aggregate" and (rv.get("adt") or "").endswith(RESULT) and rv.get("variant_name") in VARIANT_NO:
                st[l] = VARIANT_NO[rv["variant_name"]]
                continue
            if rv["k"] == "aggregate" and (rv.get("adt") or "").endswith("option::Option") and rv.get("variant_name") in OPTION_NO:
                st[l] = OPTION_NO[rv["variant_name"]]
                continue
            if rv["k"] == "use" and rv["op"].get("k") in ("move", "copy") and not rv["op"]["place"]["proj"] and rv["op"]["place"]["local"] in st:
                st[l] = st[rv["op"]["place"]["local"]]
                continue
            # a boolean (or small integer) constant: `a || b` / `a && b` leave one on their short-circuit edge
            if rv["k"] == "use" and rv["op"].get("k") == "const" and isinstance(rv["op"].get("val"), int) and not isinstance(rv["op"].get("val"), bool) and 0 <= rv["op"]["val"] <= 1:
                st[l] = ("c", rv["op"]["val"])
                continue
        st.pop(l, None)
    t = blk["term"]
    if t["k"] == "call":
        dl = t["dest"]["local"]
        v = None
        if (t["callee"].get("def") or "").endswith("ops::Try::branch") and not t["dest"]["proj"] and t["args"] and t["args"][0].get("k") in ("move", "copy") and not t["args"][0]["place"]["proj"]:
            v = st.get(t["args"][0]["place"]["local"])  # Ok -> Continue (0), Err -> Break (1)
        # `from_residual` of a `?` on a Result always produces Err(..)
        if v is None and (t["callee"].get("def") or "").endswith("ops::FromResidual::from_residual") and not t["dest"]["proj"] and "result::Result" in str(t["callee"].get("resolved") or ""):
            v = 1
        if v is not None:
            st[dl] = v
        else:
            st.pop(dl, None)
    return st


def _switch_subject(blk):
    """(local L, discr local) if the block ends in a switch on `discriminant(L)` computed in this block"""
    t = blk["term"]
    if t["k"] != "switch" or t["discr"].get("k") not in ("move", "copy") or t["discr"]["place"]["proj"]:
        return None
    dl = t["discr"]["place"]["local"]
    src = None
    for s in blk["stmts"]:
        if s["k"] == "assign" and s["place"]["local"] == dl and not s["place"]["proj"]:
            src = s["rv"]["place"]["local"] if (s["rv"]["k"] == "discr" and not s["rv"]["place"]["proj"]) else None
        elif src is not None and s["place"]["local"] == src:
            src = None
    return src


def thread_results(body, types=None, max_clones=400):
    """Forward jump threading on known Result / ControlFlow variants: trivial blocks reached with different known
    variants are duplicated per variant, and discriminant switches on a known variant become gotos."""
    m = body["mir"]
    blocks = m["blocks"]
    clones = 0
    changed_any = False
    cloned_defs = set()

    def two_variant(l):
        if types is None:
            return False
        s = types[m["locals"][l]["ty"]].get("s", "")
        return s.startswith("std::result::Result<") or s.startswith("std::ops::ControlFlow<") or s.startswith("std::option::Option<")

    for _ in range(600):
        # forward must-analysis, edge-sensitive at discriminant switches
        n = len(blocks)
        preds = [[] for _ in range(n)]
        for i, b in enumerate(blocks):
            for x in set(_succs(b["term"])):
                preds[x].append(i)
        IN = [None] * n
        EOUT = {}
        IN[0] = {}
        work = [0]
        seen_out = {}
        while work:
            i = work.pop()
            o = _transfer(blocks[i], IN[i])
            if seen_out.get(i) == o:
                continue
            seen_out[i] = o
            subj = _switch_subject(blocks[i])
            t = blocks[i]["term"]
            for x in set(_succs(t)):
                oe = o
                if subj is not None and two_variant(subj):
                    vals = [v for v, bb in t["targets"] if bb == x]
                    if x != t["otherwise"] and len(vals) == 1:
                        oe = dict(o)
                        oe[subj] = vals[0]
                    elif x == t["otherwise"] and not vals and sorted(v for v, _ in t["targets"]) in ([0], [1]):
                        oe = dict(o)
                        oe[subj] = 1 - t["targets"][0][0]
                EOUT[(i, x)] = oe
                if IN[x] is None:
                    IN[x] = dict(oe)
                    work.append(x)
                else:
                    meet = {k: v for k, v in IN[x].items() if oe.get(k) == v}
                    if meet != IN[x]:
                        IN[x] = meet
                        work.append(x)
        changed = False
        # resolve switches on locals holding a known constant
        for i, b in enumerate(blocks):
            if IN[i] is None:
                continue
            t = b["term"]
            if t["k"] != "switch" or t["discr"].get("k") not in ("move", "copy") or t["discr"]["place"]["proj"]:
                continue
            st2 = _transfer({"stmts": b["stmts"], "term": {"k": "goto", "target": 0}}, IN[i])
            v = st2.get(t["discr"]["place"]["local"])
            if isinstance(v, tuple) and v[0] == "c" and len(set(_succs(t))) > 1:
                tgt = next((bb for vv, bb in t["targets"] if vv == v[1]), t["otherwise"])
                b["term"] = {"k": "goto", "target": tgt, "l": t.get("l", 0), "x": False}
                changed = True
        if changed:
            changed_any = True
            continue
        # resolve switches on known discriminants
        for i, b in enumerate(blocks):
            if IN[i] is None:
                continue
            subj = _switch_subject(b)
            if subj is None:
                continue
            t = b["term"]
            st = dict(IN[i])
            for s in b["stmts"]:
                st = _transfer({"stmts": [s], "term": {"k": "goto", "target": 0}}, st)
                if s["k"] == "assign" and s["rv"]["k"] == "discr":
                    break
            # value of the subject when its discriminant was read
            val = None
            st2 = dict(IN[i])
            for s in b["stmts"]:
                if s["k"] == "assign" and s["rv"]["k"] == "discr" and s["rv"]["place"]["local"] == subj and s["place"]["local"] == t["discr"]["place"]["local"]:
                    val = st2.get(subj)
                st2 = _transfer({"stmts": [s], "term": {"k": "goto", "target": 0}}, st2)
            if val is not None and not isinstance(val, tuple):
                tgt = next((bb for vv, bb in t["targets"] if vv == val), t["otherwise"])
                if len(set(_succs(t))) > 1:
                    b["term"] = {"k": "goto", "target": tgt, "l": t.get("l", 0), "x": False}
                    changed = True
        if changed:
            changed_any = True
            continue
        # split trivial join blocks whose predecessors disagree on a known variant that matters downstream
        for i, b in enumerate(blocks):
            if i == 0 or IN[i] is None or len(preds[i]) < 2 or b.get("cleanup") or len(b["stmts"]) > 3:
                continue
            t = b["term"]
            if not (t["k"] in ("goto", "switch", "return") or (t["k"] == "call" and (t["callee"].get("def") or "").endswith(("ops::Try::branch", "ops::FromResidual::from_residual")))):
                continue
            rel = _relevant_locals(blocks, i, preds)
            if not rel:
                continue
            groups = {}
            for p in preds[i]:
                if (p, i) not in EOUT:
                    continue
                key = tuple(sorted((k, v) for k, v in EOUT[(p, i)].items() if k in rel))
                groups.setdefault(key, []).append(p)
            if len(groups) < 2 or not any(k for k in groups):
                continue
            keys = sorted(groups, key=lambda k: -len(groups[k]))
            for k in keys[1:]:
                if clones >= max_clones:
                    break
                ni = len(blocks)
                blocks.append(copy.deepcopy(b))
                clones += 1
                cloned_defs |= _locals_mentioned(b)
                for p in groups[k]:
                    _retarget(blocks[p]["term"], i, ni)
                changed = True
            if changed:
                break
        if not changed:
            break
        changed_any = True
    if cloned_defs:
        for _ in range(6):
            before = len(m["locals"])
            split_locals(m, cloned_defs)
            if len(m["locals"]) == before:
                break
    return changed_any


def _locals_mentioned(b):
    out = set()

    def rec(x):
        if isinstance(x, dict):
            if "local" in x and isinstance(x["local"], int):
                out.add(x["local"])
            for v in x.values():
                rec(v)
        elif isinstance(x, list):
            for v in x:
                rec(v)
    rec(b["stmts"])
    rec(b["term"])
    return out


def _uses_in_block(b, l):
    """ordered events of local l in a block: ('def'|'use', position) — whole-local defs only count as defs"""
    ev = []
    for si, s in enumerate(b["stmts"]):
        used = False
        if s["k"] == "assign":
            probe = copy.deepcopy(s["rv"])
            holder = {"stmts": [{"k": "assign", "place": {"local": -1, "proj": []}, "rv": probe}], "term": {"k": "return"}}
            _rename_local([holder], l, -2)
            used = json.dumps(probe, sort_keys=True) != json.dumps(s["rv"], sort_keys=True)
        pl = s["place"]
        if pl["local"] == l and pl["proj"]:
            used = True
        if any(e["k"] == "index" and e["local"] == l for e in pl["proj"]):
            used = True
        if used:
            ev.append(("use", si))
        if pl["local"] == l and not pl["proj"]:
            ev.append(("def", si))
    t = b["term"]
    probe = copy.deepcopy(t)
    probe_dest = probe.get("dest")
    if probe_dest is not None:
        probe["dest"] = {"local": -1, "proj": [e for e in probe_dest["proj"]]}
    holder = {"stmts": [], "term": probe}
    _rename_local([holder], l, -2)
    ref = copy.deepcopy(t)
    if ref.get("dest") is not None:
        ref["dest"] = {"local": -1, "proj": [e for e in ref["dest"]["proj"]]}
    if json.dumps(probe, sort_keys=True) != json.dumps(ref, sort_keys=True):
        ev.append(("use", 10 ** 6))
    if t["k"] == "call":
        if t["dest"]["local"] == l and not t["dest"]["proj"]:
            ev.append(("def", 10 ** 6 + 1))
        elif t["dest"]["local"] == l:
            ev.append(("use", 10 ** 6))
    return ev


def split_locals(m, candidates):
    """give each definition of a multiply-defined local its own name when every use is reached by exactly one of them
    (the situation block duplication creates); address-taken locals are left alone"""
    blocks = m["blocks"]
    n = len(blocks)
    succ = [sorted(set(_succs(b["term"]))) for b in blocks]
    # reachability (small functions: simple DFS per needed block)
    reach_cache = {}

    def reach(a):
        if a not in reach_cache:
            seen = set()
            st = list(succ[a])
            while st:
                x = st.pop()
                if x in seen:
                    continue
                seen.add(x)
                st.extend(succ[x])
            reach_cache[a] = seen
        return reach_cache[a]

    # dominators
    preds = [[] for _ in range(n)]
    for i in range(n):
        for x in succ[i]:
            preds[x].append(i)
    live = {0} | reach(0)
    dom = {b: set(live) for b in live}
    dom[0] = {0}
    ch = True
    while ch:
        ch = False
        for b in sorted(live):
            if b == 0:
                continue
            ps = [p for p in preds[b] if p in live]
            if not ps:
                continue
            nd = set.intersection(*[dom[p] for p in ps]) | {b}
            if nd != dom[b]:
                dom[b] = nd
                ch = True
    for l in sorted(candidates):
        if l == 0 or l <= m["argc"]:
            continue
        # address-taken?
        taken = False
        events = {}
        for bi in live:
            b = blocks[bi]
            for s in b["stmts"]:
                if s["k"] == "assign" and s["rv"]["k"] in ("ref", "rawptr") and s["rv"]["place"]["local"] == l:
                    taken = True
            ev = _uses_in_block(b, l)
            if ev:
                events[bi] = ev
        if taken:
            continue
        defs = [(bi, pos) for bi, ev in events.items() for (k, pos) in ev if k == "def"]
        if len(defs) < 2 or len({bi for bi, _ in defs}) != len(defs):
            continue
        defblocks = [bi for bi, _ in defs]
        # uses reached by exactly one definition
        owner = {}
        for bi, ev in events.items():
            for (k, pos) in ev:
                if k != "use":
                    continue
                own = []
                for (db, dpos) in defs:
                    if (db == bi and dpos < pos) or (db != bi and db in dom.get(bi, ())):
                        clean = True
                        for ob in defblocks:
                            if ob == db:
                                continue
                            if ob in reach(db) and (bi in reach(ob) or ob == bi):
                                clean = False
                        if db != bi and bi in defblocks:
                            dpos2 = [p2 for (b2, p2) in defs if b2 == bi][0]
                            if dpos2 < pos:
                                clean = False
                        if clean:
                            own.append(db)
                    elif db in reach(0) and (bi in reach(db) or db == bi):
                        # a definition that may reach this use without dominating it: the use is shared
                        own.append(None)
                if len(own) == 1 and own[0] is not None:
                    owner[(bi, pos)] = own[0]
        for (db, dpos) in defs:
            mine = [(bi, pos) for (bi, pos), o in owner.items() if o == db]
            if not mine:
                continue
            nl = len(m["locals"])
            m["locals"].append(dict(m["locals"][l]))
            # the definition now writes the fresh local; the old name keeps receiving the value for shared uses
            blk = blocks[db]
            copy_stmt = {"k": "assign", "place": {"local": l, "proj": []}, "rv": {"k": "use", "op": {"k": "copy", "place": {"local": nl, "proj": []}}}, "l": 0, "x": False}
            if dpos == 10 ** 6 + 1:
                tgt = blk["term"].get("target")
                if tgt is None or len(preds[tgt]) != 1:
                    m["locals"].pop()
                    continue
                blk["term"]["dest"]["local"] = nl
                blocks[tgt]["stmts"].insert(0, copy_stmt)
                shift_block, shift_from = tgt, 0
            else:
                blk["stmts"][dpos]["place"]["local"] = nl
                blk["stmts"].insert(dpos + 1, copy_stmt)
                shift_block, shift_from = db, dpos + 1
            for (bi, pos) in mine:
                b2 = blocks[bi]
                if pos == 10 ** 6:
                    t = b2["term"]
                    dsave = copy.deepcopy(t.get("dest")) if t.get("dest") is not None else None
                    _rename_local([{"stmts": [], "term": t}], l, nl)
                    if dsave is not None and dsave["local"] == l and not dsave["proj"]:
                        t["dest"] = dsave
                else:
                    si = pos + (1 if (bi == shift_block and pos >= shift_from) else 0)
                    st = b2["stmts"][si]
                    keep_def = st["place"]["local"] == l and not st["place"]["proj"]
                    _rename_local([{"stmts": [st], "term": {"k": "return"}}], l, nl)
                    if keep_def:
                        st["place"]["local"] = l
            # positions in this block moved by one: recompute the event table for the next definition
            events = {}
            for bi in live:
                ev = _uses_in_block(blocks[bi], l)
                if ev:
                    events[bi] = ev
            defs2 = [(bi, pos) for bi, ev in events.items() for (k, pos) in ev if k == "def"]
            # after the first split the bookkeeping of positions is stale: handle one definition per call
            break


def _relevant_locals(blocks, i, preds):
    """locals whose Result/ControlFlow variant decides a discriminant switch at the end of the straight-line chain of
    trivial blocks starting at block i"""
    chain = []
    cur = i
    for _ in range(8):
        b = blocks[cur]
        chain.append(cur)
        t = b["term"]
        if t["k"] in ("switch", "return"):
            break
        nxt = t.get("target") if t["k"] in ("goto", "call") else None
        if nxt is None or len(b["stmts"]) > 3 or len(preds[nxt]) != 1:
            if t["k"] != "switch":
                # the next block has other predecessors: it can still be split in a later round once this one is
                if nxt is not None and len(blocks[nxt]["stmts"]) <= 3:
                    chain.append(nxt)
                    cur = nxt
                    if blocks[nxt]["term"]["k"] in ("switch", "return"):
                        break
                    continue
            break
        cur = nxt
    last = blocks[chain[-1]]
    if last["term"]["k"] != "switch" or last["term"]["discr"].get("k") not in ("move", "copy"):
        # not (yet) leading to a switch: relevant if it leads to a Try::branch or a trivial goto chain
        pass
    rel = set()
    # backward over the chain
    want = set()
    t = last["term"]
    first = blocks[i]
    if first["term"]["k"] == "call" and (first["term"]["callee"].get("def") or "").endswith("ops::FromResidual::from_residual"):
        # the Break arm of a `?`: worth its own copy per error that can arrive here
        for s in first["stmts"]:
            if s["k"] == "assign" and s["rv"]["k"] == "use" and s["rv"]["op"].get("k") in ("move", "copy"):
                pr = s["rv"]["op"]["place"]["proj"]
                if pr and pr[0]["k"] == "downcast":
                    want.add(s["rv"]["op"]["place"]["local"])
        return want
    if t["k"] == "switch" and t["discr"].get("k") in ("move", "copy"):
        want.add(t["discr"]["place"]["local"])
    if t["k"] == "return":
        want.add(0)
    for ci in reversed(chain):
        b = blocks[ci]
        tt = b["term"]
        if tt["k"] == "call" and tt["dest"]["local"] in want and tt["args"] and tt["args"][0].get("k") in ("move", "copy"):
            want.discard(tt["dest"]["local"])
            want.add(tt["args"][0]["place"]["local"])
        for s in reversed(b["stmts"]):
            if s["k"] != "assign" or s["place"]["proj"]:
                continue
            l = s["place"]["local"]
            if l in want:
                rv = s["rv"]
                if rv["k"] == "discr":
                    want.discard(l)
                    want.add(rv["place"]["local"])
                elif rv["k"] == "use" and rv["op"].get("k") in ("move", "copy") and not rv["op"]["place"]["proj"]:
                    want.discard(l)
                    want.add(rv["op"]["place"]["local"])
                else:
                    want.discard(l)
    return want


def _pred_counts(blocks):
    n = {}
    for b in blocks:
        for s in set(_succs(b["term"])):
            n[s] = n.get(s, 0) + 1
    return n


# ------------------------------------------------------------------------------------------------ references to locals

def eliminate_local_refs(body):
    """`p = &mut L; .. (*p).f = v ..` with p defined once and only ever dereferenced is `L.f = v`: rewrite every `(*p)`
    into `L` and drop p. This is what remains of `helper(&mut local)` after the helper was inlined; without it the
    local looks address-taken and every analysis has to treat its value as unknown."""
    m = body["mir"]
    blocks = m["blocks"]
    changed_any = False
    for _ in range(6):
        defs = {}
        for bi, b in enumerate(blocks):
            for si, st in enumerate(b["stmts"]):
                defs.setdefault(st["place"]["local"], []).append((bi, si, st)) if not st["place"]["proj"] else None
            t = b["term"]
            if t["k"] == "call" and not t["dest"]["proj"]:
                defs.setdefault(t["dest"]["local"], []).append((bi, "term", t))
        target = {}
        for l, ds in defs.items():
            if l <= m["argc"] or len(ds) != 1 or ds[0][1] == "term":
                continue
            st = ds[0][2]
            if st["k"] != "assign":
                continue
            rv = st["rv"]
            if rv["k"] == "ref" and all(e["k"] == "field" for e in rv["place"]["proj"]) and rv["place"]["local"] != l:
                target[l] = copy.deepcopy(rv["place"])
        # copies of such a reference (argument binding of an inlined helper): q = move p
        alias_defs = {}
        for _r in range(4):
            grew = False
            for l, ds in defs.items():
                if l in target or l <= m["argc"] or len(ds) != 1 or ds[0][1] == "term":
                    continue
                st = ds[0][2]
                if st["k"] == "assign" and st["rv"]["k"] == "use" and st["rv"]["op"].get("k") in ("move", "copy") and not st["rv"]["op"]["place"]["proj"] \
                        and st["rv"]["op"]["place"]["local"] in target and m["locals"][l]["ty"] == m["locals"][st["rv"]["op"]["place"]["local"]]["ty"]:
                    target[l] = copy.deepcopy(target[st["rv"]["op"]["place"]["local"]])
                    alias_defs[id(st)] = st["rv"]["op"]["place"]["local"]
                    grew = True
            if not grew:
                break
        if not target:
            break
        # every other mention of p must be a dereference
        bad = set()

        def visit_place(pl, is_def_of=None):
            l = pl["local"]
            if l in target and not (pl["proj"] and pl["proj"][0]["k"] == "deref"):
                if is_def_of != l:
                    bad.add(l)
            for e in pl["proj"]:
                if e["k"] == "index" and e["local"] in target:
                    bad.add(e["local"])

        def visit(x, is_def_of=None):
            if isinstance(x, dict):
                if "local" in x and "proj" in x and isinstance(x["proj"], list):
                    visit_place(x, is_def_of)
                    return
                for v in x.values():
                    visit(v)
            elif isinstance(x, list):
                for v in x:
                    visit(v)
        for b in blocks:
            for st in b["stmts"]:
                visit_place(st["place"], st["place"]["local"] if not st["place"]["proj"] else None)
                if st["k"] == "assign" and id(st) not in alias_defs:
                    visit(st["rv"])
            visit(b["term"])
        # an alias is only as good as the reference it copies
        for _r in range(4):
            for st_id, src in list(alias_defs.items()):
                pass
            for b in blocks:
                for st in b["stmts"]:
                    if id(st) in alias_defs and alias_defs[id(st)] in bad:
                        bad.add(st["place"]["local"])
                    # and a reference whose copy escapes (is used other than by dereference) must stay
                    if id(st) in alias_defs and st["place"]["local"] in bad:
                        bad.add(alias_defs[id(st)])
        # the referent must not be a candidate itself (no chains in one round) and partial writes to a referent that is
        # itself eliminated would be lost
        target = {p: pl for p, pl in target.items() if p not in bad and pl["local"] not in target}
        if not target:
            break

        def rewrite_place(pl):
            l = pl["local"]
            if l in target and pl["proj"] and pl["proj"][0]["k"] == "deref":
                tp = target[l]
                pl["local"] = tp["local"]
                pl["proj"] = copy.deepcopy(tp["proj"]) + pl["proj"][1:]

        def rewrite(x):
            if isinstance(x, dict):
                if "local" in x and "proj" in x and isinstance(x["proj"], list):
                    rewrite_place(x)
                    return
                for v in x.values():
                    rewrite(v)
            elif isinstance(x, list):
                for v in x:
                    rewrite(v)
        for b in blocks:
            keep = []
            for st in b["stmts"]:
                if not st["place"]["proj"] and st["place"]["local"] in target:
                    continue  # the definition of an eliminated reference
                rewrite_place(st["place"])
                if st["k"] == "assign":
                    rewrite(st["rv"])
                keep.append(st)
            b["stmts"] = keep
            rewrite(b["term"])
        changed_any = True
    return changed_any


# ------------------------------------------------------------------------------------------------ is_ok / is_err

def rewrite_is_ok(d):
    """`if r.is_ok()` / `if r.is_err()` on a Result held in a local is a test of its discriminant: rewrite the boolean
    switch into a discriminant switch (the form `match r { Ok(..) => .., Err(..) => .. }` has), so that every analysis
    sees the same Ok/Err edges for both spellings."""
    isize_ty = next((i for i, t in enumerate(d["types"]) if t.get("s") == "isize"), None)
    if isize_ty is None:
        return 0
    n = 0
    for b in d["bodies"]:
        if "mir" not in b:
            continue
        m = b["mir"]
        blocks = m["blocks"]
        npred = _pred_counts(blocks)
        for blk in list(blocks):
            t = blk["term"]
            if t["k"] != "call" or t.get("target") is None or t["dest"]["proj"]:
                continue
            nm = t["callee"].get("def") or ""
            if not (nm.endswith("result::Result::<T, E>::is_ok") or nm.endswith("result::Result::<T, E>::is_err")):
                continue
            if not t["args"] or t["args"][0].get("k") not in ("move", "copy") or t["args"][0]["place"]["proj"]:
                continue
            rl = t["args"][0]["place"]["local"]
            # the reference must have been taken in this block from a whole local
            src = None
            for s in blk["stmts"]:
                if s["k"] == "assign" and s["place"]["local"] == rl and not s["place"]["proj"]:
                    src = s["rv"]["place"] if (s["rv"]["k"] == "ref" and not s["rv"]["place"]["proj"]) else None
            if src is None:
                continue
            nb = blocks[t["target"]]
            st = nb["term"]
            if npred.get(t["target"], 0) != 1 or st["k"] != "switch" or st["discr"].get("k") not in ("move", "copy") or st["discr"]["place"]["proj"] or st["discr"]["place"]["local"] != t["dest"]["local"]:
                continue
            if any(s["place"]["local"] in (src["local"], t["dest"]["local"]) for s in nb["stmts"]):
                continue
            # boolean switch: targets [[0, F]] otherwise T
            if [v for v, _ in st["targets"]] != [0]:
                continue
            f_t, t_t = st["targets"][0][1], st["otherwise"]
            dl = len(m["locals"])
            m["locals"].append({"ty": isize_ty, "mut": True})
            nb["stmts"].append({"k": "assign", "place": {"local": dl, "proj": []}, "rv": {"k": "discr", "place": {"local": src["local"], "proj": []}}, "l": st.get("l", 0), "x": False})
            is_ok = nm.endswith("is_ok")
            ok_t, err_t = (t_t, f_t) if is_ok else (f_t, t_t)
            nb["term"] = {"k": "switch", "discr": {"k": "move", "place": {"local": dl, "proj": []}}, "targets": [[0, ok_t]], "otherwise": err_t, "l": st.get("l", 0), "x": False}
            n += 1
    return n


def thread_all(d):
    n = 0
    for b in d["bodies"]:
        if "mir" in b and b.get("kind") in ("Fn", "AssocFn", "Closure"):
            if thread_results(b, d["types"]):
                n += 1
    return n


# ------------------------------------------------------------------------------------------------ ok_or

def rewrite_ok_or(d):
    """`opt.ok_or(e)` is `match opt { Some(x) => Ok(x), None => Err(e) }` (the error value is an operand, already
    evaluated). Rewriting the call into that match lets the jump threading resolve a following `?`, so both spellings
    have one normal form."""
    tys = d["types"]
    isize_ty = next((i for i, t in enumerate(tys) if t.get("s") == "isize"), None)
    if isize_ty is None:
        return 0
    n = 0
    for b in d["bodies"]:
        if "mir" not in b:
            continue
        m = b["mir"]
        for bi in range(len(m["blocks"])):
            blk = m["blocks"][bi]
            t = blk["term"]
            if t["k"] != "call" or blk.get("cleanup") or t.get("target") is None or t["dest"]["proj"] or len(t["args"]) != 2:
                continue
            if not (t["callee"].get("def") or "").endswith("option::Option::<T>::ok_or"):
                continue
            o, e = t["args"]
            if o.get("k") not in ("move", "copy") or o["place"]["proj"]:
                continue
            ol = o["place"]["local"]
            oty = tys[m["locals"][ol]["ty"]]
            if oty.get("k") != "adt" or not oty.get("adt", "").endswith("option::Option") or not oty.get("args"):
                continue
            pay_ty = oty["args"][0]
            line = t.get("l", 0)
            dl = len(m["locals"])
            pl = dl + 1
            m["locals"] += [{"ty": isize_ty, "mut": True}, {"ty": pay_ty, "mut": True}]
            some_b, none_b = len(m["blocks"]), len(m["blocks"]) + 1
            dest = copy.deepcopy(t["dest"])
            blk["stmts"].append({"k": "assign", "place": {"local": dl, "proj": []}, "rv": {"k": "discr", "place": {"local": ol, "proj": []}}, "l": line, "x": False})
            blk["term"] = {"k": "switch", "discr": {"k": "move", "place": {"local": dl, "proj": []}}, "targets": [[0, none_b]], "otherwise": some_b, "l": line, "x": False}
            pay_place = {"local": ol, "proj": [{"k": "downcast", "variant": 1, "name": "Some"}, {"k": "field", "i": 0, "name": "0", "ty": pay_ty}]}
            m["blocks"].append({"stmts": [
                {"k": "assign", "place": {"local": pl, "proj": []}, "rv": {"k": "use", "op": {"k": "move", "place": pay_place}}, "l": line, "x": False},
                {"k": "assign", "place": copy.deepcopy(dest), "rv": {"k": "aggregate", "agg": "adt", "adt": "std::result::Result", "variant": 0, "variant_name": "Ok", "field_names": ["0"], "ops": [{"k": "move", "place": {"local": pl, "proj": []}}]}, "l": line, "x": False}],
                "term": {"k": "goto", "target": t["target"], "l": line, "x": False}, "cleanup": False})
            m["blocks"].append({"stmts": [
                {"k": "assign", "place": copy.deepcopy(dest), "rv": {"k": "aggregate", "agg": "adt", "adt": "std::result::Result", "variant": 1, "variant_name": "Err", "field_names": ["0"], "ops": [copy.deepcopy(e)]}, "l": line, "x": False}],
                "term": {"k": "goto", "target": t["target"], "l": line, "x": False}, "cleanup": False})
            n += 1
    return n


# ------------------------------------------------------------------------------------------------ slice::get(range)

def rewrite_slice_get(d):
    """`x.get(..n)` / `x.get_mut(..n)` / `x.get(n..)` is `if n <= x.len() { Some(&x[..n]) } else { None }`: rewrite the call
    into that test and the Index call of the slicing syntax."""
    tys = d["types"]
    usize_ty = next((i for i, t in enumerate(tys) if t.get("s") == "usize"), None)
    bool_ty = next((i for i, t in enumerate(tys) if t.get("s") == "bool"), None)
    if usize_ty is None or bool_ty is None:
        return 0
    templ = {}
    for b in d["bodies"]:
        if "mir" not in b:
            continue
        for blk in b["mir"]["blocks"]:
            t = blk["term"]
            if t["k"] == "call" and t["callee"].get("def") in ("std::ops::Index::index", "std::ops::IndexMut::index_mut"):
                templ.setdefault((t["callee"]["def"], t["callee"].get("args")), (t["callee"], t.get("func")))
    n = 0
    for b in d["bodies"]:
        if "mir" not in b:
            continue
        m = b["mir"]
        for bi in range(len(m["blocks"])):
            blk = m["blocks"][bi]
            t = blk["term"]
            if t["k"] != "call" or blk.get("cleanup") or t.get("target") is None or t["dest"]["proj"] or len(t["args"]) != 2:
                continue
            dn = t["callee"].get("def") or ""
            if dn.endswith("slice::<impl [T]>::get"):
                idx_def = "std::ops::Index::index"
            elif dn.endswith("slice::<impl [T]>::get_mut"):
                idx_def = "std::ops::IndexMut::index_mut"
            else:
                continue
            args_s = t["callee"].get("args") or ""
            if not (args_s.startswith("[") and args_s.endswith("]") and ", " in args_s):
                continue
            elem, rng_s = args_s[1:-1].split(", ", 1)
            if rng_s == "std::ops::RangeTo<usize>":
                fld, kind = "end", "to"
            elif rng_s == "std::ops::RangeFrom<usize>":
                fld, kind = "start", "from"
            else:
                continue
            key = (idx_def, "[[%s], %s]" % (elem, rng_s))
            x, r = t["args"]
            if key not in templ or x.get("k") not in ("move", "copy") or x["place"]["proj"] or r.get("k") not in ("move", "copy") or r["place"]["proj"]:
                continue
            xt = m["locals"][x["place"]["local"]]["ty"]
            line = t.get("l", 0)
            base = len(m["locals"])
            len_l, c_l, s_l = base, base + 1, base + 2
            m["locals"] += [{"ty": usize_ty, "mut": True}, {"ty": bool_ty, "mut": True}, {"ty": xt, "mut": True}]
            some_b, none_b, some2 = len(m["blocks"]), len(m["blocks"]) + 1, len(m["blocks"]) + 2
            xc = copy.deepcopy(x)
            xc["k"] = "copy"
            bound = {"k": "copy", "place": {"local": r["place"]["local"], "proj": [{"k": "field", "i": 0, "name": fld, "ty": usize_ty}]}}
            blk["stmts"].append({"k": "assign", "place": {"local": len_l, "proj": []}, "rv": {"k": "unop", "op": "PtrMetadata", "a": copy.deepcopy(xc)}, "l": line, "x": False})
            blk["stmts"].append({"k": "assign", "place": {"local": c_l, "proj": []}, "rv": {"k": "binop", "op": "Le", "a": bound, "b": {"k": "copy", "place": {"local": len_l, "proj": []}}}, "l": line, "x": False})
            dest = copy.deepcopy(t["dest"])
            c, f = templ[key]
            blk["term"] = {"k": "switch", "discr": {"k": "move", "place": {"local": c_l, "proj": []}}, "targets": [[0, none_b]], "otherwise": some_b, "l": line, "x": False}
            m["blocks"].append({"stmts": [], "term": {"k": "call", "callee": copy.deepcopy(c), "func": copy.deepcopy(f), "args": [copy.deepcopy(x), copy.deepcopy(r)],
                                                      "dest": {"local": s_l, "proj": []}, "target": some2, "unwind": t.get("unwind"), "l": line, "x": False}, "cleanup": False})
            m["blocks"].append({"stmts": [{"k": "assign", "place": copy.deepcopy(dest), "rv": {"k": "aggregate", "agg": "adt", "adt": "std::option::Option", "variant": 0, "variant_name": "None", "field_names": [], "ops": []}, "l": line, "x": False}],
                                "term": {"k": "goto", "target": t["target"], "l": line, "x": False}, "cleanup": False})
            m["blocks"].append({"stmts": [{"k": "assign", "place": copy.deepcopy(dest), "rv": {"k": "aggregate", "agg": "adt", "adt": "std::option::Option", "variant": 1, "variant_name": "Some", "field_names": ["0"], "ops": [{"k": "move", "place": {"local": s_l, "proj": []}}]}, "l": line, "x": False}],
                                "term": {"k": "goto", "target": t["target"], "l": line, "x": False}, "cleanup": False})
            n += 1
    return n


# ------------------------------------------------------------------------------------------------ split_at

def rewrite_split_at(d):
    """`let (a, b) = x.split_at(n)` is `(&x[..n], &x[n..])` — same values, same panic condition. Rewrite the call into
    the two Index calls the slicing syntax produces, so every analysis of slices (cursor discipline, length proofs,
    descriptors) sees one spelling."""
    tys = d["types"]
    t_to = next((i for i, t in enumerate(tys) if t.get("s") == "std::ops::RangeTo<usize>"), None)
    t_from = next((i for i, t in enumerate(tys) if t.get("s") == "std::ops::RangeFrom<usize>"), None)
    if t_to is None or t_from is None:
        return 0
    templ = {}
    for b in d["bodies"]:
        if "mir" not in b:
            continue
        for blk in b["mir"]["blocks"]:
            t = blk["term"]
            if t["k"] == "call" and t["callee"].get("def") == "std::ops::Index::index":
                templ.setdefault(t["callee"].get("args"), (t["callee"], t.get("func")))
    n = 0
    for b in d["bodies"]:
        if "mir" not in b:
            continue
        m = b["mir"]
        for bi in range(len(m["blocks"])):
            blk = m["blocks"][bi]
            t = blk["term"]
            if t["k"] != "call" or blk.get("cleanup") or t.get("target") is None or t["dest"]["proj"]:
                continue
            if not (t["callee"].get("def") or "").endswith("slice::<impl [T]>::split_at") or len(t["args"]) != 2:
                continue
            elem = t["callee"].get("args")
            k_to = "[%s, std::ops::RangeTo<usize>]" % elem
            k_from = "[%s, std::ops::RangeFrom<usize>]" % elem
            x, nn = t["args"]
            if k_to not in templ or k_from not in templ or x.get("k") not in ("move", "copy") or x["place"]["proj"]:
                continue
            xt = m["locals"][x["place"]["local"]]["ty"]
            line = t.get("l", 0)

            def cp(o):
                o = copy.deepcopy(o)
                if o.get("k") == "move":
                    o["k"] = "copy"
                return o
            base = len(m["locals"])
            a_l, b_l, r1, r2 = base, base + 1, base + 2, base + 3
            m["locals"] += [{"ty": xt, "mut": True}, {"ty": xt, "mut": True}, {"ty": t_to, "mut": True}, {"ty": t_from, "mut": True}]
            k2, k3 = len(m["blocks"]), len(m["blocks"]) + 1

            def rng(adt, vn, fld, op):
                return {"k": "aggregate", "agg": "adt", "adt": adt, "variant": 0, "variant_name": vn, "field_names": [fld], "ops": [op]}

            def call(key, recv, r, dest, target):
                c, f = templ[key]
                return {"k": "call", "callee": copy.deepcopy(c), "func": copy.deepcopy(f), "args": [recv, {"k": "move", "place": {"local": r, "proj": []}}],
                        "dest": {"local": dest, "proj": []}, "target": target, "unwind": t.get("unwind"), "l": line, "x": False}
            blk["stmts"].append({"k": "assign", "place": {"local": r1, "proj": []}, "rv": rng("std::ops::RangeTo", "RangeTo", "end", cp(nn)), "l": line, "x": False})
            blk["term"] = call(k_to, cp(x), r1, a_l, k2)
            m["blocks"].append({"stmts": [{"k": "assign", "place": {"local": r2, "proj": []}, "rv": rng("std::ops::RangeFrom", "RangeFrom", "start", cp(nn)), "l": line, "x": False}],
                                "term": call(k_from, cp(x), r2, b_l, k3), "cleanup": False})
            m["blocks"].append({"stmts": [{"k": "assign", "place": copy.deepcopy(t["dest"]), "rv": {"k": "aggregate", "agg": "tuple", "ops": [{"k": "move", "place": {"local": a_l, "proj": []}}, {"k": "move", "place": {"local": b_l, "proj": []}}]}, "l": line, "x": False}],
                                "term": {"k": "goto", "target": t["target"], "l": line, "x": False}, "cleanup": False})
            n += 1
    return n


# ------------------------------------------------------------------------------------------------ driver

def normalize(d, base_idx, log=None):
    """d: parsed facts (renames already applied). Inline every crate-local fn absent from the baseline index."""
    bodies = {b["path"]: b for b in d["bodies"]}
    cur = index_of(d)
    helpers = {p for p in cur if p not in base_idx}
    if not helpers:
        return []
    # callee of a call terminator, if statically resolved to a local body
    def target(t):
        c = t["callee"]
        r = c.get("resolved") or c.get("def")
        if c.get("inst") in ("virtual", "indirect", "unresolved"):
            r = c.get("def") if c.get("inst") == "unresolved" else None
        return r if r in bodies and "mir" in bodies[r] else None

    # recursion check among helpers
    def reaches(src, dst, seen=None):
        seen = seen or set()
        if src in seen:
            return False
        seen.add(src)
        for b in bodies[src]["mir"]["blocks"]:
            t = b["term"]
            if t["k"] == "call":
                r = target(t)
                if r == dst:
                    return True
                if r in helpers and reaches(r, dst, seen):
                    return True
        return False

    overridden = {b.get("trait_item") for b in d["bodies"] if b.get("trait_item")}
    inlinable = {h for h in helpers if not reaches(h, h) and len(bodies[h]["mir"]["blocks"]) <= MAX_INLINE_BLOCKS and h not in overridden}
    done = []
    touched = set()
    for _ in range(MAX_ROUNDS):
        any_change = False
        for p, b in list(bodies.items()):
            if "mir" not in b:
                continue
            joins = []
            bi = 0
            while bi < len(b["mir"]["blocks"]):
                blk = b["mir"]["blocks"][bi]
                t = blk["term"]
                if t["k"] == "call" and not blk.get("cleanup"):
                    r = target(t)
                    if r in inlinable and r != p and len(b["mir"]["blocks"]) < 4000:
                        jn = inline_call(b, bi, bodies[r])
                        if jn is not None:
                            joins.append(jn)
                        done.append((p, r))
                        any_change = True
                bi += 1
            if joins:
                touched.add(p)
        if not any_change:
            break
    for p in touched:
        if p in bodies and "mir" in bodies[p]:
            eliminate_local_refs(bodies[p])
    # drop the helper bodies (and re-parent their closures to a caller, for rules that look at closures of a function)
    callers = {}
    for (p, r) in done:
        callers.setdefault(r, []).append(p)
    keep = []
    for b in d["bodies"]:
        if b["path"] in inlinable and b["path"] in callers:
            # the MIR now lives in the callers; the typed HIR stays available to the table-extraction rules
            if "hir" in b:
                b.pop("mir", None)
                b["inlined_into"] = sorted(set(callers[b["path"]]))
                keep.append(b)
            continue
        if b.get("kind") == "Closure" and b.get("parent") in inlinable and b.get("parent") in callers:
            ps = [c for c in callers[b["parent"]] if c not in inlinable]
            if ps:
                b["parent"] = ps[0]
        keep.append(b)
    d["bodies"] = keep
    for im in d.get("impls", []):
        im["items"] = [i for i in im["items"] if not (i.get("path") in inlinable and i.get("path") in callers)]
    if log is not None:
        log.extend(done)
    return done
