"""Must-hold edge facts (guards): a forward must-analysis over the CFG.

Fact forms (expressions are `expr.strip_bb`-normalised):
  ('cmp', op, a, b, truth)     comparison a <op> b evaluated to truth on this path
  ('ok', call) / ('err', call) a Result/ControlFlow-returning call took its Ok / Err edge
  ('bool', e, truth)           a boolean expression had this value
  ('variant', e, idx)          discriminant(e) == idx
  ('notvariant', e, (idx..))   discriminant(e) not in idxs
"""
from .expr import Resolver, strip_bb
from .flow import fields_only, overlaps

CMP = ("Eq", "Ne", "Lt", "Le", "Gt", "Ge")
TRY_BRANCH = ("std::ops::Try::branch", "std::ops::Try::branch")


CONST_GETTER_NAMES = ("hash_len", "block_len", "pub_len", "dh_len", "priv_len", "ciphertext_len", "shared_secret_len")


def is_const_getter_call(e):
    return e and e[0] == "call" and isinstance(e[1], str) and "::types::" in e[1] and e[1].split("::")[-1] in CONST_GETTER_NAMES


def mutable_paths(e, acc=None):
    """paths whose *current contents* an expression depends on: like expr_paths, but the receiver of a constant
    getter of the primitive traits (hash_len, pub_len, ...) is not a dependency — the trait contract makes these
    constants of the object, whatever is written into it"""
    if acc is None:
        acc = set()
    if isinstance(e, tuple):
        if is_const_getter_call(e):
            return acc
        if e and e[0] in ("place", "ref") and len(e) == 2 and isinstance(e[1], frozenset):
            acc |= set(e[1])
        else:
            for x in e:
                if isinstance(x, tuple):
                    mutable_paths(x, acc)
    return acc


def expr_paths(e, acc=None):
    """all (root, proj) paths mentioned in an expression"""
    if acc is None:
        acc = set()
    if isinstance(e, tuple):
        if e and e[0] in ("place", "ref") and len(e) == 2 and isinstance(e[1], frozenset):
            acc |= set(e[1])
        else:
            for x in e:
                if isinstance(x, tuple):
                    expr_paths(x, acc)
    return acc


def expr_locals(e, acc=None):
    if acc is None:
        acc = set()
    if isinstance(e, tuple):
        if e and e[0] == "local":
            acc.add(e[1])
        else:
            for x in e:
                if isinstance(x, tuple):
                    expr_locals(x, acc)
    return acc


class Guards:
    def __init__(self, fn, effects, pts=None):
        self.fn = fn
        self.E = effects
        self.pts = pts or effects.pts[fn.path]
        self.R = Resolver(fn, self.pts)
        self.edge_facts = {}  # (src, dst) -> set(facts)
        self._two_variant_discr = False
        self._derive_edges()
        self._solve()

    # ---- edges
    def _unwrap_try(self, e):
        """through Try::branch(x) to x"""
        while e[0] == "call" and e[1] in TRY_BRANCH and e[3]:
            e = e[3][0]
        return e

    def _derive_edges(self):
        fn = self.fn
        for bi, b in enumerate(fn.blocks):
            t = b["term"]
            if t["k"] != "switch":
                continue
            raw = self.R.op(t["discr"])
            e = strip_bb(raw)
            vals = [v for v, _ in t["targets"]]
            self._two_variant_discr = self._discr_of_two_variant(b, t)
            # history facts ('hist', 'ok'|'err', call bb): never killed — "this call site returned Ok/Err"
            hist_bb = None
            if raw[0] == "discr":
                x = raw[1]
                while x[0] == "call" and x[1] in TRY_BRANCH and x[3]:
                    x = x[3][0]
                if x[0] == "call":
                    hist_bb = x[4]
            tg = {}
            for v, tb in t["targets"]:
                tg.setdefault(tb, []).append(v)
            ob = t["otherwise"]
            for tb, vs in tg.items():
                if tb == ob:
                    continue
                if len(vs) == 1:
                    for f in self._facts_for(e, vs[0], False, vals):
                        self.edge_facts.setdefault((bi, tb), set()).add(f)
                    if hist_bb is not None and vs[0] in (0, 1):
                        self.edge_facts.setdefault((bi, tb), set()).add(("hist", "ok" if vs[0] == 0 else "err", hist_bb))
            if ob not in tg:
                for f in self._facts_for(e, None, True, vals):
                    self.edge_facts.setdefault((bi, ob), set()).add(f)
                if hist_bb is not None and vals in ([0], [1]):
                    self.edge_facts.setdefault((bi, ob), set()).add(("hist", "err" if vals == [0] else "ok", hist_bb))

    def _facts_for(self, e, v, otherwise, vals):
        out = []
        neg = False
        while e[0] == "un" and e[1] == "Not":
            e = e[2]
            neg = not neg
        if e[0] == "bin" and e[1] in CMP:
            if not otherwise:
                truth = v != 0
            elif vals == [0]:
                truth = True
            elif vals == [1]:
                truth = False
            else:
                return out
            out.append(("cmp", e[1], e[2], e[3], truth != neg))
            return out
        if e[0] == "discr":
            x = self._unwrap_try(e[1])
            if x[0] == "call":
                if not otherwise:
                    out.append(("ok" if v == 0 else "err" if v == 1 else "variant%d" % v, x))
                elif vals == [0]:
                    out.append(("err", x))
                elif vals == [1]:
                    out.append(("ok", x))
                # opt.ok_or(e) is Ok exactly when opt is Some: the same fact a `match opt` would establish
                if (x[1] or "").endswith("Option::<T>::ok_or") or (x[1] or "").endswith("Option::<T>::ok_or_else"):
                    for f in list(out):
                        if f[0] in ("ok", "err") and f[1] is x and x[3]:
                            out.append(("variant", strip_bb(x[3][0]), 1 if f[0] == "ok" else 0))
            else:
                if not otherwise:
                    out.append(("variant", x, v))
                else:
                    out.append(("notvariant", x, tuple(vals)))
                    # in a two-variant enum "not variant v" is "variant 1 - v"
                    if len(vals) == 1 and vals[0] in (0, 1) and self._two_variant_discr:
                        out.append(("variant", x, 1 - vals[0]))
            return out
        # a switch on an integer value (match n { K => .., _ => .. }) is a comparison with K
        if self._is_int_expr(e):
            if not otherwise:
                out.append(("cmp", "Eq", e, ("const", v), True != neg))
            elif len(vals) == 1:
                out.append(("cmp", "Eq", e, ("const", vals[0]), False != neg))
            return out
        # boolean
        if not otherwise:
            truth = v != 0
        elif vals == [0]:
            truth = True
        elif vals == [1]:
            truth = False
        else:
            return out
        out.append(("bool", e, truth != neg))
        return out

    def _discr_of_two_variant(self, b, t):
        """the switch tests the discriminant of a whole local whose type has exactly two variants"""
        if t["discr"].get("k") not in ("move", "copy") or t["discr"]["place"]["proj"]:
            return False
        dl = t["discr"]["place"]["local"]
        for s in b["stmts"]:
            if s["k"] == "assign" and s["place"]["local"] == dl and s["rv"]["k"] == "discr":
                ty = self.fn.place_ty(s["rv"]["place"]) or {}
                if ty.get("k") == "adt":
                    a = ty.get("adt", "")
                    if a.endswith(("option::Option", "result::Result", "ops::ControlFlow")):
                        return True
                    ad = self.fn.facts.adts.get(a)
                    if ad is not None and len(ad.get("variants", [])) == 2:
                        return True
        return False

    def _is_int_expr(self, e):
        """value expression of integer (not bool) type, as far as it can be told from its leaves"""
        fn = self.fn
        if e[0] == "arg":
            return fn.local_ty(e[1])["k"] in ("uint", "int")
        if e[0] == "local":
            return fn.local_ty(e[1])["k"] in ("uint", "int")
        if e[0] == "place":
            tys = set()
            for (root, proj) in e[1]:
                last = [x for x in proj if x[0] == "f"]
                if not last:
                    return False
            return False
        return False

    # ---- kills
    def _block_writes(self, bi):
        """(ext paths written, locals assigned) by the statements and terminator of block bi"""
        fn = self.fn
        b = fn.blocks[bi]
        ext = set()
        locs = set()
        for s in b["stmts"]:
            if s["k"] in ("assign", "setdiscr"):
                pl = s["place"]
                locs.add(pl["local"])
                if pl["proj"]:
                    for root, proj in self.pts.resolve_place(pl):
                        ext.add((root, fields_only(proj)))
        t = b["term"]
        if t["k"] == "call":
            locs.add(t["dest"]["local"])
            ok, err, _ = self.E.call_writes(fn, self.pts, t)
            for (ai, ch) in ok | err:
                ext.add((("ext", ai + 1), ch))
            # &mut borrows of local storage handed to callees
            for a in t["args"]:
                if a["k"] in ("copy", "move"):
                    ty = self.E._op_ty(fn, a)
                    if ty is not None and ty["k"] in ("refmut", "ptrmut"):
                        v = self.pts._val_pts(a) or set()
                        for root, proj in v:
                            if root[0] == "loc":
                                ext.add((root, fields_only(proj)))
        return ext, locs

    def _killed(self, fact, ext, locs):
        if fact[0] == "hist":
            return False
        for root, proj in mutable_paths(fact):
            ch = fields_only(proj)
            for (r2, ch2) in ext:
                if r2 == root and overlaps(ch, ch2):
                    return True
            if root[0] == "loc" and root[1] in locs and not ch:
                pass
        for l in expr_locals(fact):
            if l in locs:
                return True
        return False

    def _solve(self):
        fn = self.fn
        n = len(fn.blocks)
        reach = fn.reachable()
        TOP = None
        IN = {b: TOP for b in reach}
        IN[0] = frozenset()
        OUT = {}
        writes = {b: self._block_writes(b) for b in reach}
        work = [0]
        inwork = {0}
        order = sorted(reach)
        changed = True
        it = 0
        while changed and it < 200:
            changed = False
            it += 1
            for b in order:
                if b != 0:
                    acc = TOP
                    for p in fn.preds(b):
                        if p not in reach or p not in OUT:
                            continue
                        s = set(OUT[p]) | self.edge_facts.get((p, b), set())
                        acc = s if acc is TOP else (acc & s)
                    if acc is TOP:
                        continue
                    newin = frozenset(acc)
                else:
                    newin = frozenset()
                ext, locs = writes[b]
                out = frozenset(f for f in newin if not self._killed(f, ext, locs))
                if IN.get(b) != newin or OUT.get(b) != out:
                    IN[b] = newin
                    OUT[b] = out
                    changed = True
        self.IN = IN
        self.OUT = OUT

    def at_entry(self, bi):
        return self.IN.get(bi) or frozenset()

    def before_term(self, bi):
        """facts holding just before the terminator of bi executes (statement kills applied)"""
        fn = self.fn
        facts = self.at_entry(bi)
        b = fn.blocks[bi]
        ext = set()
        locs = set()
        for s in b["stmts"]:
            if s["k"] in ("assign", "setdiscr"):
                pl = s["place"]
                locs.add(pl["local"])
                if pl["proj"]:
                    for root, proj in self.pts.resolve_place(pl):
                        ext.add((root, fields_only(proj)))
        return frozenset(f for f in facts if not self._killed(f, ext, locs))


def path_exists_with_facts(fn, G, targets, required, start=0):
    """Is there a CFG path from `start` to any block in `targets` along which every fact in `required`
    is established by some traversed edge (and not subsequently contradicted)? Product-state search."""
    required = list(required)
    targets = set(targets)
    seen = set()
    stack = [(start, frozenset())]
    while stack:
        b, have = stack.pop()
        if (b, have) in seen:
            continue
        seen.add((b, have))
        if b in targets and len(have) == len(required):
            return True
        for s in fn.succs(b):
            ef = G.edge_facts.get((b, s), set())
            h2 = set(have)
            contradicted = False
            for i, r in enumerate(required):
                if r in ef:
                    h2.add(i)
                elif negation(r) in ef:
                    contradicted = True
            if contradicted:
                # the edge establishes the opposite of a required fact: this path cannot satisfy it *at this point*;
                # it may be re-established later only by another evaluation, which we allow by dropping it
                for i, r in enumerate(required):
                    if negation(r) in ef:
                        h2.discard(i)
            stack.append((s, frozenset(h2)))
    return False


def exit_assuming(fn, G, assumed, allowed_blocks, start=0):
    """Assume the facts `assumed` hold on entry (they are about state the path does not write). Is a `return`
    reachable along a path that never takes an edge establishing the negation of an assumed fact and never passes
    through one of `allowed_blocks`? Returns the block that last defined the return value on such a path, or None."""
    negs = {negation(a) for a in assumed}
    allowed = set(allowed_blocks)
    seen = set()
    stack = [(start, None)]
    while stack:
        b, lastdef = stack.pop()
        if (b, lastdef) in seen or b in allowed:
            continue
        seen.add((b, lastdef))
        blk = fn.blocks[b]
        if blk.get("cleanup"):
            continue
        for s in blk["stmts"]:
            if s["k"] == "assign" and s["place"]["local"] == 0:
                lastdef = b
        t = blk["term"]
        if t["k"] == "call" and t["dest"]["local"] == 0:
            lastdef = b
        if t["k"] == "return":
            return lastdef if lastdef is not None else b
        for s in fn.succs(b):
            if G.edge_facts.get((b, s), set()) & negs:
                continue
            stack.append((s, lastdef))
    return None


def negation(f):
    if f[0] == "bool":
        return ("bool", f[1], not f[2])
    if f[0] == "cmp":
        return ("cmp", f[1], f[2], f[3], not f[4])
    if f[0] == "ok":
        return ("err", f[1])
    if f[0] == "err":
        return ("ok", f[1])
    return ("none",)


def decision_paths(fn, G, start, targets, max_paths=200):
    """acyclic paths start -> each target; returns {target: [frozenset(edge facts along the path), ...]}"""
    targets = set(targets)
    out = {t: [] for t in targets}
    count = [0]

    def rec(b, facts, seen):
        if count[0] > max_paths:
            return
        if b in targets:
            out[b].append(frozenset(facts))
            count[0] += 1
            return
        for s in fn.succs(b):
            if s in seen:
                continue
            ef = G.edge_facts.get((b, s), set())
            rec(s, facts | {f for f in ef if f[0] != "hist"}, seen | {s})
    rec(start, frozenset(), {start})
    return out
