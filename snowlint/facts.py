"""Loading of snowfacts JSON and basic IR helpers (places, operands, CFG, dominators)."""
import json
from collections import defaultdict


class Facts:
    def __init__(self, path, cfg_id="?"):
        with open(path) as f:
            txt = f.read()
        # no_std builds print std items under std:: / std:: — normalise so that rules match one spelling
        import re
        txt = re.sub(r"\b(?:core|alloc)::", "std::", txt)
        d = json.loads(txt)
        # normal form: renamed private functions get their reference name back, new helper functions are inlined
        self.normalized = []
        from . import normalize
        import os
        base = normalize.load_baseline() if not os.environ.get("SNOWLINT_NO_NORMALIZE") else None
        if not os.environ.get("SNOWLINT_NO_NORMALIZE"):
            normalize.rewrite_is_ok(d)
            normalize.rewrite_split_at(d)
            normalize.rewrite_slice_get(d)
            normalize.rewrite_ok_or(d)
        if base is not None and ("adts:" + cfg_id) in base:
            aren = normalize.detect_adt_renames(normalize.adt_index(d), base["adts:" + cfg_id])
            if aren:
                txt = normalize.apply_type_renames_text(txt, d["crate"], aren)
                d = json.loads(txt)
                normalize.rewrite_is_ok(d)
                normalize.rewrite_split_at(d)
                normalize.rewrite_slice_get(d)
                normalize.rewrite_ok_or(d)
                self.normalized += [("rename-type", n, k) for n, k in sorted(aren.items())]
            fren = normalize.detect_field_renames(normalize.adt_index(d), base["adts:" + cfg_id])
            if fren:
                normalize.apply_field_renames(d, fren)
                self.normalized += [("rename-field", a + "." + n, k) for a, m in sorted(fren.items()) for n, k in sorted(m.items())]
        if base is not None and cfg_id in base:
            ren = normalize.detect_renames(normalize.index_of(d), base[cfg_id])
            if ren:
                txt = normalize.apply_renames_text(txt, ren)
                d = json.loads(txt)
                normalize.rewrite_is_ok(d)
                normalize.rewrite_split_at(d)
                normalize.rewrite_slice_get(d)
                normalize.rewrite_ok_or(d)
                if base is not None and ("adts:" + cfg_id) in base:
                    fren = normalize.detect_field_renames(normalize.adt_index(d), base["adts:" + cfg_id])
                    if fren:
                        normalize.apply_field_renames(d, fren)
                self.normalized += [("rename", n, k) for n, k in sorted(ren.items())]
            self.normalized += [("inline", r, p) for (p, r) in normalize.normalize(d, base[cfg_id])]
        if not os.environ.get("SNOWLINT_NO_NORMALIZE"):
            self.threaded = normalize.thread_all(d)
        self.cfg_id = cfg_id
        self.raw = d
        self.crate = d["crate"]
        self.types = d["types"]
        self.bodies = {}
        self.by_uid = {}
        for b in d["bodies"]:
            k = b["path"]
            n = 1
            while k in self.bodies:
                n += 1
                k = "%s#%d" % (b["path"], n)
            b["path"] = k
            self.bodies[k] = b
            if "uid" in b:
                self.by_uid[b["uid"]] = b
        self.adts = {a["path"]: a for a in d["adts"]}
        self.impls = d["impls"]
        self.traits = {t["path"]: t for t in d["traits"]}
        self.consts = {c["path"]: c for c in d["consts"]}
        self._fn = {}
        # trait method -> list of impl method paths
        self.trait_impls = defaultdict(list)
        for b in d["bodies"]:
            ti = b.get("trait_item")
            if ti:
                self.trait_impls[ti].append(b["path"])

    # ---- types
    def ty(self, i):
        return self.types[i]

    def ty_s(self, i):
        return self.types[i]["s"] if i is not None else "?"

    def fn(self, path):
        """Return Fn wrapper for a body path (must have MIR)."""
        if path not in self._fn:
            b = self.bodies.get(path)
            if b is None or "mir" not in b:
                return None
            self._fn[path] = Fn(self, b)
        return self._fn[path]

    def fns(self):
        for p, b in self.bodies.items():
            if "mir" in b:
                yield self.fn(p)

    def find_fns(self, suffix):
        return [self.fn(p) for p, b in self.bodies.items() if "mir" in b and p.endswith(suffix)]

    def one_fn(self, suffix):
        l = [p for p, b in self.bodies.items() if "mir" in b and (p == suffix or p.endswith("::" + suffix))]
        if len(l) != 1:
            raise AnchorError("anchor %r matched %d bodies: %s" % (suffix, len(l), l[:5]))
        return self.fn(l[0])

    def impls_of(self, trait_method_path):
        """local impl bodies of a trait method + the default body if present"""
        res = list(self.trait_impls.get(trait_method_path, []))
        return res

    def has_default(self, trait_method_path):
        b = self.bodies.get(trait_method_path)
        return b is not None and "mir" in b

    def const_val(self, suffix):
        l = [c for p, c in self.consts.items() if p.endswith("::" + suffix) or p == suffix]
        if len(l) != 1 or "val" not in l[0]:
            raise AnchorError("constant %r not found uniquely" % suffix)
        return l[0]["val"]

    def adt(self, suffix):
        l = [a for p, a in self.adts.items() if p.endswith("::" + suffix) or p == suffix]
        if len(l) != 1:
            raise AnchorError("adt %r matched %d" % (suffix, len(l)))
        return l[0]


class AnchorError(Exception):
    pass


class Inconclusive(Exception):
    pass


# ---------------------------------------------------------------- places / operands


def place_key(p):
    """hashable key of a place: (local, ((kind, x), ...))"""
    pr = []
    for e in p["proj"]:
        k = e["k"]
        if k == "deref":
            pr.append(("*",))
        elif k == "field":
            pr.append(("f", e["i"], e.get("name")))
        elif k == "index":
            pr.append(("idx", e["local"]))
        elif k == "constindex":
            pr.append(("cidx", e["offset"], e["from_end"]))
        elif k == "subslice":
            pr.append(("sub", e["from"], e["to"], e["from_end"]))
        elif k == "downcast":
            pr.append(("as", e["variant"], e.get("name")))
        else:
            pr.append(("?",))
    return (p["local"], tuple(pr))


def place_str(p, names=None):
    s = "_%d" % p["local"]
    if names and p["local"] in names:
        s = names[p["local"]]
    for e in p["proj"]:
        k = e["k"]
        if k == "deref":
            s = "(*%s)" % s
        elif k == "field":
            s = "%s.%s" % (s, e.get("name") if e.get("name") is not None else e["i"])
        elif k == "index":
            s = "%s[_%d]" % (s, e["local"])
        elif k == "constindex":
            s = "%s[%s%d]" % (s, "-" if e["from_end"] else "", e["offset"])
        elif k == "subslice":
            s = "%s[%d..%s%d]" % (s, e["from"], "-" if e["from_end"] else "", e["to"])
        elif k == "downcast":
            s = "(%s as %s)" % (s, e.get("name"))
        else:
            s += ".?"
    return s


def op_str(o, names=None):
    k = o["k"]
    if k in ("copy", "move"):
        return ("move " if k == "move" else "") + place_str(o["place"], names)
    if k == "const":
        if "fn" in o:
            return "fn " + o["fn"]
        if "val" in o:
            return "const %d" % o["val"]
        if "str" in o:
            return "const %r" % o["str"]
        if "promoted" in o:
            return "promoted[%d]" % o["promoted"]
        if "static" in o:
            return "&static %s" % o["static"]
        if "uneval" in o:
            return "const{%s}" % o["uneval"]
        return "const ?"
    return "?"


def rv_str(rv, names=None):
    k = rv["k"]
    if k == "use":
        return op_str(rv["op"], names)
    if k == "repeat":
        return "[%s; %s]" % (op_str(rv["op"], names), rv["n"])
    if k == "ref":
        return "&%s%s" % ("mut " if rv["mut"] else "", place_str(rv["place"], names))
    if k == "rawptr":
        return "&raw %s%s" % ("mut " if rv["mut"] else "const ", place_str(rv["place"], names))
    if k == "cast":
        return "%s as <%s>" % (op_str(rv["op"], names), rv["cast"])
    if k == "binop":
        return "%s(%s, %s)" % (rv["op"], op_str(rv["a"], names), op_str(rv["b"], names))
    if k == "unop":
        return "%s(%s)" % (rv["op"], op_str(rv["a"], names))
    if k == "discr":
        return "discriminant(%s)" % place_str(rv["place"], names)
    if k == "aggregate":
        h = rv["agg"]
        if h == "adt":
            h = "%s::%s" % (rv["adt"], rv["variant_name"])
        return "%s{%s}" % (h, ", ".join(op_str(o, names) for o in rv["ops"]))
    if k == "copyforderef":
        return "deref_copy %s" % place_str(rv["place"], names)
    return "?rv(%s)" % rv.get("dbg", k)


class Fn:
    """A MIR body with CFG helpers."""

    def __init__(self, facts, body):
        self.facts = facts
        self.body = body
        self.path = body["path"]
        self.mir = body["mir"]
        self.blocks = self.mir["blocks"]
        self.locals = self.mir["locals"]
        self.argc = self.mir["argc"]
        self.promoted = body.get("promoted", [])
        self.names = {}
        for d in self.mir["dbg"]:
            if not d["place"]["proj"]:
                self.names.setdefault(d["place"]["local"], d["name"])
        self.file = body["span"]["f"]
        self.line = body["span"]["l"]
        self._succ = None
        self._pred = None
        self._dom = None
        self._defs = None

    def __repr__(self):
        return "<Fn %s>" % self.path

    def local_ty(self, l):
        return self.facts.types[self.locals[l]["ty"]]

    def local_ty_s(self, l):
        return self.local_ty(l)["s"]

    def place_ty(self, pl):
        """type-table entry of a place (through derefs, fields, indexing), or None when it cannot be told"""
        types = self.facts.types
        ti = self.locals[pl["local"]]["ty"]
        for e in pl["proj"]:
            if ti is None:
                return None
            t = types[ti]
            k = e["k"]
            if k == "deref":
                if t["k"] in ("ref", "refmut", "ptr"):
                    ti = t.get("inner")
                elif t["k"] == "adt" and t.get("args"):
                    ti = t["args"][0]
                else:
                    return None
            elif k == "field":
                ti = e.get("ty")
            elif k in ("index", "constindex"):
                ti = t.get("inner") if t["k"] in ("array", "slice") else None
            elif k in ("downcast", "subslice"):
                pass
            else:
                return None
        return types[ti] if ti is not None else None

    def arg_name(self, i):
        return self.names.get(i, "_%d" % i)

    # ---- CFG (normal edges only; unwind edges excluded)
    def succs(self, bi):
        if self._succ is None:
            self._succ = [self._term_succs(b["term"]) for b in self.blocks]
        return self._succ[bi]

    @staticmethod
    def _term_succs(t):
        k = t["k"]
        if k == "goto":
            return [t["target"]]
        if k == "switch":
            res = [x[1] for x in t["targets"]] + [t["otherwise"]]
            out = []
            for r in res:
                if r not in out:
                    out.append(r)
            return out
        if k in ("call", "drop", "assert"):
            return [t["target"]] if t.get("target") is not None else []
        return []

    def preds(self, bi):
        if self._pred is None:
            self._pred = [[] for _ in self.blocks]
            for i in range(len(self.blocks)):
                for s in self.succs(i):
                    self._pred[s].append(i)
        return self._pred[bi]

    def reachable(self, start=0, avoid=()):
        seen = set()
        st = [start]
        while st:
            b = st.pop()
            if b in seen or b in avoid:
                continue
            seen.add(b)
            st.extend(self.succs(b))
        return seen

    def dominators(self):
        """dom[b] = set of blocks dominating b (incl. itself), over normal edges from bb0"""
        if self._dom is not None:
            return self._dom
        reach = self.reachable()
        order = sorted(reach)
        dom = {b: set(order) for b in order}
        dom[0] = {0}
        changed = True
        while changed:
            changed = False
            for b in order:
                if b == 0:
                    continue
                ps = [p for p in self.preds(b) if p in reach]
                if not ps:
                    continue
                new = set.intersection(*[dom[p] for p in ps]) | {b}
                if new != dom[b]:
                    dom[b] = new
                    changed = True
        self._dom = dom
        return dom

    def dominates(self, a, b):
        d = self.dominators()
        return b in d and a in d[b]

    def return_blocks(self):
        return [i for i, b in enumerate(self.blocks) if b["term"]["k"] == "return" and not b["cleanup"]]

    # ---- defs
    def defs(self):
        """local -> list of (bb, stmt_idx or 'term', rvalue-or-call)"""
        if self._defs is None:
            d = defaultdict(list)
            for bi, b in enumerate(self.blocks):
                for si, s in enumerate(b["stmts"]):
                    if s["k"] == "assign":
                        # `(*p).. = v` writes the pointee, it does not define the pointer p
                        if s["place"]["proj"] and s["place"]["proj"][0]["k"] == "deref":
                            continue
                        d[s["place"]["local"]].append((bi, si, s))
                    elif s["k"] == "setdiscr":
                        d[s["place"]["local"]].append((bi, si, s))
                t = b["term"]
                if t["k"] == "call":
                    d[t["dest"]["local"]].append((bi, "term", t))
            self._defs = d
        return self._defs

    def single_def(self, local):
        """the unique whole-local definition of `local`, or None"""
        ds = [x for x in self.defs().get(local, []) if not x[2].get("place", x[2].get("dest"))["proj"]]
        alld = self.defs().get(local, [])
        if len(ds) == 1 and len(alld) == 1:
            return ds[0]
        return None

    def calls(self):
        for bi, b in enumerate(self.blocks):
            t = b["term"]
            if t["k"] == "call":
                yield bi, t

    def dump(self):
        out = []
        out.append("fn %s  [%s:%d]" % (self.path, self.file, self.line))
        for i, l in enumerate(self.locals):
            out.append("  let _%d: %s%s" % (i, self.facts.ty_s(l["ty"]), "  // " + self.names[i] if i in self.names else ""))
        for bi, b in enumerate(self.blocks):
            out.append("  bb%d%s:" % (bi, " (cleanup)" if b["cleanup"] else ""))
            for s in b["stmts"]:
                if s["k"] == "assign":
                    out.append("    %s = %s   // l%d" % (place_str(s["place"]), rv_str(s["rv"]), s["l"]))
                else:
                    out.append("    discriminant(%s) = %d" % (place_str(s["place"]), s["variant"]))
            out.append("    " + term_str(b["term"]))
        return "\n".join(out)


def callee_name(t):
    c = t["callee"]
    return c.get("resolved") or c.get("def") or "?"


def term_str(t):
    k = t["k"]
    if k == "goto":
        return "goto bb%d" % t["target"]
    if k == "switch":
        return "switchInt(%s) -> [%s, otherwise: bb%d]" % (
            op_str(t["discr"]),
            ", ".join("%d: bb%d" % (v, b) for v, b in t["targets"]),
            t["otherwise"],
        )
    if k == "return":
        return "return"
    if k == "call":
        c = t["callee"]
        nm = c.get("def") or "?"
        extra = ""
        if c.get("inst") == "virtual":
            extra = " [virtual]"
        elif c.get("resolved") and c.get("resolved") != c.get("def"):
            extra = " [-> %s]" % c["resolved"]
        return "%s = %s(%s)%s -> %s   // l%d" % (
            place_str(t["dest"]),
            nm,
            ", ".join(op_str(a) for a in t["args"]),
            extra,
            "bb%d" % t["target"] if t["target"] is not None else "!",
            t["l"],
        )
    if k == "assert":
        return "assert(%s == %s, %s(%s)) -> bb%d   // l%d" % (
            op_str(t["cond"]),
            t["expected"],
            t["msg"],
            ", ".join(op_str(o) for o in t["ops"]),
            t["target"],
            t["l"],
        )
    if k == "drop":
        return "drop(%s) -> bb%d" % (place_str(t["place"]), t["target"])
    return k
