"""Effect traces: canonical descriptors of call arguments and ordered call events per CFG region."""
from .expr import strip_bb
from .flow import fields_only
from .guards import expr_paths
from .lenflow import range_of, is_index_call
from .lexpr import LResolver

TRANSPARENT = ("Deref::deref", "DerefMut::deref_mut", "AsRef::as_ref", "AsMut::as_mut", "Borrow::borrow", "::as_slice", "::as_mut_slice", "::as_bytes", "Into::into", "From::from")


class Describer:
    def __init__(self, fn, pts, const_getters=()):
        self.fn = fn
        self.R = LResolver(fn, pts)
        self.cg = set(const_getters)

    _busy = set()

    def op(self, o):
        return self.d(strip_bb(self.R.op(o)))

    def elem_value(self, l, rv, idx_local=None):
        """descriptor of the value stored by `L[i] = rv` (element reads at the same index i described as ('elem', base),
        reads at another index as ('elem_at', base, index))"""
        want = strip_bb(self.R.local(idx_local)) if idx_local is not None else None

        def same_index(pl):
            if want is None:
                return True
            js = [e["local"] for e in pl["proj"] if e["k"] == "index"]
            return all(strip_bb(self.R.local(j)) == want for j in js)

        def opd(o):
            if o["k"] == "const":
                return o.get("val")
            pl = o["place"]
            if not pl["proj"]:
                sd = self.fn.single_def(pl["local"])
                if sd and sd[1] != "term" and sd[2].get("k") == "assign" and sd[2]["rv"]["k"] == "use" and sd[2]["rv"]["op"]["k"] in ("copy", "move"):
                    pl = sd[2]["rv"]["op"]["place"]
            if [e["k"] for e in pl["proj"]] == ["deref"] and idx_local is not None:
                # `*k` where (i, k) is the item of one `enumerate()` iteration and i is the index written: element i
                ri = _iter_item(self, idx_local)
                rk = _iter_item(self, pl["local"])
                if ri is not None and rk is not None and ri[0] == ("index",) and rk[0][0] == "elemof" and ri[2] == rk[2]:
                    return ("elem", _elem_base(rk[0][1]))
            if any(e["k"] == "index" for e in pl["proj"]):
                base = {"local": pl["local"], "proj": [e for e in pl["proj"] if e["k"] != "index"]}
                if not same_index(pl):
                    j = [e["local"] for e in pl["proj"] if e["k"] == "index"][0]
                    return ("elem_at", self.d(strip_bb(self.R.place(base) if base["proj"] else self.R.local(base["local"]))), self.num(strip_bb(self.R.local(j))))
                if not base["proj"] and self.fn.local_ty(base["local"])["k"] == "array":
                    return ("elem", ("at", "local#%d" % base["local"]))
                return ("elem", self.d(strip_bb(self.R.place(base) if base["proj"] else self.R.local(base["local"]))))
            return self.d(strip_bb(self.R.place(pl)))
        if rv["k"] == "use":
            return opd(rv["op"])
        if rv["k"] == "binop":
            return (rv["op"], opd(rv["a"]), opd(rv["b"]))
        return ("?",)

    def promoted_desc(self, idx):
        fn = self.fn
        if idx < len(fn.promoted):
            for b in fn.promoted[idx]["blocks"]:
                for s in b["stmts"]:
                    if s["k"] == "assign":
                        rv = s["rv"]
                        if rv["k"] == "repeat":
                            return ("constarr", rv["n"], rv["op"].get("val") if rv["n"] else None)
                        if rv["k"] == "aggregate" and rv.get("agg") == "array":
                            vals = tuple(o.get("val") for o in rv["ops"])
                            return ("constarr", len(vals), vals if len(set(vals)) > 1 else (vals[0] if vals else None))
        return ("promoted", idx)

    def var_desc(self, l):
        """semantic descriptor of a local with several definitions (no debug names)"""
        fn = self.fn
        t = fn.local_ty(l)
        if t["k"] in ("uint", "int"):
            return ("idx",)
        if l in self.R.mut_borrowed and t["k"] in ("array", "adt", "tuple"):
            return ("at", "local#%d" % l)
        if l in self._busy:
            return ("self",)
        self._busy.add(l)
        try:
            descs = set()
            elem = []
            for (bi, si, st) in fn.defs().get(l, []):
                if si == "term":
                    descs.add(self.d(strip_bb(self.R.call_expr(bi, st))))
                elif st.get("k") == "assign":
                    if st["place"]["proj"]:
                        elem.append(st)
                    else:
                        descs.add(self.d(strip_bb(self.R.rvalue(st["rv"]))))
            if elem:
                return ("at", "local#%d" % l)
            if elem and len(descs) == 1:
                # element-wise updates of an array: L[i] = op(L[i], K[i])
                ups = set()
                for st in elem:
                    rv = st["rv"]
                    if rv["k"] == "binop" and all(o["k"] in ("copy", "move") for o in (rv["a"], rv["b"])):
                        a, b = rv["a"]["place"], rv["b"]["place"]
                        same_idx = [e for e in st["place"]["proj"] if e["k"] == "index"] == [e for e in a["proj"] if e["k"] == "index"] == [e for e in b["proj"] if e["k"] == "index"]
                        if a["local"] == l and same_idx:
                            other = self.d(strip_bb(self.R.place({"local": b["local"], "proj": [e for e in b["proj"] if e["k"] != "index"]}))) if [e for e in b["proj"] if e["k"] != "index"] else self.d(strip_bb(self.R.local(b["local"])))
                            ups.add((rv["op"], other))
                            continue
                    ups.add(("?",))
                if len(ups) == 1 and next(iter(ups)) != ("?",):
                    op, other = next(iter(ups))
                    return ("elementwise", op, next(iter(descs)), other)
                return ("oneof", frozenset(descs | {("?", "elem")}))
        finally:
            self._busy.discard(l)
        flat = set()
        for x in descs:
            if isinstance(x, tuple) and x and x[0] == "oneof":
                flat |= set(x[1])
            else:
                flat.add(x)
        descs = flat
        roots = {x for x in descs if x != ("self",) and not (isinstance(x, tuple) and x and x[0] == "slice" and x[1] == ("self",))}
        if len(roots) == 1 and len(descs) > 1 and any(isinstance(x, tuple) and x and x[0] == "slice" and x[1] == ("self",) for x in descs):
            return ("cursor", next(iter(roots)))
        if len(descs) == 1:
            return next(iter(descs))
        return ("oneof", frozenset(descs))

    def _through_aggregate(self, root, proj):
        """a field of a local built once as `L = (move A, move B, ..)` is the storage of A / B"""
        for _ in range(4):
            if root[0] != "loc" or not proj or proj[0][0] != "f":
                break
            l = root[1]
            if not (isinstance(l, int) and l > self.fn.argc):
                break
            sd = self.fn.single_def(l)
            if not sd or sd[1] == "term" or sd[2].get("k") != "assign" or sd[2]["rv"]["k"] != "aggregate" or sd[2]["rv"].get("agg") != "tuple":
                break
            try:
                i = int(proj[0][1])
            except (TypeError, ValueError):
                break
            ops = sd[2]["rv"]["ops"]
            if i >= len(ops) or ops[i].get("k") not in ("move", "copy") or ops[i]["place"]["proj"]:
                break
            root = ("loc", ops[i]["place"]["local"])
            proj = proj[1:]
        return root, proj

    def chain_of(self, paths):
        """('self', chain) | ('param', name, chain) | ('local', name, chain) for a set of paths"""
        out = set()
        for (root, proj) in paths:
            root, proj = self._through_aggregate(root, proj)
            ch = ".".join(fields_only(proj))
            if root[0] == "ext":
                nm = "p%d" % root[1]
                out.add(("%s.%s" % (nm, ch)) if ch else nm)
            elif root[0] == "loc":
                nm = ("p%d" % root[1]) if 1 <= root[1] <= self.fn.argc else "local#%d" % root[1]
                out.add(("%s.%s" % (nm, ch)) if ch else nm)
            elif root[0] == "promoted":
                out.add("promoted%d" % root[1])
            else:
                out.add("?")
        if len(out) == 1:
            return next(iter(out))
        return "|".join(sorted(out))

    def num(self, e):
        k = e[0]
        if k == "const":
            return e[1]
        if k == "cast":
            return self.num(e[1])
        if k == "bin" and e[1] in ("Add", "Sub", "Mul"):
            a, b = self.num(e[2]), self.num(e[3])
            if e[1] == "Add":
                return ("+",) + tuple(sorted([a, b], key=repr))
            return ({"Sub": "-", "Mul": "*"}[e[1]], a, b)
        if k == "len":
            return ("len", self.d(e[1]))
        if k == "call":
            d = e[1] or ""
            if d in self.cg and e[3]:
                return ("getter", d.split("::")[-1], self.recv(e[3][0]))
            return ("call", d.split("::")[-1]) + tuple(self.d(a) for a in e[3])
        if k == "arg":
            return ("param", e[1])
        if k == "local":
            if self.fn.single_def(e[1]) is None:
                # a variable assigned one of several constants (`if c { K1 } else { K2 }`)
                vals = set()
                for (bi, si, st) in self.fn.defs().get(e[1], []):
                    if si != "term" and st.get("k") == "assign" and not st["place"]["proj"] and st["rv"]["k"] == "use" and st["rv"]["op"].get("k") == "const" and isinstance(st["rv"]["op"].get("val"), int):
                        vals.add(st["rv"]["op"]["val"])
                    else:
                        vals = None
                        break
                if vals and len(vals) <= 4:
                    return ("ints", frozenset(vals))
                # one of a few computed values (`if c { a + 16 } else { a }`)
                if e[1] not in self._busy:
                    self._busy.add(e[1])
                    try:
                        nums = set()
                        for (bi, si, st) in self.fn.defs().get(e[1], []):
                            if si == "term" or st.get("k") != "assign" or st["place"]["proj"]:
                                nums = None
                                break
                            v = self.num(strip_bb(self.R.rvalue(st["rv"])))
                            if "idx" in repr(v) or "'?'" in repr(v):
                                nums = None
                                break
                            nums.add(v)
                        if nums and 2 <= len(nums) <= 4:
                            return ("nums", frozenset(nums))
                    finally:
                        self._busy.discard(e[1])
                return ("idx",)
            return self.num(strip_bb(self.R.local(e[1])))
        if k == "place":
            return ("field", self.chain_of(e[1]))
        if k == "okval":
            return ("ok", self.d(e[1]))
        if k == "field":
            return ("fieldof", self.num(e[1]), e[2])
        return ("?", k)

    def recv(self, e):
        ps = expr_paths(e)
        if ps:
            return self.chain_of({(r, tuple(x for x in p if x[0] == "f")) for r, p in ps})
        if e[0] == "arg":
            return "p%d" % e[1]
        return "?"

    def rng(self, r):
        if r[0] == "to":
            return ("to", self.num(r[1]))
        if r[0] == "from":
            return ("from", self.num(r[1]))
        if r[0] == "range":
            return ("range", self.num(r[1]), self.num(r[2]))
        if r[0] == "toinc":
            return ("toinc", self.num(r[1]))
        if r[0] == "full":
            return ("full",)
        return ("?",)

    def d(self, e):
        """descriptor of a (mostly reference-valued) expression"""
        k = e[0]
        if k in ("unsize", "sized"):
            return self.d(e[1])
        if k == "arg":
            return ("param", e[1])
        if k == "local":
            return self.var_desc(e[1])
        if k in ("ref", "aref", "place"):
            if len(e[1]) == 1:
                (root, proj) = next(iter(e[1]))
                if root[0] == "loc" and not proj and not (1 <= root[1] <= self.fn.argc):
                    sd = self.fn.single_def(root[1])
                    if sd is not None and root[1] not in self.R.mut_borrowed and sd[1] != "term" and sd[2].get("k") == "assign":
                        # a local array written once with constants and only ever read: the constant itself
                        rv0 = sd[2]["rv"]
                        if rv0["k"] == "repeat" and rv0["op"].get("k") == "const" and isinstance(rv0.get("n"), int):
                            return ("constarr", rv0["n"], rv0["op"].get("val") if rv0["n"] else None)
                        if rv0["k"] == "aggregate" and rv0.get("agg") == "array" and all(o.get("k") == "const" for o in rv0["ops"]):
                            vals = tuple(o.get("val") for o in rv0["ops"])
                            return ("constarr", len(vals), vals if len(set(vals)) > 1 else (vals[0] if vals else None))
                    if sd is not None and root[1] not in self._busy:
                        self._busy.add(root[1])
                        try:
                            inner = strip_bb(self.R.local(root[1]))
                            if inner[0] not in ("local", "repeat", "agg", "unknown"):
                                return ("val", self.d(inner))
                        finally:
                            self._busy.discard(root[1])
                    elif sd is None:
                        return self.var_desc(root[1])
            return ("at", self.chain_of(e[1]))
        if k == "promoted":
            return self.promoted_desc(e[1])
        if k == "const":
            return e[1]
        if k == "str":
            return ("str", e[1])
        if k == "okval":
            inner = strip_bb(e[1])
            if inner[0] == "call" and ((inner[1] or "").endswith("Option::<T>::ok_or") or (inner[1] or "").endswith("Option::<T>::ok_or_else")) and inner[3]:
                x = self.d(strip_bb(inner[3][0]))
                if isinstance(x, tuple) and x[0] == "val":
                    x = x[1]
                if isinstance(x, tuple) and x[0] == "at" and isinstance(x[1], str):
                    return ("at", x[1] + ".0")
            return ("ok", self.d(e[1]))
        if k == "call":
            d = e[1] or ""
            if is_index_call(e):
                r = range_of(e[3][1])
                base = self.d(e[3][0])
                if r is None:
                    return ("index", base, self.num(e[3][1]))
                if r[0] == "full":
                    return base
                return distribute_ints(("slice", base, self.rng(r)))
            if any(d.endswith(t) for t in TRANSPARENT) and len(e[3]) == 1:
                return self.d(e[3][0])
            short = "::".join(d.split("::")[-2:])
            return ("call", short) + tuple(self.d(a) for a in e[3])
        if k == "agg":
            return ("agg", (e[1] or "").split("::")[-1], e[2]) + tuple(self.d(a) for a in e[3])
        if k == "field":
            if e[2] in ("0", "pointer", "as Some", "as Ok", "as Continue"):
                return self.d(e[1])
            return ("fieldof", self.d(e[1]), e[2])
        if k in ("bin", "len", "cast"):
            return self.num(e)
        if k == "static":
            return ("static", e[1])
        if k == "repeat":
            return ("repeat", self.d(e[1]), e[2])
        return ("?", k)


def loop_index(D, local):
    """('range', a, b) when `local` is the item of `for local in a..b` (every value a <= i < b, each once)"""
    e = strip_bb(D.R.local(local))
    for _ in range(3):
        if e[0] == "field" and e[2] in ("0", "as Some"):
            e = e[1]
        elif e[0] == "okval":
            e = e[1]
    if not (e[0] == "call" and (e[1] or "").endswith("iter::Iterator::next") and e[3]):
        return None
    it = e[3][0]
    if it[0] not in ("ref", "place") or len(it[1]) != 1:
        return None
    (root, proj) = next(iter(it[1]))
    if root[0] != "loc" or proj:
        return None
    ie = strip_bb(D.R.init_expr(root[1]))
    for _ in range(2):
        if ie[0] == "call" and (ie[1] or "").endswith("IntoIterator::into_iter") and ie[3]:
            ie = ie[3][0]
    if ie[0] == "agg" and (ie[1] or "").endswith("ops::Range") and len(ie[3]) == 2:
        return ("range", D.num(ie[3][0]), D.num(ie[3][1]))
    r = _iter_item(D, local)
    if r is not None and r[0] == ("index",):
        return r[1]
    return None


def _iter_item(D, local):
    """for a local bound to (a component of) the item of `for .. in <iterator expression>`: (element descriptor,
    iteration range) where the element descriptor is ('elemof', slice descriptor) — or None"""
    e = strip_bb(D.R.local(local))
    path = []
    for _ in range(8):
        if e[0] == "field":
            path.append(e[2])
            e = e[1]
        elif e[0] == "okval":
            path.append("0")
            path.append("as Some")
            e = e[1]
        else:
            break
    path.reverse()
    if not (e[0] == "call" and (e[1] or "").endswith("iter::Iterator::next") and e[3]):
        return None
    it = e[3][0]
    if it[0] not in ("ref", "place") or len(it[1]) != 1:
        return None
    (root, proj) = next(iter(it[1]))
    if root[0] != "loc" or proj:
        return None
    shape = _iter_shape(D, strip_bb(D.R.init_expr(root[1])))
    if shape is None:
        return None
    # the payload of Some, then tuple components
    if path[:1] == ["as Some"]:
        path = path[1:]
    if path[:1] == ["0"]:
        path = path[1:]
    else:
        return None
    item = _item_of(shape)
    for f in path:
        if not (isinstance(item, tuple) and item and item[0] == "tuple" and f in ("0", "1")):
            return None
        item = item[1 + int(f)]
    if not (isinstance(item, tuple) and item[0] in ("elemof", "index")):
        return None
    lens = _leaf_lengths(shape)
    if lens is None or len(set(lens)) != 1:
        return None
    return item, ("range", 0, lens[0]), root[1]


def _iter_shape(D, e):
    if e[0] in ("unsize", "sized"):
        return _iter_shape(D, e[1])
    if e[0] == "call":
        d = e[1] or ""
        if d.endswith("IntoIterator::into_iter") and e[3]:
            return _iter_shape(D, e[3][0])
        if (d.endswith("<impl [T]>::iter_mut") or d.endswith("<impl [T]>::iter")) and e[3]:
            return ("iter", D.d(e[3][0]))
        if d.endswith("iter::Iterator::enumerate") and len(e[3]) == 1:
            a = _iter_shape(D, e[3][0])
            return None if a is None else ("enum", a)
        if d.endswith("iter::Iterator::zip") and len(e[3]) == 2:
            a, b = _iter_shape(D, e[3][0]), _iter_shape(D, e[3][1])
            if a is None or b is None:
                return None
            return ("zip", a, b)
        if is_index_call(e):
            return ("iter", D.d(e))
        return None
    if e[0] in ("arg", "ref", "place", "aref", "local"):
        return ("iter", D.d(e))
    return None


def _item_of(shape):
    if shape[0] == "iter":
        return ("elemof", shape[1])
    if shape[0] == "enum":
        return ("tuple", ("index",), _item_of(shape[1]))
    return ("tuple", _item_of(shape[1]), _item_of(shape[2]))


def _leaf_lengths(shape):
    """lengths of the zipped slices, when each is a whole slice or a prefix `[..n]` (so that position k of the
    iteration is element k of every slice)"""
    if shape[0] == "zip":
        a, b = _leaf_lengths(shape[1]), _leaf_lengths(shape[2])
        return None if a is None or b is None else a + b
    if shape[0] == "enum":
        return _leaf_lengths(shape[1])
    d = shape[1]
    if isinstance(d, tuple) and d and d[0] == "slice":
        if d[2][0] == "to":
            return [d[2][1]]
        return None
    if isinstance(d, tuple) and d and d[0] in ("param", "at"):
        return [("len", d)]
    return None


def _elem_base(d):
    """storage descriptor of a slice descriptor, in the spelling elem events use"""
    if isinstance(d, tuple) and d and d[0] == "slice":
        d = d[1]
    if isinstance(d, tuple) and d and d[0] == "param":
        return ("at", "p%d" % d[1])
    return d


def zipped_elem_event(D, fn, s):
    """`*x = op(*x, *y)` where x and y are items of one zipped iteration over slices: the element-wise update
    `L[i] = op(L[i], K[i])` for every i of the common length"""
    p = s["place"]["local"]
    r = _iter_item(D, p)
    if r is None or r[0][0] != "elemof":
        return None
    item, rng, _root = r
    base = _elem_base(item[1])
    if not (isinstance(base, tuple) and base[0] == "at" and isinstance(base[1], str) and base[1].startswith("local#")):
        return None

    def opd(o):
        if o["k"] == "const":
            return o.get("val")
        pl = o["place"]
        if not pl["proj"]:
            sd = fn.single_def(pl["local"])
            if sd and sd[1] != "term" and sd[2].get("k") == "assign" and sd[2]["rv"]["k"] == "use" and sd[2]["rv"]["op"]["k"] in ("copy", "move"):
                pl = sd[2]["rv"]["op"]["place"]
        if [e["k"] for e in pl["proj"]] == ["deref"]:
            r2 = _iter_item(D, pl["local"])
            if r2 is not None and r2[0][0] == "elemof" and r2[1] == rng:
                return ("elem", _elem_base(r2[0][1]))
        return ("?",)
    rv = s["rv"]
    if rv["k"] == "binop":
        val = (rv["op"], opd(rv["a"]), opd(rv["b"]))
    elif rv["k"] == "use":
        val = opd(rv["op"])
    else:
        return None
    return ("elem", base[1], (rng, val))


def compose_slices(desc):
    """x[a..][..n] is x[a..a+n]; x[a..][b..] is x[a+b..]"""
    if not (isinstance(desc, tuple) and desc[0] == "slice" and isinstance(desc[1], tuple) and desc[1] and desc[1][0] == "slice"):
        return desc
    inner, outer = desc[1], desc[2]
    if inner[2][0] == "from" and isinstance(outer, tuple):
        a = inner[2][1]

        def add(x, y):
            if x == 0:
                return y
            if y == 0:
                return x
            return ("+",) + tuple(sorted([x, y], key=repr))
        if outer[0] == "to":
            return ("slice", inner[1], ("range", a, add(a, outer[1])))
        if outer[0] == "from":
            return ("slice", inner[1], ("from", add(a, outer[1])))
        if outer[0] == "range":
            return ("slice", inner[1], ("range", add(a, outer[1]), add(a, outer[2])))
    return desc


def canon_slices(x):
    """recursively bring nested slices into the composed form (for comparisons only)"""
    if isinstance(x, tuple):
        y = tuple(canon_slices(e) for e in x)
        return compose_slices(y)
    if isinstance(x, frozenset):
        return frozenset(canon_slices(e) for e in x)
    return x


COMPOUND_OPS = {"ops::BitXorAssign::bitxor_assign": "BitXor", "ops::AddAssign::add_assign": "Add", "ops::BitOrAssign::bitor_assign": "BitOr", "ops::BitAndAssign::bitand_assign": "BitAnd"}


def compound_assign_event(D, fn, t):
    """`L[i] op= *k` on integers with a reference right-hand side is a call to `<u8 as OpAssign<&u8>>::op_assign(&mut L[i], k)`:
    the same element update as the statement form `L[i] = op(L[i], *k)`"""
    d = t["callee"].get("def") or ""
    op = next((v for k, v in COMPOUND_OPS.items() if d.endswith(k)), None)
    if op is None or len(t["args"]) != 2 or "<u8 as" not in str(t["callee"].get("resolved") or ""):
        return None
    a0, a1 = t["args"]
    if a0.get("k") not in ("move", "copy") or a0["place"]["proj"]:
        return None
    sd = fn.single_def(a0["place"]["local"])
    if not sd or sd[1] == "term" or sd[2].get("k") != "assign" or sd[2]["rv"]["k"] != "ref":
        return None
    pl = sd[2]["rv"]["place"]
    if [e["k"] for e in pl["proj"]] != ["index"] or fn.local_ty(pl["local"])["k"] != "array":
        return None
    l = pl["local"]
    idx_local = pl["proj"][0]["local"]
    idx = loop_index(D, idx_local) or D.num(strip_bb(D.R.local(idx_local)))
    rhs = ("?",)
    if a1.get("k") in ("move", "copy") and not a1["place"]["proj"]:
        kl = a1["place"]["local"]
        sd1 = fn.single_def(kl)
        if sd1 and sd1[1] != "term" and sd1[2].get("k") == "assign" and sd1[2]["rv"]["k"] == "use" and sd1[2]["rv"]["op"].get("k") in ("move", "copy") and not sd1[2]["rv"]["op"]["place"]["proj"]:
            kl = sd1[2]["rv"]["op"]["place"]["local"]
        ri = _iter_item(D, idx_local)
        rk = _iter_item(D, kl)
        if ri is not None and rk is not None and ri[0] == ("index",) and rk[0][0] == "elemof" and ri[2] == rk[2]:
            rhs = ("elem", _elem_base(rk[0][1]))
    return ("elem", "local#%d" % l, (idx, (op, ("elem", ("at", "local#%d" % l)), rhs)))


def distribute_ints(desc):
    """('slice', base, (kind, a + one-of-constants)) is one of the slices with each constant"""
    if not (isinstance(desc, tuple) and desc[0] == "slice" and isinstance(desc[2], tuple) and len(desc[2]) == 2):
        return desc
    kind, bound = desc[2]
    if isinstance(bound, tuple) and bound and bound[0] == "nums":
        return ("oneof", frozenset(("slice", desc[1], (kind, c)) for c in bound[1]))
    if isinstance(bound, tuple) and bound and bound[0] == "+" and len(bound) == 3:
        for i in (1, 2):
            x, other = bound[i], bound[3 - i]
            if isinstance(x, tuple) and x and x[0] == "ints":
                alts = set()
                for c in x[1]:
                    nb = other if c == 0 else ("+",) + tuple(sorted([other, c], key=repr))
                    alts.add(("slice", desc[1], (kind, nb)))
                return ("oneof", frozenset(alts))
    return desc


def events(fn, G, D, blocks, interface, base_facts=frozenset()):
    """ordered call events in `blocks` (by block index ~ source order): (bb, short callee, arg descriptors, guard facts)
    interface: predicate on the declared callee def path"""
    out = []
    for bi in sorted(blocks):
        t = fn.blocks[bi]["term"]
        if t["k"] != "call":
            continue
        d = t["callee"].get("def") or ""
        if not interface(d):
            continue
        args = tuple(D.op(a) for a in t["args"])
        facts = G.before_term(bi)
        guards = frozenset(f for f in facts if f[0] in ("bool", "cmp") and f not in base_facts)
        out.append((bi, "::".join(d.split("::")[-2:]), args, guards))
    return out


def variant_regions(fn, G, enum_suffix, F):
    """{variant idx: set(blocks)} for the match on a value of the given enum type; plus the matched expression"""
    by_expr = {}
    for bi in fn.reachable():
        for f in G.at_entry(bi):
            if f[0] == "variant":
                by_expr.setdefault(f[1], {}).setdefault(f[2], set()).add(bi)
    best = None
    adt = F.adt(enum_suffix)
    nvar = len(adt["variants"])
    for x, regs in by_expr.items():
        if len(regs) >= min(4, nvar) and all(i < nvar for i in regs):
            if best is None or len(regs) > len(best[1]):
                best = (x, regs)
    return best


def body_events(fn, G, D, pts, want_call=lambda d: True):
    """calls and writes-to-argument-memory of a body in dominance order:
    ('call', callee, args, bb, term) / ('assign', dst chain, value descriptor, bb, stmt)"""
    import functools
    evs = []
    for bi in sorted(fn.reachable()):
        b = fn.blocks[bi]
        if b["cleanup"]:
            continue
        for si, s in enumerate(b["stmts"]):
            if s["k"] == "assign" and [e["k"] for e in s["place"]["proj"]] == ["deref"]:
                ev = zipped_elem_event(D, fn, s)
                if ev is not None:
                    evs.append(ev + (bi, s, si))
                    continue
            if s["k"] == "assign" and s["place"]["proj"]:
                paths = pts.resolve_place(s["place"])
                ext = [(r, p) for r, p in paths if r[0] == "ext"]
                if ext:
                    val = D.d(strip_bb(D.R.rvalue(s["rv"])))
                    evs.append(("assign", D.chain_of(set(ext)), val, bi, s, si))
                elif all(e["k"] == "index" for e in s["place"]["proj"]) and fn.local_ty(s["place"]["local"])["k"] == "array":
                    l = s["place"]["local"]
                    idx = loop_index(D, s["place"]["proj"][0]["local"]) or D.num(strip_bb(D.R.local(s["place"]["proj"][0]["local"])))
                    evs.append(("elem", "local#%d" % l, (idx, D.elem_value(l, s["rv"], s["place"]["proj"][0]["local"])), bi, s, si))
            elif s["k"] == "assign" and not s["place"]["proj"] and s["rv"]["k"] == "repeat" and s["place"]["local"] in D.R.mut_borrowed | set(l2 for l2 in range(len(fn.locals)) if len(fn.defs().get(l2, [])) > 1):
                evs.append(("init", "local#%d" % s["place"]["local"], ("repeat", s["rv"]["op"].get("val"), s["rv"]["n"]), bi, s, si))
        t = b["term"]
        if t["k"] == "call":
            d = t["callee"].get("def") or ""
            ev = compound_assign_event(D, fn, t)
            if ev is not None:
                evs.append(ev + (bi, t, 10 ** 6))
            elif want_call(d):
                evs.append(("call", d, tuple(D.op(a) for a in t["args"]), bi, t, 10 ** 6))

    def cmp(a, b):
        if a[3] == b[3]:
            return -1 if a[5] < b[5] else 1 if a[5] > b[5] else 0
        if fn.dominates(a[3], b[3]):
            return -1
        if fn.dominates(b[3], a[3]):
            return 1
        return -1 if a[3] < b[3] else 1
    return sorted(evs, key=functools.cmp_to_key(cmp))
