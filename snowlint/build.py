"""Build the snowfacts driver and export facts for a feature configuration of /repo.

Facts are cached under /verif/.cache keyed by a content hash of /repo's working tree and of the
driver sources, so the 20 checks share one export per configuration while any edit to /repo
forces a re-export."""
import fcntl
import hashlib
import os
import shutil
import subprocess
import sys
import time

VERIF = os.path.dirname(os.path.dirname(os.path.abspath(__file__)))
REPO = os.environ.get("SNOW_REPO", "/repo")
CACHE = os.environ.get("SNOWLINT_CACHE", os.path.join(VERIF, ".cache"))
DRIVER_DIR = os.path.join(VERIF, "snowfacts")
DRIVER = os.path.join(DRIVER_DIR, "target", "debug", "snowfacts")

CONFIGS = {
    "A": [],
    "B": ["--features", "ring-resolver use-p256 use-xchacha20poly1305"],
    "C": ["--features", "ring-resolver use-p256 use-xchacha20poly1305 hfs use-pqcrypto-kyber1024 risky-raw-split vector-tests"],
    "D": ["--no-default-features", "--features", "default-resolver use-curve25519 use-blake2 use-chacha20poly1305"],
    # ring-accelerated: Builder::new uses FallbackResolver(Ring, Default)
    "E": ["--features", "ring-accelerated use-p256 use-xchacha20poly1305"],
}


REPO_DEFAULT = "/repo"


class BuildError(Exception):
    pass


def _env():
    e = dict(os.environ)
    e["CARGO_NET_OFFLINE"] = "true"
    e["RUSTC_ICE"] = "0"
    e.pop("RUSTC_WRAPPER", None)
    return e


def nightly_sysroot():
    return subprocess.check_output(["rustc", "+nightly", "--print", "sysroot"], env=_env(), text=True).strip()


def _hash_files(root, rels):
    h = hashlib.sha256()
    for r in sorted(rels):
        p = os.path.join(root, r)
        if not os.path.isfile(p):
            continue
        h.update(r.encode())
        h.update(b"\0")
        with open(p, "rb") as f:
            h.update(f.read())
        h.update(b"\0")
    return h.hexdigest()


def repo_hash(repo=None):
    repo = repo or REPO
    rels = []
    for base in ("src",):
        for dp, dn, fn in os.walk(os.path.join(repo, base)):
            for f in fn:
                rels.append(os.path.relpath(os.path.join(dp, f), repo))
    for f in ("Cargo.toml", "Cargo.lock", "build.rs"):
        rels.append(f)
    return _hash_files(repo, rels)


def driver_hash():
    rels = ["Cargo.toml", "rust-toolchain.toml"]
    for f in os.listdir(os.path.join(DRIVER_DIR, "src")):
        rels.append(os.path.join("src", f))
    return _hash_files(DRIVER_DIR, rels)


def ensure_driver(verbose=False):
    os.makedirs(CACHE, exist_ok=True)
    stamp = os.path.join(CACHE, "driver.hash")
    want = driver_hash()
    if os.path.exists(DRIVER) and os.path.exists(stamp) and open(stamp).read() == want:
        return
    with open(os.path.join(CACHE, "driver.lock"), "w") as lk:
        fcntl.flock(lk, fcntl.LOCK_EX)
        if os.path.exists(DRIVER) and os.path.exists(stamp) and open(stamp).read() == want:
            return
        r = subprocess.run(["cargo", "+nightly", "build", "--offline"], cwd=DRIVER_DIR, env=_env(),
                           stdout=subprocess.PIPE, stderr=subprocess.STDOUT, text=True)
        if r.returncode != 0:
            raise BuildError("driver build failed:\n" + r.stdout[-4000:])
        with open(stamp, "w") as f:
            f.write(want)


def export_facts(cfg, repo=None, verbose=False, extra_rustflags="", tag=""):
    """Return path to a facts JSON for configuration `cfg` of the current /repo working tree."""
    repo = repo or REPO
    ensure_driver(verbose)
    rh = repo_hash(repo)
    key = hashlib.sha256((rh + driver_hash() + cfg + extra_rustflags + os.path.abspath(repo)).encode()).hexdigest()[:16]
    # fact files are per analysed tree (rid): concurrent runs on scratch copies never delete each other's exports
    scratch = os.path.abspath(repo) != os.path.abspath(REPO_DEFAULT)
    rid = ("s" + hashlib.sha256(os.path.abspath(repo).encode()).hexdigest()[:8]) if scratch else "repo"
    out = os.path.join(CACHE, "facts-%s%s-%s-%s.json" % (cfg, tag, rid, key))
    if os.path.exists(out) and os.path.getsize(out) > 1000:
        return out
    os.makedirs(CACHE, exist_ok=True)
    with open(os.path.join(CACHE, "export-%s%s.lock" % (cfg, tag)), "w") as lk:
        fcntl.flock(lk, fcntl.LOCK_EX)
        if os.path.exists(out) and os.path.getsize(out) > 1000:
            return out
        # drop stale fact files of this cfg
        for f in os.listdir(CACHE):
            if f.startswith("facts-%s%s-%s-" % (cfg, tag, rid)) and f.endswith(".json"):
                try:
                    os.remove(os.path.join(CACHE, f))
                except OSError:
                    pass
        # scratch repos get their own target dir name so they never poison /repo's cache
        tname = "target-%s%s" % (cfg, tag)
        if scratch:
            tname += "-scratch"
        target = os.path.join(CACHE, tname)
        # defeat cargo's freshness cache for the analysed crate only
        for prof in ("debug",):
            fp = os.path.join(target, prof, ".fingerprint")
            if os.path.isdir(fp):
                for d in os.listdir(fp):
                    if d.startswith("snow-"):
                        shutil.rmtree(os.path.join(fp, d), ignore_errors=True)
        env = _env()
        env["LD_LIBRARY_PATH"] = os.path.join(nightly_sysroot(), "lib") + ":" + env.get("LD_LIBRARY_PATH", "")
        env["RUSTFLAGS"] = ("-Zmir-opt-level=0 -Awarnings " + extra_rustflags).strip()
        env["RUSTC_WORKSPACE_WRAPPER"] = DRIVER
        env["SNOWFACTS_OUT"] = out
        env["SNOWFACTS_CRATE"] = "snow"
        env["CARGO_TARGET_DIR"] = target
        cmd = ["cargo", "+nightly", "check", "--offline", "--lib"] + CONFIGS[cfg]
        t0 = time.time()
        r = subprocess.run(cmd, cwd=repo, env=env, stdout=subprocess.PIPE, stderr=subprocess.STDOUT, text=True)
        if r.returncode != 0:
            raise BuildError("cargo check (cfg %s) failed:\n%s" % (cfg, r.stdout[-6000:]))
        if not os.path.exists(out):
            raise BuildError("cfg %s: driver did not write facts (cargo replayed a cached unit?)\n%s" % (cfg, r.stdout[-2000:]))
        if verbose:
            print("exported facts cfg %s in %.1fs -> %s" % (cfg, time.time() - t0, out), file=sys.stderr)
    return out


def drop_scratch_facts(repo):
    """remove the cached fact files of a scratch tree (called by the self-test tools when they delete the tree)"""
    rid = "s" + hashlib.sha256(os.path.abspath(repo).encode()).hexdigest()[:8]
    if os.path.isdir(CACHE):
        for f in os.listdir(CACHE):
            if f.startswith("facts-") and ("-%s-" % rid) in f:
                try:
                    os.remove(os.path.join(CACHE, f))
                except OSError:
                    pass


if __name__ == "__main__":
    cfgs = sys.argv[1:] or ["A", "B"]
    for c in cfgs:
        print(export_facts(c, verbose=True))
