"""Run the compile-only witness doc-tests against the repository being checked."""
import fcntl
import hashlib
import os
import re
import shutil
import subprocess

from . import build

WITNESS_SRC = os.path.join(build.VERIF, "witness", "src", "lib.rs")


def run_witnesses(repo=None):
    """returns (results: {test name: 'ok'|'FAILED'}, raw output). Raises BuildError when cargo cannot run."""
    repo = repo or build.REPO
    key = hashlib.sha256((build.repo_hash(repo) + open(WITNESS_SRC).read() + os.path.abspath(repo)).encode()).hexdigest()[:16]
    wdir = os.path.join(build.CACHE, "witness")
    os.makedirs(os.path.join(wdir, "src"), exist_ok=True)
    cache = os.path.join(build.CACHE, "witness-result-%s.txt" % key)
    if os.path.exists(cache):
        out = open(cache).read()
        return parse(out), out
    with open(os.path.join(build.CACHE, "witness.lock"), "w") as lk:
        fcntl.flock(lk, fcntl.LOCK_EX)
        if os.path.exists(cache):
            out = open(cache).read()
            return parse(out), out
        shutil.copy(WITNESS_SRC, os.path.join(wdir, "src", "lib.rs"))
        with open(os.path.join(wdir, "Cargo.toml"), "w") as f:
            f.write('[package]\nname = "snow-witness"\nversion = "0.0.0"\nedition = "2021"\n\n[dependencies]\nsnow = { path = "%s" }\n\n[workspace]\n' % os.path.abspath(repo))
        lock = os.path.join(repo, "Cargo.lock")
        if os.path.exists(lock):
            shutil.copy(lock, os.path.join(wdir, "Cargo.lock"))
        env = build._env()
        env["CARGO_TARGET_DIR"] = os.path.join(build.CACHE, "target-witness")
        r = subprocess.run(["cargo", "+nightly", "test", "--doc", "--offline", "--", "--test-threads", "8"], cwd=wdir, env=env,
                           stdout=subprocess.PIPE, stderr=subprocess.STDOUT, text=True)
        out = r.stdout
        if "test result:" not in out:
            raise build.BuildError("witness doc-tests could not be run:\n" + out[-3000:])
        for f in os.listdir(build.CACHE):
            if f.startswith("witness-result-"):
                os.remove(os.path.join(build.CACHE, f))
        with open(cache, "w") as f:
            f.write(out)
    return parse(out), out


def parse(out):
    res = {}
    rows = []
    for m in re.finditer(r"^test (src/lib\.rs - (\S+) \(line (\d+)\))( - compile fail)?( - compile)? \.\.\. (ok|FAILED)", out, re.M):
        rows.append((m.group(2), int(m.group(3)), "compile_fail" if m.group(4) else "compile", m.group(6)))
    rows.sort()
    cnt = {}
    for (name, line, kind, r) in rows:
        k = (name, kind)
        cnt[k] = cnt.get(k, 0) + 1
        res["%s:%s#%d" % (name, kind, cnt[k])] = r
    return res


def check(ctx, names, rule="type-witness", floor=None):
    """record one obligation per witness doc-test of the given item names"""
    from . import build as _b
    res, out = run_witnesses(_b.REPO)
    n = 0
    for k, v in sorted(res.items()):
        if k.split(":")[0] in names:
            n += 1
            kind = k.split(":")[1].split("#")[0]
            ctx.ob(rule, k, v == "ok",
                   ("does not type-check, as required" if kind == "compile_fail" else "type-checks (twin)") if v == "ok"
                   else ("the offending program now compiles (or fails with a different error)" if kind == "compile_fail" else "the valid twin no longer compiles"),
                   "/verif/witness/src/lib.rs", "witness")
    ctx.floor(rule, n, floor if floor is not None else len(names), "witness")
    return n
