"""Helpers over the exported (macro-expanded, name-resolved, typed) HIR trees, and extraction of
the hand-written tables of snow as data."""
from .facts import AnchorError, Inconclusive

CHILD_KEYS = ("elems", "args", "stmts", "arms", "fields")
CHILD_SINGLE = ("f", "recv", "a", "b", "cond", "then", "else", "scrut", "body", "expr", "init", "lhs", "rhs", "i", "base", "guard", "e", "els")


def walk(e):
    """pre-order walk over all expression nodes"""
    if not isinstance(e, dict):
        return
    yield e
    for k in CHILD_SINGLE:
        v = e.get(k)
        if isinstance(v, dict):
            yield from walk(v)
    for k in CHILD_KEYS:
        v = e.get(k)
        if isinstance(v, list):
            for x in v:
                if isinstance(x, dict):
                    if "k" not in x:
                        # arm / struct field wrappers
                        for kk in ("body", "guard", "e"):
                            if isinstance(x.get(kk), dict):
                                yield from walk(x[kk])
                    else:
                        yield from walk(x)


def strip(e):
    """see through blocks with a single tail expr, addrof, casts, DropTemps"""
    while isinstance(e, dict):
        k = e.get("k")
        if k == "block" and not e.get("stmts") and "expr" in e:
            e = e["expr"]
        elif k in ("addrof", "cast"):
            e = e["a"]
        else:
            break
    return e


def res_def(e):
    """def path of a path expression (or None)"""
    e = strip(e)
    if isinstance(e, dict) and e.get("k") == "path" and e["path"].get("res") == "def":
        return e["path"]["def"]
    return None


def res_local(e):
    e = strip(e)
    if isinstance(e, dict) and e.get("k") == "path" and e["path"].get("res") == "local":
        return e["path"]["name"]
    return None


def pat_alts(p):
    """flatten a pattern into alternatives:
    ('variant', defpath, [subalts...]) | ('str', s) | ('int', n) | ('wild',) | ('bind', name) | ('tuple', [alts-lists])"""
    k = p["k"]
    if k == "por":
        out = []
        for x in p["pats"]:
            out += pat_alts(x)
        return out
    if k == "wild":
        return [("wild",)]
    if k == "bind":
        if "sub" in p:
            return pat_alts(p["sub"])
        return [("bind", p["name"])]
    if k == "ppath":
        r = p["path"]
        if r.get("res") == "def":
            return [("variant", r["def"], [])]
        return [("other",)]
    if k == "plit":
        if "str" in p:
            return [("str", p["str"])]
        if "int" in p:
            return [("int", p["int"])]
        if "bool" in p:
            return [("bool", p["bool"])]
        return [("other",)]
    if k == "ptuplestruct":
        r = p["path"]
        return [("variant", r.get("def"), [pat_alts(x) for x in p["pats"]])]
    if k == "ptuple":
        return [("tuple", [pat_alts(x) for x in p["pats"]])]
    if k == "pref":
        return pat_alts(p["pat"])
    return [("other",)]


def variant_name(defpath):
    """last path segment of a variant / ctor def path"""
    return defpath.split("::")[-1] if defpath else None


def ty_s(F, e):
    t = e.get("t")
    return F.types[t]["s"] if t is not None else None


# ------------------------------------------------------------------ boolean tables over an enum


def bool_table(F, body_value, variants, params):
    """Evaluate a table-shaped boolean HIR expression for every enum variant.
    variants: list of variant def paths (the values of `self`); params: dict name->bool.
    Supported forms: literal bool, !e, if <param> {a} else {b}, match self { A|B => lit, _ => lit }, blocks."""
    out = {}
    for v in variants:
        out[v] = _eval_bool(F, body_value, v, params)
    return out


def _eval_bool(F, e, selfv, params, depth=0):
    while e.get("k") == "block" and not e.get("stmts") and "expr" in e:
        e = e["expr"]
    e = strip(e) if e.get("k") in ("paren", "dropt", "use") else e
    k = e.get("k")
    if k == "lit" and "bool" in e:
        return e["bool"]
    name = res_local(e)
    if name is not None:
        if name in params and isinstance(params[name], bool):
            return params[name]
        raise Inconclusive("table refers to local %r which is not a boolean parameter" % name)
    if k == "unary" and e["op"] == "Not":
        return not _eval_bool(F, e["a"], selfv, params, depth)
    if k == "if":
        c = _eval_bool(F, e["cond"], selfv, params, depth)
        br = e["then"] if c else e.get("else")
        if br is None:
            raise Inconclusive("if without else in table")
        return _eval_bool(F, br, selfv, params, depth)
    if k == "match":
        if res_local(e["scrut"]) != "self":
            raise Inconclusive("table match scrutinee is not self")
        for arm in e["arms"]:
            if "guard" in arm:
                raise Inconclusive("guarded arm in table")
            for alt in pat_alts(arm["pat"]):
                if alt[0] == "wild" or alt[0] == "bind" or (alt[0] == "variant" and ctor_matches(alt[1], selfv)):
                    return _eval_bool(F, arm["body"], selfv, params, depth)
        raise Inconclusive("non-exhaustive table match")
    if k == "binary" and e["op"] in ("&&", "||"):
        a = _eval_bool(F, e["a"], selfv, params, depth)
        if e["op"] == "&&":
            return a and _eval_bool(F, e["b"], selfv, params, depth)
        return a or _eval_bool(F, e["b"], selfv, params, depth)
    if k == "binary" and e["op"] in ("==", "!="):
        try:
            a = _eval_bool(F, e["a"], selfv, params, depth)
            b = _eval_bool(F, e["b"], selfv, params, depth)
            return (a == b) if e["op"] == "==" else (a != b)
        except Inconclusive:
            raise Inconclusive("unsupported comparison in table")
    if k == "mcall" and res_local(e["recv"]) == "self" and e.get("def") and depth < 4:
        # another predicate of the same enum, applied to the same value: evaluate its body
        cands = [b for p2, b in F.bodies.items() if p2 == e["def"] and "hir" in b]
        if len(cands) == 1:
            b = cands[0]
            pn = []
            for p2 in b["hir"]["params"]:
                for alt in pat_alts(p2):
                    if alt[0] == "bind":
                        pn.append(alt[1])
            pn = [n for n in pn if n != "self"]
            if len(pn) == len(e["args"]):
                env = {n: _eval_bool(F, a, selfv, params, depth) for n, a in zip(pn, e["args"])}
                return _eval_bool(F, b["hir"]["value"], selfv, env, depth + 1)
        raise Inconclusive("table calls %s which cannot be evaluated" % e.get("def"))
    raise Inconclusive("unsupported table expression kind %r" % k)


def ctor_matches(pat_def, variant_def):
    """a unit-variant pattern resolves to the variant's Ctor def (…::N::{constructor#0}) or the variant"""
    if pat_def is None:
        return False
    a = pat_def.replace("::{constructor#0}", "")
    b = variant_def.replace("::{constructor#0}", "")
    return a == b


# ------------------------------------------------------------------ token tables


def token_of(F, e):
    """a Token expression -> 'E' | 'S' | ('Dh','Es') | ('Psk', n) | ..."""
    e = strip(e)
    d = res_def(e)
    if d is not None:
        return variant_name(d.replace("::{constructor#0}", ""))
    if e.get("k") == "call":
        f = res_def(e["f"])
        if f is not None:
            name = variant_name(f.replace("::{constructor#0}", ""))
            args = []
            for a in e["args"]:
                a = strip(a)
                ad = res_def(a)
                if ad is not None:
                    args.append(variant_name(ad.replace("::{constructor#0}", "")))
                elif a.get("k") == "lit" and "int" in a:
                    args.append(a["int"])
                else:
                    args.append("?")
            return (name,) + tuple(args)
    raise Inconclusive("unrecognised token expression")


def token_lists(F, e, token_ty_suffix="params::patterns::Token"):
    """all `[Token; n]` array literals under e (following nested statics), in source order"""
    out = []

    def rec(x):
        if not isinstance(x, dict):
            return
        k = x.get("k")
        if k == "array":
            t = ty_s(F, x)
            if t and t.startswith("[") and token_ty_suffix in t.split(";")[0] and "&" not in t.split(";")[0]:
                out.append([token_of(F, el) for el in x["elems"]])
                return
        if k == "item" and x.get("kind", "").startswith("Static"):
            b = F.by_uid.get(x.get("uid")) or F.bodies.get(x["def"])
            if b and "hir" in b:
                rec(b["hir"]["value"])
            return
        if k == "path" and x["path"].get("res") == "def" and x["path"].get("kind", "").startswith("Static"):
            # value position reference to a static: follow only if it is a Token slice
            return
        for kk in CHILD_SINGLE:
            v = x.get(kk)
            if isinstance(v, dict):
                rec(v)
        for kk in CHILD_KEYS:
            v = x.get(kk)
            if isinstance(v, list):
                for y in v:
                    if isinstance(y, dict):
                        if "k" not in y:
                            for k3 in ("body", "guard", "e"):
                                if isinstance(y.get(k3), dict):
                                    rec(y[k3])
                        else:
                            rec(y)

    rec(e)
    return out


def pattern_table(F):
    """{variant name: (premsg_i, premsg_r, [msg token lists])} from HandshakeTokens::try_from"""
    cands = [b for p, b in F.bodies.items() if b.get("kind") == "AssocFn" and b.get("name") == "try_from"
             and "HandshakeTokens" in (b.get("self_ty") or "") and "hir" in b]
    if len(cands) != 1:
        raise AnchorError("TryFrom impl for HandshakeTokens not found uniquely (%d)" % len(cands))
    body = cands[0]
    tables = []
    for e in walk(body["hir"]["value"]):
        if e.get("k") == "match" and e.get("scrut_t") is not None:
            st = F.types[e["scrut_t"]]
            if st.get("k") == "adt" and st["adt"].endswith("::HandshakePattern"):
                tables.append(e)
    if len(tables) != 1:
        raise AnchorError("pattern table match not found uniquely in try_from (%d)" % len(tables))
    m = tables[0]
    out = {}
    lines = {}
    for arm in m["arms"]:
        alts = pat_alts(arm["pat"])
        body_e = strip(arm["body"])
        if body_e.get("k") != "tup" or len(body_e["elems"]) != 3:
            raise Inconclusive("pattern table arm body is not a 3-tuple")
        pre_i = token_lists(F, body_e["elems"][0])
        pre_r = token_lists(F, body_e["elems"][1])
        msgs = token_lists(F, body_e["elems"][2])
        if len(pre_i) != 1 or len(pre_r) != 1:
            raise Inconclusive("pre-message list not recognised in pattern table arm")
        for alt in alts:
            if alt[0] != "variant":
                raise Inconclusive("non-variant pattern in pattern table")
            name = variant_name(alt[1].replace("::{constructor#0}", ""))
            out[name] = (pre_i[0], pre_r[0], msgs)
            lines[name] = arm.get("l")
    return out, lines, cands[0]


def enum_variants(F, adt_suffix):
    a = F.adt(adt_suffix)
    return [(v["name"], a["path"] + "::" + v["name"]) for v in a["variants"]]


def find_body(F, suffix):
    l = [b for p, b in F.bodies.items() if p.endswith("::" + suffix) or p == suffix]
    if len(l) != 1:
        raise AnchorError("body %r matched %d" % (suffix, len(l)))
    return l[0]


# ------------------------------------------------------------------ string -> variant tables (FromStr)


def fromstr_table(F, self_ty_suffix):
    """literal -> variant name map of `impl FromStr for <type>`; plus the catch-all error variant"""
    cands = [b for p, b in F.bodies.items() if b.get("name") == "from_str" and (b.get("self_ty") or "").endswith(self_ty_suffix)
             and b.get("impl_trait", "").endswith("str::FromStr") and "hir" in b]
    if len(cands) != 1:
        raise AnchorError("FromStr impl for %s not found uniquely (%d)" % (self_ty_suffix, len(cands)))
    body = cands[0]
    ms = [e for e in walk(body["hir"]["value"]) if e.get("k") == "match" and e.get("src", "").startswith("Normal")]
    strm = []
    for m in ms:
        st = F.types[m["scrut_t"]]["s"] if m.get("scrut_t") is not None else ""
        if st in ("&str", "&'static str") or st.endswith("str"):
            strm.append(m)
    if len(strm) != 1:
        raise AnchorError("FromStr %s: string match not found uniquely (%d)" % (self_ty_suffix, len(strm)))
    m = strm[0]
    table = {}
    default = None
    guarded = []
    for arm in m["arms"]:
        body_e = strip(arm["body"])
        for alt in pat_alts(arm["pat"]):
            if "guard" in arm:
                guarded.append(arm)
                continue
            if alt[0] == "str":
                table[alt[1]] = result_ctor(F, body_e)
            elif alt[0] in ("wild", "bind"):
                default = result_ctor(F, body_e)
            else:
                raise Inconclusive("FromStr %s: unsupported pattern" % self_ty_suffix)
    return table, default, guarded, body


def result_ctor(F, e):
    """Ok(Variant) -> ('Ok', 'Variant'); Err(X.into()) / return Err(..) -> ('Err', 'X')"""
    e = strip(e)
    if e.get("k") == "ret" and "a" in e:
        e = strip(e["a"])
    if e.get("k") == "call":
        f = res_def(e["f"])
        fname = variant_name((f or "").replace("::{constructor#0}", ""))
        if fname in ("Ok", "Err", "Some") and e["args"]:
            a = strip(e["args"][0])
            # x.into()
            if a.get("k") == "mcall" and a["name"] == "into":
                a = strip(a["recv"])
            d = res_def(a)
            if d:
                return (fname, variant_name(d.replace("::{constructor#0}", "")))
            if a.get("k") == "call":
                d2 = res_def(a["f"])
                if d2:
                    inner = strip(a["args"][0]) if a["args"] else None
                    id2 = res_def(inner) if inner else None
                    return (fname, variant_name(d2.replace("::{constructor#0}", "")), variant_name(id2.replace("::{constructor#0}", "")) if id2 else None)
            return (fname, None)
    d = res_def(e)
    if d:
        return ("path", variant_name(d.replace("::{constructor#0}", "")))
    return ("?", None)
