//! snowfacts — a rustc_private driver that exports type-checked facts (items, MIR, HIR, ADTs,
//! trait impls, constants) of one crate as JSON. Used as RUSTC_WORKSPACE_WRAPPER.
//!
//! env SNOWFACTS_CRATE (default "snow"): crate name to export
//! env SNOWFACTS_OUT: output file (one write per process)
#![feature(rustc_private)]
#![allow(clippy::all)]

extern crate rustc_abi;
extern crate rustc_ast;
extern crate rustc_data_structures;
extern crate rustc_driver;
extern crate rustc_hir;
extern crate rustc_index;
extern crate rustc_infer;
extern crate rustc_interface;
extern crate rustc_middle;
extern crate rustc_span;
extern crate rustc_trait_selection;

mod hirx;
mod json;
mod mirx;

use json::J;
use rustc_driver::Compilation;
use rustc_hir::def::DefKind;
use rustc_hir::def_id::{DefId, LocalDefId};
use rustc_interface::interface::Compiler;
use rustc_middle::ty::{self, Ty, TyCtxt, TypingEnv};
use std::collections::HashMap;

pub struct Cx<'tcx> {
    pub tcx: TyCtxt<'tcx>,
    pub types: Vec<J>,
    pub type_ids: HashMap<Ty<'tcx>, usize>,
}

pub fn dps(tcx: TyCtxt<'_>, did: DefId) -> String {
    let s = ty::print::with_no_trimmed_paths!(tcx.def_path_str(did));
    if did.is_local() {
        format!("{}::{}", tcx.crate_name(did.krate), s)
    } else {
        s
    }
}

pub fn uid(tcx: TyCtxt<'_>, did: DefId) -> String {
    tcx.def_path(did).to_string_no_crate_verbose()
}

pub fn span_json(tcx: TyCtxt<'_>, sp: rustc_span::Span) -> J {
    let sm = tcx.sess.source_map();
    let exp = sp.from_expansion();
    let sp2 = if exp { sp.source_callsite() } else { sp };
    let lo = sm.lookup_char_pos(sp2.lo());
    let file = match &lo.file.name {
        rustc_span::FileName::Real(r) => {
            r.local_path().map(|p| p.display().to_string()).unwrap_or_else(|| format!("{:?}", r))
        },
        other => format!("{:?}", other),
    };
    J::Obj(vec![("f", J::s(file)), ("l", J::u(lo.line)), ("x", J::Bool(exp))])
}

pub fn line_of(tcx: TyCtxt<'_>, sp: rustc_span::Span) -> usize {
    let sm = tcx.sess.source_map();
    let sp2 = if sp.from_expansion() { sp.source_callsite() } else { sp };
    sm.lookup_char_pos(sp2.lo()).line
}

impl<'tcx> Cx<'tcx> {
    pub fn ty_id(&mut self, t: Ty<'tcx>) -> usize {
        if let Some(&i) = self.type_ids.get(&t) {
            return i;
        }
        let idx = self.types.len();
        self.types.push(J::Null);
        self.type_ids.insert(t, idx);
        let tcx = self.tcx;
        let s = ty::print::with_no_trimmed_paths!(t.to_string());
        let mut o: Vec<(&'static str, J)> = vec![("s", J::s(s))];
        match t.kind() {
            ty::Bool => o.push(("k", J::s("bool"))),
            ty::Char => o.push(("k", J::s("char"))),
            ty::Int(i) => {
                o.push(("k", J::s("int")));
                o.push(("w", J::s(i.name_str())));
            },
            ty::Uint(u) => {
                o.push(("k", J::s("uint")));
                o.push(("w", J::s(u.name_str())));
            },
            ty::Str => o.push(("k", J::s("str"))),
            ty::Never => o.push(("k", J::s("never"))),
            ty::Ref(_, inner, m) => {
                o.push(("k", J::s(if m.is_mut() { "refmut" } else { "ref" })));
                let i = self.ty_id(*inner);
                o.push(("inner", J::u(i)));
            },
            ty::RawPtr(inner, m) => {
                o.push(("k", J::s(if m.is_mut() { "ptrmut" } else { "ptr" })));
                let i = self.ty_id(*inner);
                o.push(("inner", J::u(i)));
            },
            ty::Slice(inner) => {
                o.push(("k", J::s("slice")));
                let i = self.ty_id(*inner);
                o.push(("inner", J::u(i)));
            },
            ty::Array(inner, len) => {
                o.push(("k", J::s("array")));
                let i = self.ty_id(*inner);
                o.push(("inner", J::u(i)));
                match len.try_to_target_usize(tcx) {
                    Some(n) => o.push(("len", J::Int(n as i128))),
                    None => o.push(("len", J::Null)),
                }
            },
            ty::Tuple(tys) => {
                o.push(("k", J::s("tuple")));
                let v: Vec<J> = tys.iter().map(|x| J::u(self.ty_id(x))).collect();
                o.push(("elems", J::Arr(v)));
            },
            ty::Adt(adt, args) => {
                o.push(("k", J::s("adt")));
                o.push(("adt", J::s(dps(tcx, adt.did()))));
                o.push(("local", J::Bool(adt.did().is_local())));
                let v: Vec<J> = args.types().map(|x| J::u(self.ty_id(x))).collect();
                o.push(("args", J::Arr(v)));
                // instantiated field types of local ADTs (for deep Freeze walks)
                if adt.did().is_local() && !adt.is_enum() {
                    let fields: Vec<J> = adt
                        .non_enum_variant()
                        .fields
                        .iter()
                        .map(|f| {
                            let ft = f.ty(tcx, args);
                            J::Obj(vec![
                                ("name", J::s(f.name.to_string())),
                                ("ty", J::u(self.ty_id(ft))),
                            ])
                        })
                        .collect();
                    o.push(("fields", J::Arr(fields)));
                }
            },
            ty::Dynamic(preds, ..) => {
                o.push(("k", J::s("dyn")));
                if let Some(p) = preds.principal_def_id() {
                    o.push(("trait", J::s(dps(tcx, p))));
                }
            },
            ty::FnDef(did, _) => {
                o.push(("k", J::s("fndef")));
                o.push(("def", J::s(dps(tcx, *did))));
            },
            ty::FnPtr(..) => o.push(("k", J::s("fnptr"))),
            ty::Closure(did, _) => {
                o.push(("k", J::s("closure")));
                o.push(("def", J::s(dps(tcx, *did))));
            },
            ty::Param(_) => o.push(("k", J::s("param"))),
            _ => o.push(("k", J::s("other"))),
        }
        // trait-solver answers for closed types
        if !t.has_non_region_param() && !t.has_escaping_bound_vars() && !t.references_error() {
            let env = TypingEnv::fully_monomorphized();
            if t.is_sized(tcx, env) || matches!(t.kind(), ty::Slice(_) | ty::Str | ty::Dynamic(..))
            {
                o.push(("freeze", J::Bool(t.is_freeze(tcx, env))));
            }
        }
        self.types[idx] = J::Obj(o);
        idx
    }
}

struct Cb;

impl rustc_driver::Callbacks for Cb {
    fn after_analysis<'tcx>(&mut self, _c: &Compiler, tcx: TyCtxt<'tcx>) -> Compilation {
        let want = std::env::var("SNOWFACTS_CRATE").unwrap_or_else(|_| "snow".to_string());
        let name = tcx.crate_name(rustc_hir::def_id::LOCAL_CRATE).to_string();
        if name != want {
            return Compilation::Continue;
        }
        // only the library target (not build scripts, tests, benches, examples)
        let is_lib = tcx.crate_types().iter().any(|t| {
            matches!(
                t,
                rustc_session_crate_type::Rlib
                    | rustc_session_crate_type::Dylib
                    | rustc_session_crate_type::Cdylib
                    | rustc_session_crate_type::StaticLib
                    | rustc_session_crate_type::ProcMacro
            )
        });
        if !is_lib || tcx.sess.opts.test {
            return Compilation::Continue;
        }
        let out = match std::env::var("SNOWFACTS_OUT") {
            Ok(o) => o,
            Err(_) => return Compilation::Continue,
        };
        let mut cx = Cx { tcx, types: Vec::new(), type_ids: HashMap::new() };
        let facts = export(&mut cx);
        let mut s = String::with_capacity(1 << 22);
        facts.write(&mut s);
        let tmp = format!("{}.tmp.{}", out, std::process::id());
        std::fs::write(&tmp, s).expect("write facts");
        std::fs::rename(&tmp, &out).expect("rename facts");
        Compilation::Continue
    }
}

use rustc_middle::ty::TypeVisitableExt;
#[allow(non_camel_case_types)]
use rustc_session::config::CrateType as rustc_session_crate_type;
extern crate rustc_session;

fn export<'tcx>(cx: &mut Cx<'tcx>) -> J {
    let tcx = cx.tcx;
    let mut bodies: Vec<J> = Vec::new();
    let mut keys: Vec<LocalDefId> = tcx.mir_keys(()).iter().copied().collect();
    keys.sort_by_key(|k| dps(tcx, k.to_def_id()));
    for ldid in keys {
        let did = ldid.to_def_id();
        let kind = tcx.def_kind(did);
        match kind {
            DefKind::Fn | DefKind::AssocFn | DefKind::Closure => {},
            DefKind::Static { .. } | DefKind::Const { .. } | DefKind::AssocConst { .. } => {},
            _ => continue,
        }
        bodies.push(export_body(cx, ldid, kind));
    }

    // ADTs, impls, traits, consts
    let mut adts = Vec::new();
    let mut impls = Vec::new();
    let mut traits = Vec::new();
    let mut consts = Vec::new();
    for ldid in tcx.hir_crate_items(()).definitions() {
        let did = ldid.to_def_id();
        match tcx.def_kind(did) {
            DefKind::Struct | DefKind::Enum | DefKind::Union => adts.push(export_adt(cx, did)),
            DefKind::Impl { .. } => impls.push(export_impl(cx, did)),
            DefKind::Trait => traits.push(export_trait(cx, did)),
            DefKind::Const { .. } => {
                let ty = tcx.type_of(did).instantiate_identity().skip_norm_wip();
                let mut o = vec![
                    ("path", J::s(dps(tcx, did))),
                    ("ty", J::u(cx.ty_id(ty))),
                    ("span", span_json(tcx, tcx.def_span(did))),
                ];
                if let Ok(v) = tcx.const_eval_poly(did) {
                    if let Some(si) = v.try_to_scalar_int() {
                        o.push(("val", J::Int(si.to_bits_unchecked() as i128)));
                    }
                }
                consts.push(J::Obj(o));
            },
            _ => {},
        }
    }

    let types = std::mem::take(&mut cx.types);
    J::Obj(vec![
        ("crate", J::s(tcx.crate_name(rustc_hir::def_id::LOCAL_CRATE).to_string())),
        ("bodies", J::Arr(bodies)),
        ("adts", J::Arr(adts)),
        ("impls", J::Arr(impls)),
        ("traits", J::Arr(traits)),
        ("consts", J::Arr(consts)),
        ("types", J::Arr(types)),
    ])
}

fn export_adt<'tcx>(cx: &mut Cx<'tcx>, did: DefId) -> J {
    let tcx = cx.tcx;
    let adt = tcx.adt_def(did);
    let mut variants = Vec::new();
    for (vidx, v) in adt.variants().iter_enumerated() {
        let fields: Vec<J> = v
            .fields
            .iter()
            .map(|f| {
                let ft = tcx.type_of(f.did).instantiate_identity().skip_norm_wip();
                J::Obj(vec![
                    ("name", J::s(f.name.to_string())),
                    ("ty", J::u(cx.ty_id(ft))),
                    ("pub", J::Bool(f.vis.is_public())),
                ])
            })
            .collect();
        let discr = if adt.is_enum() {
            J::Int(adt.discriminant_for_variant(tcx, vidx).val as i128)
        } else {
            J::Null
        };
        variants.push(J::Obj(vec![
            ("name", J::s(v.name.to_string())),
            ("idx", J::u(vidx.as_usize())),
            ("discr", discr),
            ("fields", J::Arr(fields)),
        ]));
    }
    let ty = tcx.type_of(did).instantiate_identity().skip_norm_wip();
    let generics = tcx.generics_of(did).own_params.len();
    let mut o = vec![
        ("path", J::s(dps(tcx, did))),
        ("kind", J::s(if adt.is_enum() { "enum" } else if adt.is_struct() { "struct" } else { "union" })),
        ("variants", J::Arr(variants)),
        ("generics", J::u(generics)),
        ("pub", J::Bool(tcx.visibility(did).is_public())),
        ("reachable", J::Bool(tcx.effective_visibilities(()).is_reachable(did.expect_local()))),
        ("span", span_json(tcx, tcx.def_span(did))),
    ];
    if generics == 0 {
        o.push(("ty", J::u(cx.ty_id(ty))));
        o.push(("send", impls_auto(tcx, ty, rustc_span::sym::Send)));
        o.push(("sync", impls_auto(tcx, ty, rustc_span::sym::Sync)));
    }
    J::Obj(o)
}

fn impls_auto<'tcx>(tcx: TyCtxt<'tcx>, ty: Ty<'tcx>, name: rustc_span::Symbol) -> J {
    use rustc_infer::infer::TyCtxtInferExt;
    use rustc_trait_selection::infer::InferCtxtExt;
    let Some(trait_did) = tcx.get_diagnostic_item(name) else {
        return J::Null;
    };
    let infcx = tcx.infer_ctxt().build(ty::TypingMode::non_body_analysis());
    let res = infcx.type_implements_trait(trait_did, [ty], ty::ParamEnv::empty());
    J::Bool(res.must_apply_modulo_regions())
}

fn export_impl<'tcx>(cx: &mut Cx<'tcx>, did: DefId) -> J {
    let tcx = cx.tcx;
    let self_ty = tcx.type_of(did).instantiate_identity().skip_norm_wip();
    let mut o = vec![
        ("path", J::s(dps(tcx, did))),
        ("self_ty", J::u(cx.ty_id(self_ty))),
        ("self_s", J::s(ty::print::with_no_trimmed_paths!(self_ty.to_string()))),
        ("span", span_json(tcx, tcx.def_span(did))),
    ];
    if let Some(tr) = tcx.impl_opt_trait_ref(did) {
        let tr = tr.instantiate_identity().skip_norm_wip();
        o.push(("trait", J::s(dps(tcx, tr.def_id))));
        o.push(("trait_ref", J::s(ty::print::with_no_trimmed_paths!(tr.to_string()))));
    } else {
        o.push(("trait", J::Null));
    }
    let mut items = Vec::new();
    for &aid in tcx.associated_item_def_ids(did) {
        let ai = tcx.associated_item(aid);
        let mut io = vec![
            ("name", J::s(ai.name().to_string())),
            ("path", J::s(dps(tcx, aid))),
            ("is_fn", J::Bool(matches!(ai.kind, ty::AssocKind::Fn { .. }))),
        ];
        if let Some(t) = ai.trait_item_def_id() {
            io.push(("trait_item", J::s(dps(tcx, t))));
        }
        items.push(J::Obj(io));
    }
    o.push(("items", J::Arr(items)));
    J::Obj(o)
}

fn export_trait<'tcx>(cx: &mut Cx<'tcx>, did: DefId) -> J {
    let tcx = cx.tcx;
    let mut items = Vec::new();
    for &aid in tcx.associated_item_def_ids(did) {
        let ai = tcx.associated_item(aid);
        items.push(J::Obj(vec![
            ("name", J::s(ai.name().to_string())),
            ("path", J::s(dps(tcx, aid))),
            ("is_fn", J::Bool(matches!(ai.kind, ty::AssocKind::Fn { .. }))),
            ("has_default", J::Bool(ai.defaultness(tcx).has_value())),
        ]));
    }
    J::Obj(vec![
        ("path", J::s(dps(tcx, did))),
        ("items", J::Arr(items)),
        ("span", span_json(tcx, tcx.def_span(did))),
    ])
}

fn export_body<'tcx>(cx: &mut Cx<'tcx>, ldid: LocalDefId, kind: DefKind) -> J {
    let tcx = cx.tcx;
    let did = ldid.to_def_id();
    let mut o: Vec<(&'static str, J)> = vec![
        ("path", J::s(dps(tcx, did))),
        ("uid", J::s(uid(tcx, did))),
        ("kind", J::s(format!("{:?}", kind))),
        ("span", span_json(tcx, tcx.def_span(did))),
    ];
    if let Some(n) = tcx.opt_item_name(did) {
        o.push(("name", J::s(n.to_string())));
    }
    if matches!(kind, DefKind::Fn | DefKind::AssocFn) {
        o.push(("pub", J::Bool(tcx.visibility(did).is_public())));
        o.push(("reachable", J::Bool(tcx.effective_visibilities(()).is_reachable(ldid))));
        let sig = tcx.fn_sig(did).instantiate_identity().skip_norm_wip().skip_binder();
        o.push(("unsafe_fn", J::Bool(!sig.safety().is_safe())));
    }
    if matches!(kind, DefKind::AssocFn | DefKind::AssocConst { .. }) {
        let parent = tcx.parent(did);
        match tcx.def_kind(parent) {
            DefKind::Impl { .. } => {
                o.push(("impl", J::s(dps(tcx, parent))));
                let self_ty = tcx.type_of(parent).instantiate_identity().skip_norm_wip();
                o.push(("self_ty", J::s(ty::print::with_no_trimmed_paths!(self_ty.to_string()))));
                if let Some(tr) = tcx.impl_opt_trait_ref(parent) {
                    let tr = tr.instantiate_identity().skip_norm_wip();
                    o.push(("impl_trait", J::s(dps(tcx, tr.def_id))));
                }
                let ai = tcx.associated_item(did);
                if let Some(t) = ai.trait_item_def_id() {
                    o.push(("trait_item", J::s(dps(tcx, t))));
                }
            },
            DefKind::Trait => {
                o.push(("in_trait", J::s(dps(tcx, parent))));
            },
            _ => {},
        }
    }
    if matches!(kind, DefKind::Closure) {
        o.push(("parent", J::s(dps(tcx, tcx.typeck_root_def_id(did)))));
    }
    // MIR
    if matches!(kind, DefKind::Fn | DefKind::AssocFn | DefKind::Closure) {
        if tcx.is_mir_available(did) {
            let body = tcx.optimized_mir(did);
            o.push(("mir", mirx::body_json(cx, did, body)));
            let proms = tcx.promoted_mir(did);
            let pv: Vec<J> = proms.iter().map(|b| mirx::body_json(cx, did, b)).collect();
            o.push(("promoted", J::Arr(pv)));
        }
    }
    // HIR
    if let Some(hb) = tcx.hir_maybe_body_owned_by(ldid) {
        o.push(("hir", hirx::body_json(cx, ldid, hb)));
    }
    J::Obj(o)
}

fn main() {
    let mut args: Vec<String> = std::env::args().collect();
    // RUSTC_WORKSPACE_WRAPPER: argv[1] is the path of the real rustc
    if args.len() > 1 && (args[1].ends_with("rustc") || args[1].contains("/rustc")) {
        args.remove(1);
    }
    let mut cb = Cb;
    rustc_driver::install_ice_hook("https://example.invalid", |_| ());
    let code = rustc_driver::catch_with_exit_code(|| {
        rustc_driver::run_compiler(&args, &mut cb);
    });
    if code == std::process::ExitCode::SUCCESS {
        std::process::exit(0);
    }
    std::process::exit(1);
}
