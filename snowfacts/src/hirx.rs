//! HIR (macro-expanded, name-resolved, typed) → JSON expression trees

use crate::json::J;
use crate::{dps, line_of, Cx};
use rustc_hir as hir;
use rustc_hir::def::Res;
use rustc_hir::def_id::LocalDefId;
use rustc_middle::ty::{self, TypeckResults};

struct H<'a, 'tcx> {
    cx: &'a mut Cx<'tcx>,
    tr: &'tcx TypeckResults<'tcx>,
    unsafe_blocks: usize,
}

pub fn body_json<'tcx>(cx: &mut Cx<'tcx>, owner: LocalDefId, body: &'tcx hir::Body<'tcx>) -> J {
    let tcx = cx.tcx;
    let tr = tcx.typeck(owner);
    let mut h = H { cx, tr, unsafe_blocks: 0 };
    let params: Vec<J> = body.params.iter().map(|p| h.pat(p.pat)).collect();
    let value = h.expr(body.value);
    J::Obj(vec![
        ("params", J::Arr(params)),
        ("value", value),
        ("unsafe_blocks", J::u(h.unsafe_blocks)),
    ])
}

impl<'a, 'tcx> H<'a, 'tcx> {
    fn res(&mut self, res: Res) -> J {
        let tcx = self.cx.tcx;
        match res {
            Res::Def(kind, did) => {
                let mut o = vec![
                    ("res", J::s("def")),
                    ("kind", J::s(format!("{:?}", kind))),
                    ("def", J::s(dps(tcx, did))),
                ];
                if matches!(kind, hir::def::DefKind::Static { .. }) {
                    o.push(("uid", J::s(crate::uid(tcx, did))));
                }
                // a variant constructor: also name the variant and enum
                if let hir::def::DefKind::Ctor(of, _) = kind {
                    let parent = tcx.parent(did);
                    o.push(("ctor_of", J::s(dps(tcx, parent))));
                    let _ = of;
                }
                J::Obj(o)
            },
            Res::Local(hid) => {
                J::Obj(vec![("res", J::s("local")), ("name", J::s(tcx.hir_name(hid).to_string()))])
            },
            Res::SelfCtor(_) => J::Obj(vec![("res", J::s("selfctor"))]),
            Res::SelfTyAlias { .. } | Res::SelfTyParam { .. } => J::Obj(vec![("res", J::s("selfty"))]),
            Res::PrimTy(p) => J::Obj(vec![("res", J::s("prim")), ("name", J::s(p.name_str()))]),
            _ => J::Obj(vec![("res", J::s("other"))]),
        }
    }

    fn qpath(&mut self, qp: &hir::QPath<'tcx>, hid: hir::HirId) -> J {
        let r = self.tr.qpath_res(qp, hid);
        self.res(r)
    }

    fn lit(&mut self, l: &hir::Lit, negated: bool) -> J {
        use rustc_ast::LitKind;
        match &l.node {
            LitKind::Str(s, _) => J::Obj(vec![("k", J::s("lit")), ("str", J::s(s.to_string()))]),
            LitKind::ByteStr(b, _) => J::Obj(vec![
                ("k", J::s("lit")),
                ("bytes", J::Arr(b.as_byte_str().iter().map(|x| J::Int(*x as i128)).collect())),
            ]),
            LitKind::Byte(b) => J::Obj(vec![("k", J::s("lit")), ("int", J::Int(*b as i128))]),
            LitKind::Char(c) => J::Obj(vec![("k", J::s("lit")), ("char", J::s(c.to_string()))]),
            LitKind::Int(n, _) => {
                let v = n.get() as i128;
                J::Obj(vec![("k", J::s("lit")), ("int", J::Int(if negated { -v } else { v }))])
            },
            LitKind::Bool(b) => J::Obj(vec![("k", J::s("lit")), ("bool", J::Bool(*b))]),
            _ => J::Obj(vec![("k", J::s("lit")), ("other", J::Bool(true))]),
        }
    }

    fn pat(&mut self, p: &'tcx hir::Pat<'tcx>) -> J {
        use hir::PatKind;
        match &p.kind {
            PatKind::Wild => J::Obj(vec![("k", J::s("wild"))]),
            PatKind::Binding(_mode, _hid, ident, sub) => {
                let mut o = vec![("k", J::s("bind")), ("name", J::s(ident.name.to_string()))];
                if let Some(s) = sub {
                    o.push(("sub", self.pat(s)));
                }
                J::Obj(o)
            },
            PatKind::Expr(pe) => match &pe.kind {
                hir::PatExprKind::Lit { lit, negated } => {
                    let mut l = self.lit(lit, *negated);
                    if let J::Obj(o) = &mut l {
                        o[0] = ("k", J::s("plit"));
                    }
                    l
                },
                hir::PatExprKind::Path(qp) => {
                    let r = self.qpath(qp, pe.hir_id);
                    J::Obj(vec![("k", J::s("ppath")), ("path", r)])
                },
                _ => J::Obj(vec![("k", J::s("pother"))]),
            },
            PatKind::TupleStruct(qp, pats, _) => {
                let r = self.qpath(qp, p.hir_id);
                let v: Vec<J> = pats.iter().map(|x| self.pat(x)).collect();
                J::Obj(vec![("k", J::s("ptuplestruct")), ("path", r), ("pats", J::Arr(v))])
            },
            PatKind::Struct(qp, fields, _) => {
                let r = self.qpath(qp, p.hir_id);
                let v: Vec<J> = fields
                    .iter()
                    .map(|f| {
                        J::Obj(vec![("name", J::s(f.ident.name.to_string())), ("pat", self.pat(f.pat))])
                    })
                    .collect();
                J::Obj(vec![("k", J::s("pstruct")), ("path", r), ("fields", J::Arr(v))])
            },
            PatKind::Or(pats) => {
                let v: Vec<J> = pats.iter().map(|x| self.pat(x)).collect();
                J::Obj(vec![("k", J::s("por")), ("pats", J::Arr(v))])
            },
            PatKind::Tuple(pats, _) => {
                let v: Vec<J> = pats.iter().map(|x| self.pat(x)).collect();
                J::Obj(vec![("k", J::s("ptuple")), ("pats", J::Arr(v))])
            },
            PatKind::Ref(inner, ..) => J::Obj(vec![("k", J::s("pref")), ("pat", self.pat(inner))]),
            PatKind::Deref(inner) => J::Obj(vec![("k", J::s("pref")), ("pat", self.pat(inner))]),
            PatKind::Box(inner) => J::Obj(vec![("k", J::s("pref")), ("pat", self.pat(inner))]),
            _ => J::Obj(vec![("k", J::s("pother"))]),
        }
    }

    fn ety(&mut self, e: &'tcx hir::Expr<'tcx>) -> J {
        match self.tr.expr_ty_opt(e) {
            Some(t) => J::u(self.cx.ty_id(t)),
            None => J::Null,
        }
    }

    fn block(&mut self, b: &'tcx hir::Block<'tcx>) -> J {
        let tcx = self.cx.tcx;
        if let hir::BlockCheckMode::UnsafeBlock(hir::UnsafeSource::UserProvided) = b.rules {
            self.unsafe_blocks += 1;
        }
        let mut stmts = Vec::new();
        for s in b.stmts {
            match &s.kind {
                hir::StmtKind::Let(l) => {
                    let mut o = vec![("k", J::s("let")), ("pat", self.pat(l.pat))];
                    if let Some(i) = l.init {
                        o.push(("init", self.expr(i)));
                    }
                    if let Some(els) = l.els {
                        o.push(("els", self.block(els)));
                    }
                    stmts.push(J::Obj(o));
                },
                hir::StmtKind::Item(iid) => {
                    let did = iid.owner_id.to_def_id();
                    stmts.push(J::Obj(vec![
                        ("k", J::s("item")),
                        ("def", J::s(dps(tcx, did))),
                        ("uid", J::s(crate::uid(tcx, did))),
                        ("kind", J::s(format!("{:?}", tcx.def_kind(did)))),
                    ]));
                },
                hir::StmtKind::Expr(e) | hir::StmtKind::Semi(e) => stmts.push(self.expr(e)),
            }
        }
        let mut o = vec![("k", J::s("block")), ("stmts", J::Arr(stmts))];
        if let Some(e) = b.expr {
            o.push(("expr", self.expr(e)));
        }
        J::Obj(o)
    }

    fn expr(&mut self, e: &'tcx hir::Expr<'tcx>) -> J {
        use hir::ExprKind;
        let tcx = self.cx.tcx;
        let ln = ("l", J::u(line_of(tcx, e.span)));
        match &e.kind {
            ExprKind::Path(qp) => {
                let r = self.qpath(qp, e.hir_id);
                J::Obj(vec![("k", J::s("path")), ("path", r), ("t", self.ety(e))])
            },
            ExprKind::Lit(l) => {
                let mut j = self.lit(l, false);
                let t = self.ety(e);
                if let J::Obj(o) = &mut j {
                    o.push(("t", t));
                }
                j
            },
            ExprKind::Array(es) => {
                let v: Vec<J> = es.iter().map(|x| self.expr(x)).collect();
                J::Obj(vec![("k", J::s("array")), ("elems", J::Arr(v)), ("t", self.ety(e)), ln])
            },
            ExprKind::Tup(es) => {
                let v: Vec<J> = es.iter().map(|x| self.expr(x)).collect();
                J::Obj(vec![("k", J::s("tup")), ("elems", J::Arr(v)), ("t", self.ety(e))])
            },
            ExprKind::Call(f, args) => {
                let fj = self.expr(f);
                let v: Vec<J> = args.iter().map(|x| self.expr(x)).collect();
                J::Obj(vec![("k", J::s("call")), ("f", fj), ("args", J::Arr(v)), ("t", self.ety(e)), ln])
            },
            ExprKind::MethodCall(seg, recv, args, _) => {
                let def = self.tr.type_dependent_def_id(e.hir_id).map(|d| dps(tcx, d));
                let rj = self.expr(recv);
                let v: Vec<J> = args.iter().map(|x| self.expr(x)).collect();
                J::Obj(vec![
                    ("k", J::s("mcall")),
                    ("name", J::s(seg.ident.name.to_string())),
                    ("def", J::opt_s(def)),
                    ("recv", rj),
                    ("args", J::Arr(v)),
                    ("t", self.ety(e)),
                    ln,
                ])
            },
            ExprKind::Binary(op, a, b) => J::Obj(vec![
                ("k", J::s("binary")),
                ("op", J::s(op.node.as_str())),
                ("a", self.expr(a)),
                ("b", self.expr(b)),
                ln,
            ]),
            ExprKind::Unary(op, a) => J::Obj(vec![
                ("k", J::s("unary")),
                ("op", J::s(format!("{:?}", op))),
                ("a", self.expr(a)),
            ]),
            ExprKind::Cast(a, _) => J::Obj(vec![("k", J::s("cast")), ("a", self.expr(a)), ("t", self.ety(e))]),
            ExprKind::Type(a, _) => self.expr(a),
            ExprKind::DropTemps(a) => self.expr(a),
            ExprKind::Use(a, _) => self.expr(a),
            ExprKind::Let(l) => J::Obj(vec![
                ("k", J::s("letexpr")),
                ("pat", self.pat(l.pat)),
                ("init", self.expr(l.init)),
            ]),
            ExprKind::If(c, t, f) => {
                let mut o = vec![("k", J::s("if")), ("cond", self.expr(c)), ("then", self.expr(t))];
                if let Some(f) = f {
                    o.push(("else", self.expr(f)));
                }
                o.push(("t", self.ety(e)));
                o.push(ln);
                J::Obj(o)
            },
            ExprKind::Loop(b, _, src, _) => J::Obj(vec![
                ("k", J::s("loop")),
                ("src", J::s(format!("{:?}", src))),
                ("body", self.block(b)),
            ]),
            ExprKind::Match(scrut, arms, src) => {
                let sj = self.expr(scrut);
                let st = self.tr.expr_ty_adjusted_opt(scrut).map(|t| self.cx.ty_id(t));
                let av: Vec<J> = arms
                    .iter()
                    .map(|a| {
                        let mut o = vec![("pat", self.pat(a.pat))];
                        if let Some(g) = a.guard {
                            o.push(("guard", self.expr(g)));
                        }
                        o.push(("body", self.expr(a.body)));
                        o.push(("l", J::u(line_of(tcx, a.span))));
                        J::Obj(o)
                    })
                    .collect();
                J::Obj(vec![
                    ("k", J::s("match")),
                    ("src", J::s(format!("{:?}", src))),
                    ("scrut", sj),
                    ("scrut_t", match st {
                        Some(i) => J::u(i),
                        None => J::Null,
                    }),
                    ("arms", J::Arr(av)),
                    ("t", self.ety(e)),
                    ln,
                ])
            },
            ExprKind::Closure(c) => {
                let did = c.def_id.to_def_id();
                J::Obj(vec![("k", J::s("closure")), ("def", J::s(dps(tcx, did)))])
            },
            ExprKind::Block(b, _) => self.block(b),
            ExprKind::Assign(a, b, _) => {
                J::Obj(vec![("k", J::s("assign")), ("lhs", self.expr(a)), ("rhs", self.expr(b)), ln])
            },
            ExprKind::AssignOp(op, a, b) => J::Obj(vec![
                ("k", J::s("assignop")),
                ("op", J::s(op.node.as_str())),
                ("lhs", self.expr(a)),
                ("rhs", self.expr(b)),
                ln,
            ]),
            ExprKind::Field(a, ident) => J::Obj(vec![
                ("k", J::s("field")),
                ("name", J::s(ident.name.to_string())),
                ("a", self.expr(a)),
                ("t", self.ety(e)),
            ]),
            ExprKind::Index(a, i, _) => {
                J::Obj(vec![("k", J::s("index")), ("a", self.expr(a)), ("i", self.expr(i)), ("t", self.ety(e)), ln])
            },
            ExprKind::AddrOf(_, m, a) => J::Obj(vec![
                ("k", J::s("addrof")),
                ("mut", J::Bool(m.is_mut())),
                ("a", self.expr(a)),
                ("t", self.ety(e)),
            ]),
            ExprKind::Break(_, v) => {
                let mut o = vec![("k", J::s("break"))];
                if let Some(v) = v {
                    o.push(("a", self.expr(v)));
                }
                J::Obj(o)
            },
            ExprKind::Continue(_) => J::Obj(vec![("k", J::s("continue"))]),
            ExprKind::Ret(v) => {
                let mut o = vec![("k", J::s("ret"))];
                if let Some(v) = v {
                    o.push(("a", self.expr(v)));
                }
                o.push(ln);
                J::Obj(o)
            },
            ExprKind::Struct(qp, fields, base) => {
                let r = self.qpath(qp, e.hir_id);
                let v: Vec<J> = fields
                    .iter()
                    .map(|f| {
                        J::Obj(vec![("name", J::s(f.ident.name.to_string())), ("e", self.expr(f.expr))])
                    })
                    .collect();
                let mut o =
                    vec![("k", J::s("struct")), ("path", r), ("fields", J::Arr(v)), ("t", self.ety(e)), ln];
                if let hir::StructTailExpr::Base(b) = base {
                    o.push(("base", self.expr(b)));
                }
                J::Obj(o)
            },
            ExprKind::Repeat(a, _) => {
                let n = match self.tr.expr_ty_opt(e).map(|t| t.kind()) {
                    Some(ty::Array(_, len)) => len.try_to_target_usize(tcx),
                    _ => None,
                };
                J::Obj(vec![
                    ("k", J::s("repeat")),
                    ("a", self.expr(a)),
                    ("n", match n {
                        Some(n) => J::Int(n as i128),
                        None => J::Null,
                    }),
                    ("t", self.ety(e)),
                ])
            },
            ExprKind::ConstBlock(_) => J::Obj(vec![("k", J::s("constblock"))]),
            other => {
                let name = format!("{:?}", other);
                let short: String = name.chars().take(24).collect();
                J::Obj(vec![("k", J::s("other")), ("dbg", J::s(short))])
            },
        }
    }
}
