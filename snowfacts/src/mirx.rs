//! MIR → JSON

use crate::json::J;
use crate::{dps, line_of, Cx};
use rustc_hir::def_id::DefId;
use rustc_middle::mir::*;
use rustc_middle::ty::{self, Instance, InstanceKind, Ty, TypingEnv};

pub fn body_json<'tcx>(cx: &mut Cx<'tcx>, owner: DefId, body: &Body<'tcx>) -> J {
    let tcx = cx.tcx;
    let env = TypingEnv::post_analysis(tcx, owner);
    let mut locals = Vec::new();
    for (_l, d) in body.local_decls.iter_enumerated() {
        locals.push(J::Obj(vec![
            ("ty", J::u(cx.ty_id(d.ty))),
            ("mut", J::Bool(d.mutability.is_mut())),
        ]));
    }
    let mut dbg = Vec::new();
    for v in &body.var_debug_info {
        if let VarDebugInfoContents::Place(p) = &v.value {
            dbg.push(J::Obj(vec![("name", J::s(v.name.to_string())), ("place", place_json(cx, body, p))]));
        }
    }
    let mut blocks = Vec::new();
    for (_bb, data) in body.basic_blocks.iter_enumerated() {
        let mut stmts = Vec::new();
        for st in &data.statements {
            match &st.kind {
                StatementKind::Assign(b) => {
                    let (place, rv) = &**b;
                    stmts.push(J::Obj(vec![
                        ("k", J::s("assign")),
                        ("place", place_json(cx, body, place)),
                        ("rv", rvalue_json(cx, body, env, rv)),
                        ("l", J::u(line_of(tcx, st.source_info.span))),
                        ("x", J::Bool(st.source_info.span.from_expansion())),
                    ]));
                },
                StatementKind::SetDiscriminant { place, variant_index } => {
                    stmts.push(J::Obj(vec![
                        ("k", J::s("setdiscr")),
                        ("place", place_json(cx, body, place)),
                        ("variant", J::u(variant_index.as_usize())),
                        ("l", J::u(line_of(tcx, st.source_info.span))),
                    ]));
                },
                _ => {},
            }
        }
        let term = data.terminator();
        let tj = term_json(cx, body, env, term);
        blocks.push(J::Obj(vec![
            ("stmts", J::Arr(stmts)),
            ("term", tj),
            ("cleanup", J::Bool(data.is_cleanup)),
        ]));
    }
    J::Obj(vec![
        ("argc", J::u(body.arg_count)),
        ("locals", J::Arr(locals)),
        ("dbg", J::Arr(dbg)),
        ("blocks", J::Arr(blocks)),
    ])
}

fn place_json<'tcx>(cx: &mut Cx<'tcx>, body: &Body<'tcx>, p: &Place<'tcx>) -> J {
    let tcx = cx.tcx;
    let mut proj = Vec::new();
    let mut pty = PlaceTy::from_ty(body.local_decls[p.local].ty);
    for elem in p.projection.iter() {
        match elem {
            ProjectionElem::Deref => proj.push(J::Obj(vec![("k", J::s("deref"))])),
            ProjectionElem::Field(f, fty) => {
                let mut name = None;
                if let ty::Adt(adt, _) = pty.ty.kind() {
                    let v = match pty.variant_index {
                        Some(v) => Some(adt.variant(v)),
                        None if !adt.is_enum() => Some(adt.non_enum_variant()),
                        None => None,
                    };
                    if let Some(v) = v {
                        if f.as_usize() < v.fields.len() {
                            name = Some(v.fields[f].name.to_string());
                        }
                    }
                }
                proj.push(J::Obj(vec![
                    ("k", J::s("field")),
                    ("i", J::u(f.as_usize())),
                    ("name", J::opt_s(name)),
                    ("ty", J::u(cx.ty_id(fty))),
                ]));
            },
            ProjectionElem::Index(l) => {
                proj.push(J::Obj(vec![("k", J::s("index")), ("local", J::u(l.as_usize()))]))
            },
            ProjectionElem::ConstantIndex { offset, min_length, from_end } => {
                proj.push(J::Obj(vec![
                    ("k", J::s("constindex")),
                    ("offset", J::Int(offset as i128)),
                    ("min_length", J::Int(min_length as i128)),
                    ("from_end", J::Bool(from_end)),
                ]))
            },
            ProjectionElem::Subslice { from, to, from_end } => proj.push(J::Obj(vec![
                ("k", J::s("subslice")),
                ("from", J::Int(from as i128)),
                ("to", J::Int(to as i128)),
                ("from_end", J::Bool(from_end)),
            ])),
            ProjectionElem::Downcast(name, vidx) => proj.push(J::Obj(vec![
                ("k", J::s("downcast")),
                ("name", J::opt_s(name.map(|n| n.to_string()))),
                ("variant", J::u(vidx.as_usize())),
            ])),
            _ => proj.push(J::Obj(vec![("k", J::s("otherproj"))])),
        }
        pty = pty.projection_ty(tcx, elem);
    }
    J::Obj(vec![("local", J::u(p.local.as_usize())), ("proj", J::Arr(proj))])
}

fn const_json<'tcx>(cx: &mut Cx<'tcx>, env: TypingEnv<'tcx>, c: &ConstOperand<'tcx>) -> J {
    let tcx = cx.tcx;
    let ty = c.const_.ty();
    let mut o = vec![("k", J::s("const")), ("ty", J::u(cx.ty_id(ty)))];
    match ty.kind() {
        ty::FnDef(did, args) => {
            o.push(("fn", J::s(dps(tcx, *did))));
            o.push(("fn_args", J::s(ty::print::with_no_trimmed_paths!(format!("{:?}", args)))));
        },
        _ => {},
    }
    if let Const::Unevaluated(uv, _) = c.const_ {
        if let Some(p) = uv.promoted {
            o.push(("promoted", J::u(p.as_usize())));
        } else {
            o.push(("uneval", J::s(dps(tcx, uv.def))));
        }
    }
    // reference to a static (e.g. `&ring::digest::SHA256`)
    if let Const::Val(rustc_middle::mir::ConstValue::Scalar(rustc_middle::mir::interpret::Scalar::Ptr(ptr, _)), _) = c.const_ {
        let (prov, _off) = ptr.into_raw_parts();
        if let Some(ga) = tcx.try_get_global_alloc(prov.alloc_id()) {
            if let rustc_middle::mir::interpret::GlobalAlloc::Static(did) = ga {
                o.push(("static", J::s(dps(tcx, did))));
            }
        }
    }
    if ty.is_integral() || ty.is_bool() || ty.is_char() {
        if let Some(si) = c.const_.try_eval_scalar_int(tcx, env) {
            o.push(("val", J::Int(si.to_bits_unchecked() as i128)));
        }
    }
    // string / byte-string constants
    if let ty::Ref(_, inner, _) = ty.kind() {
        if matches!(inner.kind(), ty::Str | ty::Slice(_) | ty::Array(..)) {
            let val = match c.const_ {
                Const::Val(v, _) => Some(v),
                Const::Unevaluated(..) | Const::Ty(..) => c.const_.eval(tcx, env, c.span).ok(),
            };
            if let Some(v) = val {
                if matches!(inner.kind(), ty::Str | ty::Slice(_)) {
                    if let Some(bytes) = v.try_get_slice_bytes_for_diagnostics(tcx) {
                        if matches!(inner.kind(), ty::Str) {
                            o.push(("str", J::s(String::from_utf8_lossy(bytes).to_string())));
                        } else {
                            o.push(("bytes", J::Arr(bytes.iter().map(|b| J::Int(*b as i128)).collect())));
                        }
                    }
                }
            }
        }
    }
    J::Obj(o)
}

fn operand_json<'tcx>(cx: &mut Cx<'tcx>, body: &Body<'tcx>, env: TypingEnv<'tcx>, op: &Operand<'tcx>) -> J {
    match op {
        Operand::Copy(p) => J::Obj(vec![("k", J::s("copy")), ("place", place_json(cx, body, p))]),
        Operand::Move(p) => J::Obj(vec![("k", J::s("move")), ("place", place_json(cx, body, p))]),
        Operand::Constant(c) => const_json(cx, env, c),
        #[allow(unreachable_patterns)]
        _ => J::Obj(vec![("k", J::s("otherop"))]),
    }
}

fn rvalue_json<'tcx>(cx: &mut Cx<'tcx>, body: &Body<'tcx>, env: TypingEnv<'tcx>, rv: &Rvalue<'tcx>) -> J {
    let tcx = cx.tcx;
    match rv {
        Rvalue::Use(op, ..) => J::Obj(vec![("k", J::s("use")), ("op", operand_json(cx, body, env, op))]),
        Rvalue::Repeat(op, n) => J::Obj(vec![
            ("k", J::s("repeat")),
            ("op", operand_json(cx, body, env, op)),
            ("n", match n.try_to_target_usize(tcx) {
                Some(n) => J::Int(n as i128),
                None => J::Null,
            }),
        ]),
        Rvalue::Ref(_, bk, p) => J::Obj(vec![
            ("k", J::s("ref")),
            ("mut", J::Bool(matches!(bk, BorrowKind::Mut { .. }))),
            ("place", place_json(cx, body, p)),
        ]),
        Rvalue::RawPtr(kind, p) => J::Obj(vec![
            ("k", J::s("rawptr")),
            ("mut", J::Bool(matches!(kind, RawPtrKind::Mut))),
            ("place", place_json(cx, body, p)),
        ]),
        Rvalue::Cast(kind, op, ty) => J::Obj(vec![
            ("k", J::s("cast")),
            ("cast", J::s(format!("{:?}", kind))),
            ("op", operand_json(cx, body, env, op)),
            ("ty", J::u(cx.ty_id(*ty))),
        ]),
        Rvalue::BinaryOp(bop, ops) => {
            let (a, b) = &**ops;
            J::Obj(vec![
                ("k", J::s("binop")),
                ("op", J::s(format!("{:?}", bop))),
                ("a", operand_json(cx, body, env, a)),
                ("b", operand_json(cx, body, env, b)),
            ])
        },
        Rvalue::UnaryOp(uop, a) => J::Obj(vec![
            ("k", J::s("unop")),
            ("op", J::s(format!("{:?}", uop))),
            ("a", operand_json(cx, body, env, a)),
        ]),
        Rvalue::Discriminant(p) => {
            J::Obj(vec![("k", J::s("discr")), ("place", place_json(cx, body, p))])
        },
        Rvalue::Aggregate(kind, ops) => {
            let mut o = vec![("k", J::s("aggregate"))];
            match &**kind {
                AggregateKind::Array(_) => o.push(("agg", J::s("array"))),
                AggregateKind::Tuple => o.push(("agg", J::s("tuple"))),
                AggregateKind::Adt(did, vidx, _, _, _) => {
                    o.push(("agg", J::s("adt")));
                    o.push(("adt", J::s(dps(tcx, *did))));
                    o.push(("variant", J::u(vidx.as_usize())));
                    let adt = tcx.adt_def(*did);
                    o.push(("variant_name", J::s(adt.variant(*vidx).name.to_string())));
                    let names: Vec<J> =
                        adt.variant(*vidx).fields.iter().map(|f| J::s(f.name.to_string())).collect();
                    o.push(("field_names", J::Arr(names)));
                },
                AggregateKind::Closure(did, _) => {
                    o.push(("agg", J::s("closure")));
                    o.push(("def", J::s(dps(tcx, *did))));
                },
                _ => o.push(("agg", J::s("other"))),
            }
            let v: Vec<J> = ops.iter().map(|op| operand_json(cx, body, env, op)).collect();
            o.push(("ops", J::Arr(v)));
            J::Obj(o)
        },
        Rvalue::CopyForDeref(p) => {
            J::Obj(vec![("k", J::s("copyforderef")), ("place", place_json(cx, body, p))])
        },
        other => J::Obj(vec![("k", J::s("otherrv")), ("dbg", J::s(format!("{:?}", other)))]),
    }
}

fn callee_json<'tcx>(cx: &mut Cx<'tcx>, env: TypingEnv<'tcx>, func: &Operand<'tcx>, fty: Ty<'tcx>) -> J {
    let tcx = cx.tcx;
    let _ = fty;
    if let Some((did, args)) = func.const_fn_def() {
        let mut o = vec![
            ("def", J::s(dps(tcx, did))),
            ("args", J::s(ty::print::with_no_trimmed_paths!(format!("{:?}", args)))),
            ("local", J::Bool(did.is_local())),
        ];
        if let Some(tr) = tcx.trait_of_assoc(did) {
            o.push(("trait", J::s(dps(tcx, tr))));
            if args.len() > 0 {
                if let Some(t0) = args.get(0).and_then(|a| a.as_type()) {
                    o.push(("self_ty", J::u(cx.ty_id(t0))));
                }
            }
        }
        o.push(("name", J::s(tcx.item_name(did).to_string())));
        match Instance::try_resolve(tcx, env, did, args) {
            Ok(Some(inst)) => {
                let rdid = inst.def_id();
                o.push(("resolved", J::s(dps(tcx, rdid))));
                o.push(("resolved_local", J::Bool(rdid.is_local())));
                let kind = match inst.def {
                    InstanceKind::Item(_) => "item",
                    InstanceKind::Virtual(..) => "virtual",
                    InstanceKind::Intrinsic(_) => "intrinsic",
                    InstanceKind::ClosureOnceShim { .. } => "closure_once_shim",
                    InstanceKind::FnPtrShim(..) => "fnptr_shim",
                    InstanceKind::DropGlue(..) => "drop_glue",
                    InstanceKind::CloneShim(..) => "clone_shim",
                    InstanceKind::ReifyShim(..) => "reify_shim",
                    InstanceKind::VTableShim(..) => "vtable_shim",
                    _ => "other",
                };
                o.push(("inst", J::s(kind)));
                // closure body reached through Fn*/call shims
                if let Some(t0) = inst.args.get(0).and_then(|a| a.as_type()) {
                    if let ty::Closure(cdid, _) = t0.kind() {
                        o.push(("closure", J::s(dps(tcx, *cdid))));
                    }
                }
            },
            _ => {
                o.push(("resolved", J::Null));
                o.push(("inst", J::s("unresolved")));
                if let Some(t0) = args.get(0).and_then(|a| a.as_type()) {
                    if let ty::Closure(cdid, _) = t0.kind() {
                        o.push(("closure", J::s(dps(tcx, *cdid))));
                    }
                }
            },
        }
        J::Obj(o)
    } else {
        J::Obj(vec![("def", J::Null), ("inst", J::s("indirect"))])
    }
}

fn term_json<'tcx>(cx: &mut Cx<'tcx>, body: &Body<'tcx>, env: TypingEnv<'tcx>, term: &Terminator<'tcx>) -> J {
    let tcx = cx.tcx;
    let line = ("l", J::u(line_of(tcx, term.source_info.span)));
    let exp = ("x", J::Bool(term.source_info.span.from_expansion()));
    let bbj = |b: BasicBlock| J::u(b.as_usize());
    let unwind_json = |u: &UnwindAction| match u {
        UnwindAction::Cleanup(b) => J::u(b.as_usize()),
        _ => J::Null,
    };
    match &term.kind {
        TerminatorKind::Goto { target } => {
            J::Obj(vec![("k", J::s("goto")), ("target", bbj(*target)), line])
        },
        TerminatorKind::SwitchInt { discr, targets } => {
            let mut tv = Vec::new();
            for (v, t) in targets.iter() {
                tv.push(J::Arr(vec![J::Int(v as i128), bbj(t)]));
            }
            J::Obj(vec![
                ("k", J::s("switch")),
                ("discr", operand_json(cx, body, env, discr)),
                ("targets", J::Arr(tv)),
                ("otherwise", bbj(targets.otherwise())),
                line,
                exp,
            ])
        },
        TerminatorKind::Return => J::Obj(vec![("k", J::s("return")), line]),
        TerminatorKind::Unreachable => J::Obj(vec![("k", J::s("unreachable")), line]),
        TerminatorKind::UnwindResume => J::Obj(vec![("k", J::s("resume")), line]),
        TerminatorKind::UnwindTerminate(_) => J::Obj(vec![("k", J::s("terminate")), line]),
        TerminatorKind::Drop { place, target, unwind, .. } => J::Obj(vec![
            ("k", J::s("drop")),
            ("place", place_json(cx, body, place)),
            ("target", bbj(*target)),
            ("unwind", unwind_json(unwind)),
            line,
        ]),
        TerminatorKind::Call { func, args, destination, target, unwind, .. } => {
            let fty = func.ty(&body.local_decls, tcx);
            let callee = callee_json(cx, env, func, fty);
            let av: Vec<J> = args.iter().map(|a| operand_json(cx, body, env, &a.node)).collect();
            J::Obj(vec![
                ("k", J::s("call")),
                ("callee", callee),
                ("func", operand_json(cx, body, env, func)),
                ("args", J::Arr(av)),
                ("dest", place_json(cx, body, destination)),
                ("target", match target {
                    Some(t) => bbj(*t),
                    None => J::Null,
                }),
                ("unwind", unwind_json(unwind)),
                line,
                exp,
            ])
        },
        TerminatorKind::Assert { cond, expected, msg, target, unwind } => {
            let (mk, mops): (&str, Vec<J>) = match &**msg {
                AssertKind::BoundsCheck { len, index } => {
                    ("bounds", vec![operand_json(cx, body, env, len), operand_json(cx, body, env, index)])
                },
                AssertKind::Overflow(op, a, b) => {
                    let s: &'static str = match op {
                        BinOp::Add => "overflow_add",
                        BinOp::Sub => "overflow_sub",
                        BinOp::Mul => "overflow_mul",
                        BinOp::Shl => "overflow_shl",
                        BinOp::Shr => "overflow_shr",
                        _ => "overflow_other",
                    };
                    (s, vec![operand_json(cx, body, env, a), operand_json(cx, body, env, b)])
                },
                AssertKind::OverflowNeg(a) => ("overflow_neg", vec![operand_json(cx, body, env, a)]),
                AssertKind::DivisionByZero(a) => ("div_zero", vec![operand_json(cx, body, env, a)]),
                AssertKind::RemainderByZero(a) => ("rem_zero", vec![operand_json(cx, body, env, a)]),
                _ => ("other", vec![]),
            };
            J::Obj(vec![
                ("k", J::s("assert")),
                ("cond", operand_json(cx, body, env, cond)),
                ("expected", J::Bool(*expected)),
                ("msg", J::s(mk)),
                ("ops", J::Arr(mops)),
                ("target", bbj(*target)),
                ("unwind", unwind_json(unwind)),
                line,
                exp,
            ])
        },
        TerminatorKind::FalseEdge { real_target, .. } => {
            J::Obj(vec![("k", J::s("goto")), ("target", bbj(*real_target)), line])
        },
        TerminatorKind::FalseUnwind { real_target, .. } => {
            J::Obj(vec![("k", J::s("goto")), ("target", bbj(*real_target)), line])
        },
        other => J::Obj(vec![("k", J::s("otherterm")), ("dbg", J::s(format!("{:?}", other))), line]),
    }
}
