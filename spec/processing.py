"""Noise rev 34 §5.3 WriteMessage / ReadMessage token processing and §5.2 SymmetricState operations, written as
expected *effect traces* in the descriptor language of snowlint/trace.py (independent of snow's source text;
parameters are positional: p1 = self, and for write (p2 payload, p3 message buffer), for read (p2 message, p3 payload
buffer)). '*' matches anything.

Spec text (abridged):
  WriteMessage: e  -> e = GENERATE_KEYPAIR(); append e.public_key; MixHash(e.public_key)  [psk mode: also MixKey(e.public_key), §9.2]
                s  -> append EncryptAndHash(s.public_key)
                ee/es/se/ss -> MixKey(DH(..))          psk -> MixKeyAndHash(psk)
                finally append EncryptAndHash(payload); after the last message return Split()
  ReadMessage:  e  -> re = next DHLEN bytes; MixHash(re.public_key) [psk mode: MixKey(re.public_key)]
                s  -> temp = next DHLEN (+16 if HasKey()) bytes; rs = DecryptAndHash(temp)
                ..  -> as above; finally DecryptAndHash(remaining bytes) is the payload; Split() after the last message
"""
ANY = "*"


def at(x):
    return ("at", x)


SS = at("p1.symmetricstate")
E_OBJ = at("p1.e.inner")
S_OBJ = at("p1.s.inner")
PUBLEN = ("getter", "pub_len", ANY)
SELF = ("param", 1)


def pubkey(o):
    return ("call", "Dh::pubkey", o)


DH_CALL = ("call", "HandshakeState::dh", SELF, ANY)
DH_OUT = ("slice", ("val", ("ok", DH_CALL)), ("to", ("anyof", (("call", "dh_len", SELF), ("getter", "dh_len", ANY)))))
SPLIT = ("SymmetricState::split", (SS, at("p1.cipherstates.0"), at("p1.cipherstates.1")), {"last": True})
PSK_VAL = ("val", at("p1.psks.0"))

WRITE = {
    "E": [
        ("Dh::generate", (E_OBJ, at("p1.rng")), {"fixed_ephemeral": False}),
        ("copy_from_slice", (("slice", ("param", 3), ANY), pubkey(E_OBJ)), {}),
        ("SymmetricState::mix_hash", (SS, pubkey(E_OBJ)), {}),
        ("SymmetricState::mix_key", (SS, pubkey(E_OBJ)), {"is_psk": True}),
        ("Toggle::enable", (at("p1.e"),), {}),
    ],
    "S": [
        ("SymmetricState::encrypt_and_mix_hash", (SS, pubkey(S_OBJ), ("slice", ("param", 3), ("from", ("idx",)))), {}),
    ],
    "Psk": [("SymmetricState::mix_key_and_hash", (SS, PSK_VAL), {})],
    "Dh": [("HandshakeState::dh", (SELF, ANY), {}), ("SymmetricState::mix_key", (SS, DH_OUT), {})],
    "epilogue": [
        ("SymmetricState::encrypt_and_mix_hash", (SS, ("param", 2), ("slice", ("param", 3), ("from", ("idx",)))), {}),
        SPLIT,
    ],
}
CUR = ("cursor", ("param", 2))
RE = ("slice", at("p1.re"), ("to", PUBLEN))
READ = {
    "E": [
        ("copy_from_slice", (RE, ("slice", CUR, ("to", PUBLEN))), {}),
        ("SymmetricState::mix_hash", (SS, RE), {}),
        ("SymmetricState::mix_key", (SS, RE), {"is_psk": True}),
        ("Toggle::enable", (at("p1.re"),), {}),
    ],
    "S": [
        ("SymmetricState::decrypt_and_mix_hash",
         (SS, ("oneof", frozenset({("slice", CUR, ("to", PUBLEN)), ("slice", CUR, ("to", ("+", 16, PUBLEN)))})), ("slice", at("p1.rs"), ("to", PUBLEN))), {}),
        ("Toggle::enable", (at("p1.rs"),), {}),
    ],
    "Psk": [("SymmetricState::mix_key_and_hash", (SS, PSK_VAL), {})],
    "Dh": [("HandshakeState::dh", (SELF, ANY), {}), ("SymmetricState::mix_key", (SS, DH_OUT), {})],
    "epilogue": [
        ("SymmetricState::decrypt_and_mix_hash", (SS, CUR, ("param", 3)), {}),
        SPLIT,
    ],
}
# events that are part of the specification-level trace (everything else in an arm is a getter / guard)
SEMANTIC = (
    "SymmetricState::mix_hash", "SymmetricState::mix_key", "SymmetricState::mix_key_and_hash",
    "SymmetricState::encrypt_and_mix_hash", "SymmetricState::decrypt_and_mix_hash", "SymmetricState::split",
    "SymmetricState::split_raw", "SymmetricState::initialize",
    "Dh::generate", "Dh::set", "HandshakeState::dh", "copy_from_slice", "Toggle::enable", "CipherState::set",
)


# ---------------------------------------------------------------------------------------------------
# §5.2 SymmetricState, §5.1 CipherState, §4.3 HMAC / HKDF as dataflow templates.
# Event forms: ("call", callee, (args...), guards) | ("assign", field chain, value, guards)
#              | ("init", local, value, guards) | ("elem", local, (index, value), guards)
# ("$", name) is a template variable bound to a piece of local storage; guards {} = unconditional.
def V(n):
    return ("$", n)


def loc(n):
    return ("at", V(n))


HASHER = at("p1.hasher")
H = at("p1.inner.h")
CK = at("p1.inner.ck")
HL = ("getter", "hash_len", "p1.hasher")
H_HL = ("slice", H, ("to", HL))
CK_HL = ("slice", CK, ("to", HL))
EMPTY = ("constarr", 0, None)
CS = at("p1.cipherstate")
KEYLEN = 32
P1, P2, P3, P4, P5, P6, P7 = (("param", i) for i in range(1, 8))

TEMPLATES = {
    # InitializeSymmetric(protocol_name): h = name padded with zeros if len <= HASHLEN else HASH(name); ck = h
    "symmetricstate::SymmetricState::initialize": [
        ("call", "copy_from_slice", (("slice", H, ("to", ("len", P2))), P2), {"len(p2)<=hash_len": True}),
        ("call", "Hash::reset", (HASHER,), {"len(p2)<=hash_len": False}),
        ("call", "Hash::input", (HASHER, P2), {"len(p2)<=hash_len": False}),
        ("call", "Hash::result", (HASHER, H), {"len(p2)<=hash_len": False}),
        ("call", "copy_from_slice", (("slice", CK, ("to", 64)), H), {}),
        ("assign", "p1.inner.has_key", 0, {}),
    ],
    # MixKey(ikm): ck, temp_k = HKDF(ck, ikm, 2); InitializeKey(temp_k truncated to 32)
    "symmetricstate::SymmetricState::mix_key": [
        ("call", "Hash::hkdf", (HASHER, CK_HL, P2, 2, loc("o0"), loc("o1"), EMPTY), {}),
        ("call", "copy_from_slice", (loc("k"), ("slice", loc("o1"), ("to", KEYLEN))), {}),
        ("assign", "p1.inner.ck", loc("o0"), {}),
        ("call", "CipherState::set", (CS, loc("k"), 0), {}),
        ("assign", "p1.inner.has_key", 1, {}),
    ],
    # MixHash(data): h = HASH(h || data)
    "symmetricstate::SymmetricState::mix_hash": [
        ("call", "Hash::reset", (HASHER,), {}),
        ("call", "Hash::input", (HASHER, H_HL), {}),
        ("call", "Hash::input", (HASHER, P2), {}),
        ("call", "Hash::result", (HASHER, H), {}),
    ],
    # MixKeyAndHash(ikm): ck, temp_h, temp_k = HKDF(ck, ikm, 3); MixHash(temp_h); InitializeKey(temp_k truncated)
    "symmetricstate::SymmetricState::mix_key_and_hash": [
        ("call", "Hash::hkdf", (HASHER, CK_HL, P2, 3, loc("o0"), loc("o1"), loc("o2")), {}),
        ("assign", "p1.inner.ck", loc("o0"), {}),
        ("call", "SymmetricState::mix_hash", (P1, ("slice", loc("o1"), ("to", HL))), {}),
        ("call", "copy_from_slice", (loc("k"), ("slice", loc("o2"), ("to", KEYLEN))), {}),
        ("call", "CipherState::set", (CS, loc("k"), 0), {}),
    ],
    # EncryptAndHash(plaintext): ciphertext = EncryptWithAd(h, plaintext) (identity without key); MixHash(ciphertext)
    "symmetricstate::SymmetricState::encrypt_and_mix_hash": [
        ("call", "CipherState::encrypt_ad", (CS, H_HL, P2, P3), {"has_key": True}),
        ("call", "copy_from_slice", (("slice", P3, ("to", ("len", P2))), P2), {"has_key": False}),
        ("call", "SymmetricState::mix_hash", (P1, ("slice", P3, ("to", ("idx",)))), {}),
    ],
    # DecryptAndHash(ciphertext): plaintext = DecryptWithAd(h, ciphertext); MixHash(ciphertext)
    "symmetricstate::SymmetricState::decrypt_and_mix_hash": [
        ("call", "CipherState::decrypt_ad", (CS, H_HL, P2, P3), {"has_key": True}),
        ("call", "copy_from_slice", (("slice", P3, ("to", ("len", P2))), P2), {"has_key": False}),
        ("call", "SymmetricState::mix_hash", (P1, P2), {}),
    ],
    # Split(): temp_k1, temp_k2 = HKDF(ck, zerolen, 2); c1 = key(temp_k1), c2 = key(temp_k2), nonces 0
    "symmetricstate::SymmetricState::split": [
        ("call", "SymmetricState::split_raw", (P1, loc("a"), loc("b")), {}),
        ("call", "copy_from_slice", (loc("k0"), ("slice", loc("a"), ("to", KEYLEN))), {}),
        ("call", "copy_from_slice", (loc("k1"), ("slice", loc("b"), ("to", KEYLEN))), {}),
        ("call", "CipherState::set", (P2, loc("k0"), 0), {}),
        ("call", "CipherState::set", (P3, loc("k1"), 0), {}),
    ],
    "symmetricstate::SymmetricState::split_raw": [
        ("call", "Hash::hkdf", (HASHER, CK_HL, EMPTY, 2, P2, P3, EMPTY), {}),
    ],
    # CipherState: InitializeKey(key): k = key, n = 0 (snow: n given by the caller, audited separately)
    "cipherstate::CipherState::set": [
        ("call", "Cipher::set", (at("p1.cipher"), P2), {}),
        ("assign", "p1.n", P3, {}),
        ("assign", "p1.has_key", 1, {}),
    ],
    # EncryptWithAd(ad, plaintext): ENCRYPT(k, n++, ad, plaintext)
    "cipherstate::CipherState::encrypt_ad": [
        ("call", "Cipher::encrypt", (at("p1.cipher"), at("p1.n"), P2, P3, P4), {}),
        ("assign", "p1.n", ("+", 1, ("field", "p1.n")), {}),
    ],
    "cipherstate::CipherState::decrypt_ad": [
        ("call", "Cipher::decrypt", (at("p1.cipher"), at("p1.n"), P2, P3, P4), {}),
        ("assign", "p1.n", ("+", 1, ("field", "p1.n")), {}),
    ],
    # transport messages: ENCRYPT/DECRYPT with zero-length associated data (§5.1 EncryptWithAd(zerolen, ..) via §5.3 Split)
    "cipherstate::CipherState::encrypt": [
        ("call", "CipherState::encrypt_ad", (P1, EMPTY, P2, P3), {}),
    ],
    "cipherstate::CipherState::decrypt": [
        ("call", "CipherState::decrypt_ad", (P1, EMPTY, P2, P3), {}),
    ],
    "cipherstate::StatelessCipherState::encrypt": [
        ("call", "StatelessCipherState::encrypt_ad", (P1, P2, EMPTY, P3, P4), {}),
    ],
    "cipherstate::StatelessCipherState::decrypt": [
        ("call", "StatelessCipherState::decrypt_ad", (P1, P2, EMPTY, P3, P4), {}),
    ],
    "cipherstate::StatelessCipherState::encrypt_ad": [
        ("call", "Cipher::encrypt", (at("p1.cipher"), P2, P3, P4, P5), {}),
    ],
    "cipherstate::StatelessCipherState::decrypt_ad": [
        ("call", "Cipher::decrypt", (at("p1.cipher"), P2, P3, P4, P5), {}),
    ],
    # RFC 2104 HMAC over the Hash trait: H((K ^ opad) || H((K ^ ipad) || data)), pads 0x36 / 0x5c over one block
    "types::Hash::hmac": [
        ("init", V("ipad"), ("repeat", 0x36, 128), {}),
        ("init", V("opad"), ("repeat", 0x5C, 128), {}),
        # every key byte, each exactly once: i ranges over 0..len(key)
        ("elem", V("ipad"), (("range", 0, ("len", P2)), ("BitXor", ("elem", loc("ipad")), ("elem", at("p2")))), {}),
        ("elem", V("opad"), (("range", 0, ("len", P2)), ("BitXor", ("elem", loc("opad")), ("elem", at("p2")))), {}),
        ("call", "Hash::reset", (P1,), {}),
        ("call", "Hash::input", (P1, ("slice", loc("ipad"), ("to", ("getter", "block_len", "p1")))), {}),
        ("call", "Hash::input", (P1, P3), {}),
        ("call", "Hash::result", (P1, loc("inner")), {}),
        ("call", "Hash::reset", (P1,), {}),
        ("call", "Hash::input", (P1, ("slice", loc("opad"), ("to", ("getter", "block_len", "p1")))), {}),
        ("call", "Hash::input", (P1, ("slice", loc("inner"), ("to", ("getter", "hash_len", "p1")))), {}),
        ("call", "Hash::result", (P1, P4), {}),
    ],
    # Noise HKDF(ck, ikm, n): temp = HMAC(ck, ikm); o1 = HMAC(temp, 0x01); o2 = HMAC(temp, o1 || 0x02); o3 = HMAC(temp, o2 || 0x03)
    "types::Hash::hkdf": [
        ("call", "Hash::hmac", (P1, P2, P3, loc("t")), {}),
        ("call", "Hash::hmac", (P1, loc("t"), ("constarr", 1, 1), P5), {}),
        ("call", "copy_from_slice", (("slice", loc("in2"), ("to", ("len", ("slice", P5, ("range", 0, ("getter", "hash_len", "p1")))))), ("slice", P5, ("range", 0, ("getter", "hash_len", "p1")))), {"p4==1": False}),
        ("elem", V("in2"), (("getter", "hash_len", "p1"), 2), {"p4==1": False}),
        ("call", "Hash::hmac", (P1, loc("t"), ("slice", loc("in2"), ("toinc", ("getter", "hash_len", "p1"))), P6), {"p4==1": False}),
        ("call", "copy_from_slice", (("slice", loc("in3"), ("to", ("len", ("slice", P6, ("range", 0, ("getter", "hash_len", "p1")))))), ("slice", P6, ("range", 0, ("getter", "hash_len", "p1")))), {"p4==1": False, "p4==2": False}),
        ("elem", V("in3"), (("getter", "hash_len", "p1"), 3), {"p4==1": False, "p4==2": False}),
        ("call", "Hash::hmac", (P1, loc("t"), ("slice", loc("in3"), ("toinc", ("getter", "hash_len", "p1"))), P7), {"p4==1": False, "p4==2": False}),
    ],
}
TEMPLATE_CALLS = SEMANTIC + (
    "Hash::hkdf", "Hash::hmac", "Hash::reset", "Hash::input", "Hash::result", "Cipher::set", "Cipher::encrypt", "Cipher::decrypt", "Cipher::rekey",
    "CipherState::encrypt_ad", "CipherState::decrypt_ad", "CipherState::encrypt", "CipherState::decrypt",
    "StatelessCipherState::encrypt_ad", "StatelessCipherState::decrypt_ad",
)
# writes to these fields are specification-level; other fields (e.g. the recorded key used for roll-back) are bookkeeping
TRACKED_FIELDS = ("h", "ck", "has_key", "n", "cipher")
