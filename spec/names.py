"""Name grammar terminals (Noise rev 34 §8, §12 + snow's documented extensions) and primitive
parameters (§12), written from the specification, independent of snow's source."""

BASE = {"Noise": "Noise"}
# literal -> snow enum variant
DH = {"25519": "Curve25519", "448": "Curve448"}
DH_EXT = {"P256": "P256"}  # snow extension, feature use-p256
CIPHER = {"ChaChaPoly": "ChaChaPoly", "AESGCM": "AESGCM"}
CIPHER_EXT = {"XChaChaPoly": "XChaChaPoly"}  # snow extension, feature use-xchacha20poly1305
HASH = {"SHA256": "SHA256", "SHA512": "SHA512", "BLAKE2s": "Blake2s", "BLAKE2b": "Blake2b"}
KEM = {"Kyber1024": "Kyber1024"}  # hfs draft
MODIFIERS = {"fallback": "Fallback"}
MODIFIERS_HFS = {"hfs": "Hfs"}
PSK_PREFIX = "psk"

ERR = {
    "BaseChoice": "UnsupportedBaseType",
    "DHChoice": "UnsupportedDhType",
    "CipherChoice": "UnsupportedCipherType",
    "HashChoice": "UnsupportedHashType",
    "KemChoice": "UnsupportedKemType",
    "HandshakePattern": "UnsupportedHandshakeType",
    "HandshakeModifier": "UnsupportedModifier",
}

# §12: hash name -> (HASHLEN, BLOCKLEN)
HASH_PARAMS = {"SHA256": (32, 64), "SHA512": (64, 128), "BLAKE2s": (32, 64), "BLAKE2b": (64, 128)}
# DH name -> (public key length, DH output length, private key length)
DH_PARAMS = {"25519": (32, 32, 32), "448": (56, 56, 56), "P256": (65, 32, 32)}
# cipher name -> (nonce bytes, offset of the 64-bit counter, endianness)
#   ChaChaPoly: 32 bits of zeros followed by little-endian n; AESGCM: 32 bits of zeros followed by big-endian n;
#   XChaChaPoly (snow extension): 128 bits of zeros followed by little-endian n
CIPHER_NONCE = {"ChaChaPoly": (12, 4, "le"), "AESGCM": (12, 4, "be"), "XChaChaPoly": (24, 16, "le")}
TAGLEN = 16
KEYLEN = 32
MAXMSGLEN = 65535
CONSTANTS = {"PSKLEN": 32, "CIPHERKEYLEN": 32, "TAGLEN": 16, "MAXHASHLEN": 64, "MAXBLOCKLEN": 128, "MAXMSGLEN": 65535}
# field order of a protocol name
NAME_FIELDS = ["base", "handshake", "dh", "cipher", "hash"]
