"""snow-owned structure of the built-in primitive wrappers (what is called on what), as dataflow templates;
and the binding table name() literal <-> wrapped external type <-> lengths (Noise rev 34 §12, RFC 7748, SEC 1).
The numerical behaviour of the wrapped crates is NOT covered — only that the right operation of the right
crate type receives the right operands."""
from .processing import V, loc, at, ANY, P1, P2, P3

# name -> (wrapped type marker in the struct field type / static, HASHLEN, BLOCKLEN)
HASH_BINDING = {
    "default": {
        "SHA256": ("sha2::Sha256VarCore", 32, 64),
        "SHA512": ("sha2::Sha512VarCore", 64, 128),
        "BLAKE2s": ("blake2::Blake2sVarCore", 32, 64),
        "BLAKE2b": ("blake2::Blake2bVarCore", 64, 128),
    },
    "ring": {
        "SHA256": ("ring::digest::SHA256", 32, 64),
        "SHA512": ("ring::digest::SHA512", 64, 128),
    },
}
# cipher name -> marker that must occur in the resolved backend type / algorithm static
CIPHER_BINDING = {
    "default": {"ChaChaPoly": ("chacha20poly1305::ChaChaPoly1305", "ChaChaCore"), "XChaChaPoly": ("chacha20poly1305::ChaChaPoly1305", "XChaChaCore"), "AESGCM": ("aes_gcm::AesGcm", "Aes256")},
    "ring": {"ChaChaPoly": ("ring::aead::CHACHA20_POLY1305",), "AESGCM": ("ring::aead::AES_256_GCM",)},
}
DH_BINDING = {"25519": (32, 32, 32), "P256": (65, 32, 32)}  # pub_len, priv_len, dh_len


def hash_templates(kind, hashlen, static=None):
    if kind == "default":
        fin = ("call", "Digest::finalize_reset", at("p1.hasher"))
        return {
            "reset": [("assign", "p1.hasher", ("call", "Default::default"), {})],
            "input": [("call", "Digest::update", (at("p1.hasher"), P2), {})],
            "result": [("call", "Digest::finalize_reset", (at("p1.hasher"),), {}),
                       ("call", "copy_from_slice", (("slice", P2, ("to", ("anyof", (hashlen, ("len", ("val", fin)))))), ("val", fin)), {})],
        }
    fin = ("call", "Context::finish", ("call", "Clone::clone", at("p1.context")))
    return {
        "reset": [("call", "Context::new", (("static", static),), {}), ("assign", "p1.context", ("call", "Context::new", ("static", static)), {})],
        "input": [("call", "Context::update", (at("p1.context"), P2), {})],
        "result": [("call", "Context::finish", (("call", "Clone::clone", at("p1.context")),), {}),
                   ("call", "copy_from_slice", (("slice", P2, ("to", hashlen)), ("val", fin)), {})],
    }


HASH_CALLS = ("Digest::update", "Digest::finalize_reset", "Context::new", "Context::update", "Context::finish", "copy_from_slice")

# X25519 (RFC 7748) through curve25519-dalek's clamping Montgomery ladder
MULB = ("call", "MontgomeryPoint::mul_base_clamped", at("p1.privkey"))
DH25519 = {
    "derive_pubkey": [("call", "MontgomeryPoint::mul_base_clamped", (at("p1.privkey"),), {}),
                      ("call", "MontgomeryPoint::to_bytes", (("val", MULB),), {}),
                      ("assign", "p1.pubkey", ("call", "MontgomeryPoint::to_bytes", ("val", MULB)), {})],
    "set": [("call", "copy_from_slice", (("slice", loc("b"), ("to", ("len", P2))), P2), {}),
            ("assign", "p1.privkey", loc("b"), {}),
            ("call", "Dh25519::derive_pubkey", (P1,), {})],
    "generate": [("call", "RngCore::fill_bytes", (P2, loc("b")), {}),
                 ("assign", "p1.privkey", loc("b"), {}),
                 ("call", "Dh25519::derive_pubkey", (P1,), {})],
    "dh": [("call", "copy_from_slice", (("slice", loc("pk"), ("to", ("len", ("slice", P2, ("to", 32))))), ("slice", P2, ("to", 32))), {}),
           ("call", "MontgomeryPoint::mul_clamped", (("agg", "MontgomeryPoint", "MontgomeryPoint", loc("pk")), at("p1.privkey")), {}),
           ("call", "MontgomeryPoint::to_bytes", (("val", ("call", "MontgomeryPoint::mul_clamped", ("agg", "MontgomeryPoint", "MontgomeryPoint", loc("pk")), at("p1.privkey"))),), {}),
           ("call", "copy_from_slice", (("slice", P3, ("to", 32)), ("val", ("call", "MontgomeryPoint::to_bytes", ("val", ("call", "MontgomeryPoint::mul_clamped", ("agg", "MontgomeryPoint", "MontgomeryPoint", loc("pk")), at("p1.privkey")))))), {})],
}
DH25519_CALLS = ("MontgomeryPoint::mul_base_clamped", "MontgomeryPoint::mul_clamped", "MontgomeryPoint::to_bytes", "copy_from_slice", "RngCore::fill_bytes", "Dh25519::derive_pubkey")

# P-256 ECDH, uncompressed SEC1 public keys
SK = ("call", "<C>::from_bytes", ("val", at("p1.privkey")))
P256 = {
    "set": [("call", "copy_from_slice", (("slice", loc("b"), ("to", ("len", P2))), P2), {}),
            ("assign", "p1.privkey", loc("b"), {}),
            ("call", "P256::derive_pubkey", (P1,), {})],
    "generate": [("call", "RngCore::fill_bytes", (P2, loc("b")), {}),
                 ("assign", "p1.privkey", loc("b"), {}),
                 ("call", "P256::derive_pubkey", (P1,), {})],
    "derive_pubkey": [("call", "SecretKey::from_bytes", (("val", at("p1.privkey")),), {}),
                      ("call", "SecretKey::public_key", (ANY,), {}),
                      ("call", "ToEncodedPoint::to_encoded_point", (ANY, 0), {}),   # compress = false
                      ("assign", "p1.pubkey", ("call", "ToEncodedPoint::to_encoded_point", ANY, 0), {})],
    "dh": [("call", "SecretKey::from_bytes", (("val", at("p1.privkey")),), {}),
           ("call", "PublicKey::from_sec1_bytes", (P2,), {}),
           ("call", "ecdh::diffie_hellman", (ANY, ANY), {}),
           ("call", "copy_from_slice", (("slice", P3, ANY), ANY), {})],
}
P256_CALLS = ("SecretKey::from_bytes", "SecretKey::public_key", "ToEncodedPoint::to_encoded_point", "PublicKey::from_sec1_bytes", "ecdh::diffie_hellman", "copy_from_slice", "RngCore::fill_bytes", "P256::derive_pubkey")
