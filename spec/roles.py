"""Role tables written from the Noise specification rev 34 (independent of snow's source).

§5.2 Split(): returns (c1, c2); §5.3: "the initiator uses c1 to encrypt (send) and c2 to decrypt; the
responder uses c2 to send and c1 to receive".  snow stores (c1, c2) as cipherstates.(0, 1).
Entry: operation -> (index used when initiator, index used when responder)."""

TRANSPORT_INDEX = {
    "write_message": (0, 1),
    "read_message": (1, 0),
    "rekey_outgoing": (0, 1),
    "rekey_incoming": (1, 0),
    "set_receiving_nonce": (1, 0),
    "receiving_nonce": (1, 0),
    "sending_nonce": (0, 1),
}
# role-independent operations: name -> index
TRANSPORT_FIXED = {
    "rekey_initiator_manually": 0,
    "rekey_responder_manually": 1,
}
# which TransportState-like types expose which operations
STATEFUL_OPS = ["write_message", "read_message", "rekey_outgoing", "rekey_incoming", "set_receiving_nonce", "receiving_nonce", "sending_nonce"]
STATELESS_OPS = ["write_message", "read_message", "rekey_outgoing", "rekey_incoming"]

# §5.3 DH token processing: token -> role -> (local key, remote key)
#   ee: DH(e, re); es: DH(e, rs) if initiator, DH(s, re) if responder;
#   se: DH(s, re) if initiator, DH(e, rs) if responder; ss: DH(s, rs)
DH_OPERANDS = {
    ("Ee", True): ("e", "re"),
    ("Ee", False): ("e", "re"),
    ("Es", True): ("e", "rs"),
    ("Es", False): ("s", "re"),
    ("Se", True): ("s", "re"),
    ("Se", False): ("e", "rs"),
    ("Ss", True): ("s", "rs"),
    ("Ss", False): ("s", "rs"),
}

# §5.3 Initialize(): pre-message public keys are hashed initiator's first, then responder's.
#   role -> [(which pre-message list, token) -> key hashed]
#   initiator: own pre-messages use (s, e) public keys; responder pre-messages use (rs, re)
#   responder: initiator pre-messages use (rs, re); own use (s, e)
PREMSG_KEYS = {
    (True, "i", "S"): "s",
    (True, "i", "E"): "e",
    (True, "r", "S"): "rs",
    (True, "r", "E"): "re",
    (False, "i", "S"): "rs",
    (False, "i", "E"): "re",
    (False, "r", "S"): "s",
    (False, "r", "E"): "e",
}
