"""The 38 handshake patterns of the Noise Protocol Framework, revision 34 (§7.4 one-way, §7.5
interactive fundamental, §7.6/Appendix 18.1 deferred), transcribed by hand from the specification —
independent of snow's source.  Tokens: 'E', 'S', ('Dh','Ee'|'Es'|'Se'|'Ss').

Each entry: name -> (initiator pre-message, responder pre-message, [message token lists]);
message 0 is sent by the initiator, message 1 by the responder, and so on alternately."""

E = "E"
S = "S"
ee = ("Dh", "Ee")
es = ("Dh", "Es")
se = ("Dh", "Se")
ss = ("Dh", "Ss")

PATTERNS = {
    # 7.4 one-way
    "N": ([], [S], [[E, es]]),
    "K": ([S], [S], [[E, es, ss]]),
    "X": ([], [S], [[E, es, S, ss]]),
    # 7.5 interactive, fundamental
    "NN": ([], [], [[E], [E, ee]]),
    "NK": ([], [S], [[E, es], [E, ee]]),
    "NX": ([], [], [[E], [E, ee, S, es]]),
    "XN": ([], [], [[E], [E, ee], [S, se]]),
    "XK": ([], [S], [[E, es], [E, ee], [S, se]]),
    "XX": ([], [], [[E], [E, ee, S, es], [S, se]]),
    "KN": ([S], [], [[E], [E, ee, se]]),
    "KK": ([S], [S], [[E, es, ss], [E, ee, se]]),
    "KX": ([S], [], [[E], [E, ee, se, S, es]]),
    "IN": ([], [], [[E, S], [E, ee, se]]),
    "IK": ([], [S], [[E, es, S, ss], [E, ee, se]]),
    "IX": ([], [], [[E, S], [E, ee, se, S, es]]),
    # deferred
    "NK1": ([], [S], [[E], [E, ee, es]]),
    "NX1": ([], [], [[E], [E, ee, S], [es]]),
    "X1N": ([], [], [[E], [E, ee], [S], [se]]),
    "X1K": ([], [S], [[E, es], [E, ee], [S], [se]]),
    "XK1": ([], [S], [[E], [E, ee, es], [S, se]]),
    "X1K1": ([], [S], [[E], [E, ee, es], [S], [se]]),
    "X1X": ([], [], [[E], [E, ee, S, es], [S], [se]]),
    "XX1": ([], [], [[E], [E, ee, S], [es, S, se]]),
    "X1X1": ([], [], [[E], [E, ee, S], [es, S], [se]]),
    "K1N": ([S], [], [[E], [E, ee], [se]]),
    "K1K": ([S], [S], [[E, es], [E, ee], [se]]),
    "KK1": ([S], [S], [[E], [E, ee, se, es]]),
    "K1K1": ([S], [S], [[E], [E, ee, es], [se]]),
    "K1X": ([S], [], [[E], [E, ee, S, es], [se]]),
    "KX1": ([S], [], [[E], [E, ee, se, S], [es]]),
    "K1X1": ([S], [], [[E], [E, ee, S], [se, es]]),
    "I1N": ([], [], [[E, S], [E, ee], [se]]),
    "I1K": ([], [S], [[E, es, S], [E, ee], [se]]),
    "IK1": ([], [S], [[E, S], [E, ee, se, es]]),
    "I1K1": ([], [S], [[E, S], [E, ee, es], [se]]),
    "I1X": ([], [], [[E, S], [E, ee, S, es], [se]]),
    "IX1": ([], [], [[E, S], [E, ee, se, S], [es]]),
    "I1X1": ([], [], [[E, S], [E, ee, S], [se, es]]),
}

ONE_WAY = {"N", "K", "X"}


def norm_token(t):
    if isinstance(t, (list, tuple)):
        return tuple(t)
    return t


def validity_problems(name, pre_i, pre_r, msgs):
    """§7.3 handshake pattern validity, evaluated on a (possibly extracted) row.
    Returns a list of human-readable problems (empty = valid)."""
    probs = []
    # what each party knows: own keys and peer public keys
    has = {True: set(), False: set()}  # role(initiator?) -> {'s','e','rs','re'}
    sent = {True: [], False: []}
    for t in pre_i:
        k = "s" if t == S else "e"
        has[True].add(k)
        has[False].add("r" + k)
        sent[True].append(k)
    for t in pre_r:
        k = "s" if t == S else "e"
        has[False].add(k)
        has[True].add("r" + k)
        sent[False].append(k)
    dh_done = []
    for i, m in enumerate(msgs):
        sender_init = i % 2 == 0
        for t in m:
            t = norm_token(t)
            if t in (E, S):
                k = "e" if t == E else "s"
                if k in sent[sender_init]:
                    probs.append("rule 2: %s sends its %s key twice" % ("initiator" if sender_init else "responder", k))
                sent[sender_init].append(k)
                has[sender_init].add(k)
                has[not sender_init].add("r" + k)
            elif isinstance(t, tuple) and t[0] == "Dh":
                if t in dh_done:
                    probs.append("rule 3: %s performed twice" % t[1].lower())
                dh_done.append(t)
                first, second = t[1][0].lower(), t[1][1].lower()  # initiator key, responder key
                # initiator needs own `first` and remote `second`; responder own `second`, remote `first`
                if first not in has[True] or ("r" + second) not in has[True]:
                    probs.append("rule 1: initiator lacks keys for %s in message %d" % (t[1].lower(), i))
                if second not in has[False] or ("r" + first) not in has[False]:
                    probs.append("rule 1: responder lacks keys for %s in message %d" % (t[1].lower(), i))
        # rule 4 is evaluated at every point where a payload is sent: end of each message and transport
        done = {d[1] for d in dh_done}
        if sender_init:
            if "Se" in done and "Ee" not in done:
                probs.append("rule 4: initiator sends payload after se without ee (message %d)" % i)
            if "Ss" in done and "Es" not in done:
                probs.append("rule 4: initiator sends payload after ss without es (message %d)" % i)
        else:
            if "Es" in done and "Ee" not in done:
                probs.append("rule 4: responder sends payload after es without ee (message %d)" % i)
            if "Ss" in done and "Se" not in done:
                probs.append("rule 4: responder sends payload after ss without se (message %d)" % i)
    # transport payloads: both parties of an interactive pattern, the initiator of a one-way one
    done = {d[1] for d in dh_done}
    if "Se" in done and "Ee" not in done:
        probs.append("rule 4: initiator transport payload after se without ee")
    if "Ss" in done and "Es" not in done:
        probs.append("rule 4: initiator transport payload after ss without es")
    if len(msgs) > 1:
        if "Es" in done and "Ee" not in done:
            probs.append("rule 4: responder transport payload after es without ee")
        if "Ss" in done and "Se" not in done:
            probs.append("rule 4: responder transport payload after ss without se")
    return sorted(set(probs))


def psk_placement(msgs, n):
    """§9: pskN modifier — psk0 places a 'psk' token at the beginning of the first message, pskN (N>0)
    at the end of the N-th message. Returns new message list or None if N exceeds the message count."""
    msgs = [list(m) for m in msgs]
    if n == 0:
        msgs[0].insert(0, ("Psk", 0))
    else:
        if n > len(msgs):
            return None
        msgs[n - 1].append(("Psk", n))
    return msgs
