#!/usr/bin/env python3
"""Rewrite the rule table of DESIGN.md §8.4 from the current evidence files (run after a quick-tier run on /repo)."""
import json, os, re
V = os.path.dirname(os.path.dirname(os.path.abspath(__file__)))
p = os.path.join(V, "DESIGN.md")
s = open(p).read()
i = s.index("### 8.4 Rules per property as implemented")
j = s.index("Each rule's one-line statement is in", i)
rows = ["### 8.4 Rules per property as implemented (rule names are the ones in the evidence files)", "",
        "| property | rules (instances on cfg A+B, quick tier) |", "|---|---|"]
for n in range(1, 21):
    c = "C%02d" % n
    e = json.load(open(os.path.join(V, "evidence", c + ".json")))
    rules = e["coverage"]["rules"]
    rows.append("| %s | %s |" % (c, ", ".join("`%s` (%d)" % (k, v["instances"]) for k, v in rules.items() if v.get("instances"))))
s = s[:i] + "\n".join(rows) + "\n\n" + s[j:]
open(p, "w").write(s)
print("rules table rewritten")
