#!/usr/bin/env python3
"""Regenerate /verif/MANIFEST.json from the table below (keeps it schema-valid at all times)."""
import json
import os

VERIF = os.path.dirname(os.path.dirname(os.path.abspath(__file__)))

TRUST = ("Trusted base: rustc (nightly 1.97) type checking, trait resolution and MIR construction; the snowfacts exporter; "
         "the reference tables in /verif/spec transcribed from Noise rev 34; documented semantics of the std functions the rules model. "
         "Not decided: numerics/strength of the external crypto crates, foreign resolver implementations.")

# id -> dict(level, text, technique, design, note) ; absent from CLAIMED => not_applicable with reason
CHECKS = {
    "C09": dict(level="proof",
                text="Every Cipher::encrypt/decrypt call site in snow (complete call-site inventory incl. virtual calls) is dominated by the success edge of a validator that rejects exactly 2^64-1; nothing rooted at self is written on any error exit; the inventory of writes to the counter is {0, +1 after success, explicit setter}; REKEY is the sole user of the reserved nonce. All obligations are finite CFG facts and all are discharged.",
                technique="MIR dominance / must-facts dataflow + interprocedural write-set (effect) summaries + call-site inventory",
                design="DESIGN.md §4 C09"),
}

CHECKS.update({
    "C05": dict(level="other",
                text="Decides the structural clauses: empty self-rooted write set on every error exit of the stateful transport read/write (all paths, both backends), complete inventory of writes to the counter (+1 after success only, explicit setter only on the receiving index), nonce operand is the counter, role table. Does not decide that an out-of-order message is rejected (AEAD strength).",
                technique="interprocedural error-path write-set (effect) analysis over MIR + dominance/must-facts + call-site inventory",
                design="DESIGN.md §4 C05"),
    "C06": dict(level="other",
                text="History property decided through the invariants that collapse the quantifier: encrypt is always followed by n+=1 (post-dominance), key change implies n=0, fresh ephemeral before every pubkey read, roll-back completeness of failed handshake calls (error-path write set minus provably restored paths inside an allow-table), no error exit after the caller's payload was encrypted, static key constant. Not decided: the history quantifier beyond these conditions. Also: set_receiving_nonce addresses the receiving cipher state and write_message the sending one for both roles (role table).",
                technique="MIR effect analysis with snapshot/restore kills + dominance / reachability rules + write inventories",
                design="DESIGN.md §4 C06"),
    "C07": dict(level="other",
                text="For the handshake entry points the may-write set on every error exit (all tokens, all failure points), minus what checkpoint/restore provably restores, must lie in an allow-table of dead paths with checked reasons; progress/turn only on the Ok edge; set_psk and stateful transport write nothing on error exits. State equality is decided; byte-equality of the continued session follows from it and is not separately decided. Also: a key toggle (s/e/rs/re) is switched off only where that same toggle was observed off (toggle-disable); the allow-table reasons 're/rs are overwritten by the retried read before any use' are checked: in the arm of the token that stores the field every read of it is dominated by a write (overwritten-before-use).",
                technique="interprocedural error-path write-set analysis with snapshot/restore reasoning over MIR",
                design="DESIGN.md §4 C07"),
    "C12": dict(level="proof",
                text="Exhaustive finite cross-check: prerequisite predicates vs token table for 38 patterns x 2 roles, token table vs Noise rev 34 table and vs the §7.3 validity predicates, DH operand availability for every row and role, build-time guards/variants/order and missing-PSK arms from MIR. All obligations discharged. Also: HandshakeTokens::try_from has an exit reporting Pattern(UnsupportedModifier) whatever the shape of the modifier loop; every ValidateKeyLengths rejection in build compares a private key with Dh::priv_len and the remote public key with its buffer capacity or Dh::pub_len (build-key-length).",
                technique="HIR table extraction + cross-table comparison with spec tables + MIR must-fact guards",
                design="DESIGN.md §4 C12"),
})

CHECKS.update({
    "C11": dict(level="other",
                text="Each documented state-error exit is taken exactly under its condition (must-facts at the exit + product-state path search for the converse) with the documented variant; no write or &mut call precedes the turn/finished guards; turn/progress written only on the Ok edge with the right values; indicator getters return the fields; conversions gated on is_handshake_finished(); one-way guards with the right role polarity before any cipher use; is_oneway's list equals the one-message rows of the extracted pattern table. The call-sequence quantifier collapses because every guard is a function of four audited fields. Also: out of phase the documented state error is the only possible outcome (state-error-total), and the roll-back the wrapper performs on that error edge re-installs exactly the checkpointed key and nonce (cipher-rollback).",
                technique="MIR must-fact (guard) dataflow + product-state CFG path search + HIR table cross-check",
                design="DESIGN.md §4 C11"),
    "C13": dict(level="other",
                text="Terminal tables of every FromStr impl (incl. the 38 macro-generated pattern names) compared with the specification per feature configuration; five-field composition structure, too-few/too-many errors, name stored verbatim; descending longest-prefix split with char-boundary guards and table-derived unambiguity; '+' modifier list with per-push duplicate check. Language equivalence is decided up to the std semantics of split/starts_with/u8::from_str.",
                technique="typed-HIR table and structure extraction compared with spec tables + MIR guard facts",
                design="DESIGN.md §4 C13"),
    "C15": dict(level="other",
                text="Dataflow and constants of the default REKEY (nonce 2^64-1, empty AD, 32 zero bytes, 48-byte buffer, first 32 bytes, set()); not overridden by any local impl; rekey write sets are {cipher} only; direction mapping of the whole rekey API in both transport types equals the role table; manual keys pass through unchanged. Rejection when only one side rekeys is not decided (AEAD). Also: rekey_outgoing/incoming rekey on every path except for the direction that does not exist in a one-way session; manual keys reach Cipher::set on the right cipher state through any number of forwarding layers.",
                technique="MIR dataflow template matching (operand provenance, promoted constants) + effect summaries + role-table extraction",
                design="DESIGN.md §4 C15"),
    "C16": dict(level="proof",
                text="&self receivers, deep Freeze of everything reachable from the stateless state (all local Cipher impls behind dyn), no unsafe code, Send+Sync from the trait solver, empty self-rooted write set, nonce/AD passthrough, twin equality of the stateful and stateless cipher-state functions (same call, same guards, nonce operand self.n vs parameter), conversion moves cipher/has_key. All obligations finite and discharged; round-trip correctness itself rests on the AEAD crates. Also: the stateless read/write length limits are exactly 65535 / 65535-16.",
                technique="type facts from the trait solver + deep Freeze walk + MIR effect summaries + sibling dataflow comparison + compile-only doc-test witnesses",
                design="DESIGN.md §4 C16"),
})

CHECKS.update({
    "C10": dict(level="other",
                text="Every panic-capable MIR site of snow's own code (Assert terminators, indexing, copy_from_slice, unwrap/expect, explicit panics) is discharged by a modular linear-constraint abstract interpreter (lenproof) under written contracts that are themselves verified on every body/impl; a handful of non-arithmetic sites are justified with recorded reasons; loops are finite `for` loops and the local call graph is acyclic. Dependency internals, allocation failure and foreign resolver objects are not analysed.",
                technique="abstract interpretation over linear constraints on symbolic lengths (MIR, join+widening, Fourier-Motzkin entailment), modular contracts, panic-site inventory",
                design="DESIGN.md §4 C10, Appendix A.3"),
    "C14": dict(level="other",
                text="Framing constants equal the specification's; length postconditions of all write/read entry points (<= 65535, <= buffer, exact +16/-16 for transport and Encrypt/DecryptAndHash) are verified on every return; every slicing obligation and length precondition inside the framing functions is discharged; length-guarded error exits construct Error::Input. The per-token sum of a handshake message length is bounded, not computed exactly.",
                technique="lenproof postconditions (abstract interpretation over linear length constraints) + constant table + MIR guard facts",
                design="DESIGN.md §4 C14"),
    "C17": dict(level="other",
                text="All three get_remote_static getters slice rs with a length that derives interprocedurally from Dh::pub_len (not dh_len), gated by Toggle::get; rs is written only by the builder and the `s` read arm, enabled only after successful decryption into rs[..pub_len]; both conversions move rs unchanged. That the decrypted bytes are the peer's key rests on AEAD/DH strength.",
                technique="interprocedural value-provenance (leaf-source) analysis over MIR + write inventories + must-fact guards",
                design="DESIGN.md §4 C17"),
})

CHECKS.update({
    "C01": dict(level="other",
                text="Structural conformance: the 38-row pattern table and psk placement vs rev 34 (+ §7.3 validity predicates), per-token effect traces of the write/read loops and epilogues vs §5.3, DH operand table by role, dataflow templates (exact event sets with operand provenance) for the SymmetricState/CipherState operations and the HMAC/HKDF defaults, AEAD nonce layout / operand wiring / tag placement of every local Cipher impl, transport key index by role, verbatim protocol name, reported flag/hash. Byte equality for all inputs and the numerics of the external primitives are NOT decided.",
                technique="HIR table extraction + MIR effect traces and dataflow-template matching (operand provenance) against hand-written spec tables",
                design="DESIGN.md §4 C01"),
    "C02": dict(level="other",
                text="Mirror symmetry needed for agreement: write/read token traces equal the spec and each other under Encrypt<->Decrypt, both epilogues split identically, both AndHash operations mix the ciphertext, progress counters move only on Ok, role-index complementarity (initiator write = responder read) in both transport types, conversions move the cipher pair/role unchanged, generate_keypair returns one generated pair. Agreement for every random ephemeral/payload is not decided as such. Also: HandshakeState::new hashes name, prologue and pre-message keys in the initiator-first order on both sides (context-binding), and the read/write length limits are exactly those of the specification.",
                technique="sibling effect-trace comparison + dataflow templates + role-table extraction over MIR",
                design="DESIGN.md §4 C02"),
    "C03": dict(level="other",
                text="Necessary conditions of transcript integrity in snow's code: every incoming byte is consumed exactly once and hashed/mixed (cursor discipline + token traces), every written region is hashed, h is the AD of every handshake AEAD operation down to the backend call, ciphertext is what is mixed, no Result is dropped anywhere in the crate, the read returns Ok only after the payload authenticated. That an alteration IS rejected rests on hash/AEAD strength (not decided).",
                technique="MIR cursor/advance analysis + effect traces + dataflow templates + crate-wide Result-use inventory",
                design="DESIGN.md §4 C03"),
    "C04": dict(level="other",
                text="Key index by role, whole message/output passed through, nonce operand (counter or caller's nonce) encoded into the AEAD nonce, key/AD/body/tag operands of every backend call, short-ciphertext guard (lenproof), Error::Decrypt on failure, Result propagation on the transport path. Unforgeability itself is the AEAD's (not decided). Also: CipherState/StatelessCipherState::encrypt/decrypt pass zero-length associated data to the AEAD (templates).",
                technique="role-table extraction + operand-provenance checks of AEAD wrappers + lenproof preconditions over MIR",
                design="DESIGN.md §4 C04"),
    "C08": dict(level="other",
                text="Every context item enters the transcript on both roles: h from the verbatim name, MixHash(prologue), pre-message keys by (role, list, token) initiator-first, psk via MixKeyAndHash of the configured key, static keys as DH operands per the role table, DH output into MixKey. That any disagreement is fatal rests on hash/AEAD strength (not decided).",
                technique="MIR effect traces / decision-table extraction against the role tables of the specification",
                design="DESIGN.md §4 C08"),
    "C18": dict(level="other",
                text="Snow-owned structure only: HMAC/HKDF templates (constants, truncations, counters), AEAD nonce layouts and operand wiring, binding table name()<->wrapped type<->lengths for all hash/DH/cipher impls, wrapper dataflow (clamped X25519 base-point/variable multiplication, uncompressed SEC1, rng-filled private keys). Every numerical statement about the external crates is NOT decided. Also: the HMAC pad loop covers every key byte exactly once with matching indices.",
                technique="dataflow-template matching + binding-table extraction (types, statics, constant getters) over MIR",
                design="DESIGN.md §4 C18"),
    "C19": dict(level="other",
                text="Only audited verify-then-decrypt AEAD entry points are called from Cipher impls; before the AEAD call only ciphertext, after it only success-path data is written to the caller's buffer (incl. ring's small-buffer path); nothing else writes the output buffer on any decrypt path up to the public API. The backends' internal verify-before-decrypt ordering is an assumption recorded with the Cargo.lock versions. Also: inside a decrypt wrapper the output buffer is handed only to the AEAD open call and copy_from_slice, no sealing entry point is called, Ok is returned only on the open call's success edge; the handshake read hands the caller's payload buffer to exactly one decrypt.",
                technique="who-may-call inventory + dominance/success-path ordering of writes to the output buffer over MIR",
                design="DESIGN.md §4 C19"),
    "C20": dict(level="other",
                text="Sibling agreement of default and ring impls (nonce layout, operands, tag, lengths; default HMAC/HKDF/REKEY), resolver tables choice->impl->name(), FallbackResolver structure (preferred, else fallback, same choice), Builder::new / with_resolver plumbing incl. ring-accelerated. Byte equality across backends depends on the crates' numerics (not decided). Also: only the audited AEAD entry points of either backend are called from Cipher impls.",
                technique="sibling comparison of extracted wrapper structure + HIR resolver tables + closure-body matching",
                design="DESIGN.md §4 C20"),
})

PENDING_REASON = "check under construction in this session (static rule not armed yet); see DESIGN.md §4"


def main():
    props = [json.loads(l) for l in open(os.path.join(VERIF, "properties.jsonl"))]
    checks = []
    na = []
    for p in props:
        pid = p["id"]
        c = CHECKS.get(pid)
        if c is None:
            na.append({"property_id": pid, "reason": NA.get(pid, PENDING_REASON)})
            continue
        checks.append({
            "property_id": pid,
            "quick_cmd": "./check %s --tier quick" % pid,
            "thorough_cmd": "./check %s --tier thorough" % pid,
            "evidence_file": "/verif/evidence/%s.json" % pid,
            "replay_cmd_template": "./check %s --replay {path}" % pid,
            "engine": "snowlint",
            "level_claimed": {"category": c["level"], "text": c["text"], "design_ref": c["design"]},
            "level_note": c.get("note", TRUST),
            "technique": c["technique"],
        })
    m = {
        "version": 1,
        "setup_cmd": "./setup.sh",
        "hooks": {
            "guard": "snow_verif",
            "enable": "none needed: static analysis reads /repo's source as it is (no instrumentation hooks)",
            "baseline_off_cmd": "cd /repo && cargo test --workspace --no-fail-fast --offline",
            "source_commits": [],
            "add_only": True,
        },
        "engines": [
            {"name": "snowfacts", "path": "/verif/snowfacts", "serves_properties": [c["property_id"] for c in checks],
             "kind_free_text": "rustc_private driver (RUSTC_WORKSPACE_WRAPPER under cargo +nightly check) exporting items, MIR (opt-level 0), typed HIR, ADTs, impls, constants of snow per feature configuration"},
            {"name": "snowlint", "path": "/verif/snowlint", "serves_properties": [c["property_id"] for c in checks],
             "kind_free_text": "Python (stdlib) static analyses over the exported facts: CFG/dominators, reference provenance, interprocedural write-set summaries with outcome tracking, must-fact guards, HIR table extraction, linear length prover; rules per property in snowlint/rules"},
        ],
        "checks": checks,
        "not_applicable": na,
        "notes": "Technique family: static analysis only. Exit codes: 0 holds / 1 + VIOLATION line / 2 INCONCLUSIVE (analysis could not be performed; never on the unchanged tree). Known findings: /verif/known_findings.json.",
    }
    with open(os.path.join(VERIF, "MANIFEST.json"), "w") as f:
        json.dump(m, f, indent=1)
    print("MANIFEST.json: %d checks, %d not_applicable" % (len(checks), len(na)))


NA = {}

if __name__ == "__main__":
    main()
