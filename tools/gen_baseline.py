#!/usr/bin/env python3
"""Write snowlint/baseline_fns.json: names, parents and signatures of the crate-local functions of /repo at its current
HEAD, per feature configuration. Used only by snowlint/normalize.py to tell a renamed function from a new helper.
Regenerate only when a change to /repo (a `fix:` commit) is accepted as the new reference."""
import json
import os
import re
import sys

VERIF = os.path.dirname(os.path.dirname(os.path.abspath(__file__)))
sys.path.insert(0, VERIF)
from snowlint import build, normalize  # noqa

out = {}
for cfg in ("A", "B", "C", "D", "E"):
    p = build.export_facts(cfg)
    txt = re.sub(r"\b(?:core|alloc)::", "std::", open(p).read())
    dd = json.loads(txt)
    out[cfg] = normalize.index_of(dd)
    out["adts:" + cfg] = normalize.adt_index(dd)
    print(cfg, len(out[cfg]), "functions")
out["_repo_commit"] = os.popen("git -C /repo log --format=%h -1").read().strip()
json.dump(out, open(normalize.BASELINE, "w"), indent=0, sort_keys=True)
